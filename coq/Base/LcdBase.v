(* Vocabulary shared by the host LCD model (Host/LCD.v) and the firmware LCD model
   (Device/DLCD.v): Z-indexed list helpers, the LCD operations of the Reduino API,
   alignment / progress-style codes and the block-character canonicaliser.
   Definitions only; lemmas live in Proofs/LCDP.v. *)
From Coq Require Import ZArith List Bool.
Import ListNotations.
Open Scope Z_scope.

(* ---------- Z-indexed list helpers ---------- *)
Definition zlen {A} (l : list A) : Z := Z.of_nat (length l).
Definition ztake {A} (n : Z) (l : list A) : list A := firstn (Z.to_nat n) l.
Definition zrepeat {A} (x : A) (n : Z) : list A := repeat x (Z.to_nat n).
Definition zseq (n : Z) : list Z := map Z.of_nat (seq 0 (Z.to_nat n)).
(* [znth i l d] is only used with 0 <= i *)
Definition znth {A} (i : Z) (l : list A) (d : A) : A := nth (Z.to_nat i) l d.

Fixpoint upd_nat {A} (i : nat) (v : A) (l : list A) {struct l} : list A :=
  match l, i with
  | [], _ => []
  | _ :: r, O => v :: r
  | x :: r, S j => x :: upd_nat j v r
  end.
(* l[i] = v for 0 <= i < len l; anything else leaves l alone (callers guard the index) *)
Definition zupd {A} (i : Z) (v : A) (l : list A) : list A :=
  if i <? 0 then l else upd_nat (Z.to_nat i) v l.

(* ---------- characters ---------- *)
Definition SP : Z := 32.
Definition BLOCK_HOST : Z := 9608.     (* U+2588, LCD._PROGRESS_STYLES["block"] *)
Definition BLOCK_DEV : Z := 255.       (* static_cast<char>(0xff), _LCD_PROGRESS_STYLES["block"] *)
(* DESIGN section 1: HD44780 code 0xFF and U+2588 are identified *)
Definition canon (c : Z) : Z := if c =? BLOCK_HOST then BLOCK_DEV else c.
Definition ascii (t : list Z) : Prop := Forall (fun c => 0 <= c <= 127) t.
Definition asciib (t : list Z) : bool := forallb (fun c => (0 <=? c) && (c <=? 127)) t.

(* ---------- argument codes ---------- *)
(* alignment: 0 left, 1 center, 2 right; every other code stands for a string that is
   none of the three (host: ValueError at the call; transpiler: ValueError at parse time) *)
Definition align_ok (a : Z) : bool := (0 <=? a) && (a <=? 2).
(* progress style: 0 block, 1 hash, 2 pipe, 3 dot; other = unknown style *)
Definition style_ok (s : Z) : bool := (0 <=? s) && (s <=? 3).
Definition host_glyph (s : Z) : Z :=
  if s =? 0 then BLOCK_HOST else if s =? 1 then 35 else if s =? 2 then 124 else 46.
Definition dev_glyph (s : Z) : Z :=
  if s =? 0 then BLOCK_DEV else if s =? 1 then 35 else if s =? 2 then 124 else 46.

(* the spellings the codes stand for (harness: ALIGNS / STYLES lists in the same order), and
   lookup in the tables regenerated from the source (Gen/LcdTables.v) *)
Definition align_name (a : Z) : list Z :=
  if a =? 0 then [108; 101; 102; 116]                          (* left *)
  else if a =? 1 then [99; 101; 110; 116; 101; 114]            (* center *)
  else [114; 105; 103; 104; 116].                              (* right *)
Definition style_name (s : Z) : list Z :=
  if s =? 0 then [98; 108; 111; 99; 107]                       (* block *)
  else if s =? 1 then [104; 97; 115; 104]                      (* hash *)
  else if s =? 2 then [112; 105; 112; 101]                     (* pipe *)
  else [100; 111; 116].                                        (* dot *)
Fixpoint text_eqb (a b : list Z) : bool :=
  match a, b with
  | [], [] => true
  | x :: a', y :: b' => (x =? y) && text_eqb a' b'
  | _, _ => false
  end.
Fixpoint assoc (k : list Z) (l : list (list Z * Z)) : option Z :=
  match l with
  | [] => None
  | (k', v) :: r => if text_eqb k k' then Some v else assoc k r
  end.

(* ---------- the LCD operations of property C17 (animations are C18) ---------- *)
Inductive lop : Type :=
| OWrite (col row : Z) (text : list Z) (clear : bool) (align : Z)
| OLine (row : Z) (text : list Z) (align : Z) (clear : bool)
| OMessage (top bottom : option (list Z)) (top_align bottom_align : Z) (clear : bool)
| OClear
| OProgress (row value maxv : Z) (width : option Z) (style : Z) (label : list Z)
| ODisplay (on : bool)
| OBacklight (on : bool)
| OBrightness (level : Z)
| OGlyph (slot : Z) (bitmap : list Z).

(* declared geometry + wiring of one LCD *)
Record geom : Type := { g_cols : Z; g_rows : Z; g_i2c : bool; g_blpin : option Z }.

(* ---------- executable guards (used by the _partial theorems and, extracted, by the
   case generators of the harness) ---------- *)
(* the geometry fits the 2 x 40 bytes of DDRAM of one HD44780 *)
Definition fitsb (g : geom) : bool :=
  (1 <=? g_cols g) && (g_cols g <=? 40) && (1 <=? g_rows g) && (g_rows g <=? 4)
  && ((g_rows g <=? 2) || (g_cols g <=? 20)).
Definition row_in (g : geom) (row : Z) : bool := (0 <=? row) && (row <? g_rows g).
Definition col_in (g : geom) (col : Z) : bool := (0 <=? col) && (col <? g_cols g).
Definition opt_asciib (o : option (list Z)) : bool :=
  match o with None => true | Some t => asciib t end.
Definition is_none {A} (o : option A) : bool := match o with None => true | Some _ => false end.
