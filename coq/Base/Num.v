(* Python scalars as seen by the host actuator classes (DESIGN.md Appendix A.1).

   pynum  = what a caller may pass where the code expects a number:
            an int (unbounded Z), a float (exact rational Q; IEEE specials are outside
            the model), a bool (a subclass of int in Python) or some non-numeric
            object (None, "abc"): every ordering comparison of the latter with a
            number raises TypeError.
   Everything here is small, total and computable; the lemmas are in Proofs/NumP.v.

   Exact-rational vs binary64: where the code rounds a float to an integer
   (int(), round()) the model applies the same rule to the exact rational.  For the
   values that occur (channel interpolation c + d*i/n with |c|,|d| <= 255 and
   n < 2^40) a binary64 result is off by at most two roundings of a value below 2^8,
   i.e. by less than 2^-44, whereas an exact value with denominator n that is not
   itself a rounding boundary (k or k + 1/2) is at least 1/(2n) > 2^-41 away from
   one; and when it IS a boundary the binary64 computation is exact (k and k + 1/2
   are representable and the quotient is correctly rounded).  Hence both pick the
   same integer.  The correspondence check measures this on every run.

   Wire form of a pynum:  (0 z) int | (1 (num den)) float | (2 b) bool | (3) object. *)
From Coq Require Import ZArith QArith Qround List Bool.
From RV Require Import Base.Wire.
Import ListNotations.

Module Num.
Local Open Scope Q_scope.

Inductive pynum : Type :=
| PI (z : Z)
| PF (q : Q)
| PB (b : bool)
| PO.

Definition b2z (b : bool) : Z := if b then 1%Z else 0%Z.

(* isinstance(x, int)  -- True for bools *)
Definition is_intlike (x : pynum) : bool :=
  match x with PI _ | PB _ => true | _ => false end.

Definition is_obj (x : pynum) : bool :=
  match x with PO => true | _ => false end.

(* numeric value (0 for an object; callers test is_obj first) *)
Definition qval (x : pynum) : Q :=
  match x with
  | PI z => inject_Z z
  | PF q => q
  | PB b => inject_Z (b2z b)
  | PO => 0
  end.

(* int(q): truncation toward zero *)
Definition py_int_trunc (q : Q) : Z := Z.quot (Qnum q) (Zpos (Qden q)).

(* int(x) *)
Definition zval (x : pynum) : Z :=
  match x with
  | PI z => z
  | PF q => py_int_trunc q
  | PB b => b2z b
  | PO => 0%Z
  end.

(* round(q): round-half-even on the exact rational *)
Definition py_round (q : Q) : Z :=
  let f := Qfloor q in
  match ((q - inject_Z f) ?= (1 # 2))%Q with
  | Lt => f
  | Gt => (f + 1)%Z
  | Eq => if Z.even f then f else (f + 1)%Z
  end.

Definition Qltb (x y : Q) : bool := negb (Qle_bool y x).

(* x < c, x <= c, lo <= x <= hi as Python evaluates them: None = raises TypeError *)
Definition num_lt (x : pynum) (c : Q) : option bool :=
  if is_obj x then None else Some (Qltb (qval x) c).

Definition num_le (x : pynum) (c : Q) : option bool :=
  if is_obj x then None else Some (Qle_bool (qval x) c).

Definition num_between (lo hi : Q) (x : pynum) : option bool :=
  if is_obj x then None else Some (Qle_bool lo (qval x) && Qle_bool (qval x) hi).

(* x == c  (never raises; an object is unequal to every number) *)
Definition num_eq (x : pynum) (c : Q) : bool :=
  if is_obj x then false else Qeq_bool (qval x) c.

(* range(x): number of iterations; None = TypeError (floats, even whole ones, and objects) *)
Definition range_count (x : pynum) : option Z :=
  match x with
  | PI z => Some z
  | PB b => Some (b2z b)
  | _ => None
  end.

Definition clampZ (lo hi z : Z) : Z := Z.max lo (Z.min hi z).

(* min(c, x) and max(c, x) with the constant FIRST: Python keeps the first argument
   unless the second is strictly smaller / larger *)
Definition qmin_c (c x : Q) : Q := if Qltb x c then x else c.
Definition qmax_c (c x : Q) : Q := if Qltb c x then x else c.

(* ---- wire ---- *)
Definition un_pynum (v : wv) : option pynum :=
  match v with
  | WL [WI 0%Z; WI z] => Some (PI z)
  | WL [WI 1%Z; q] => match un_q q with Some q' => Some (PF q') | None => None end
  | WL [WI 2%Z; b] => match un_bool b with Some b' => Some (PB b') | None => None end
  | WL [WI 3%Z] => Some PO
  | _ => None
  end.

Fixpoint un_pynums (l : list wv) : option (list pynum) :=
  match l with
  | [] => Some []
  | v :: r =>
      match un_pynum v, un_pynums r with
      | Some x, Some xs => Some (x :: xs)
      | _, _ => None
      end
  end.

Definition w_pynum (x : pynum) : wv :=
  match x with
  | PI z => WL [WI 0%Z; WI z]
  | PF q => WL [WI 1%Z; wq q]
  | PB b => WL [WI 2%Z; wbool b]
  | PO => WL [WI 3%Z]
  end.

End Num.
