(* Python scalars as seen by the C20 host helpers (Core / Utils / Sensors / Serial).
   Definitions only; lemmas live in Proofs/NumCP.v.

   pynum  :  PI z  a Python int            (unbounded Z)
             PF q  a Python float          (the exact rational value of the binary64 number)
             PB b  a Python bool           (isinstance(True, int) holds: numeric value 0/1)
             PO    the object None         (non-numeric: float(None), None < 0, int(None) raise
                                            TypeError; bool(None) is False)
   IEEE specials (NaN, +-inf, -0.0) and ints too large for float() are outside the model. *)
From Coq Require Import ZArith QArith List Bool.
Import ListNotations.
Open Scope Z_scope.

Inductive pynum : Type :=
| PI (z : Z)
| PF (q : Q)
| PB (b : bool)
| PO.

Inductive exn : Type := ValueError | TypeError | RuntimeError.

Definition exn_code (e : exn) : Z :=
  match e with ValueError => 1 | TypeError => 2 | RuntimeError => 3 end.

Definition b2z (b : bool) : Z := if b then 1 else 0.

(* float(x) / the numeric value used by comparisons and arithmetic; None = TypeError *)
Definition qval (x : pynum) : option Q :=
  match x with
  | PI z => Some (inject_Z z)
  | PF q => Some q
  | PB b => Some (inject_Z (b2z b))
  | PO => None
  end.

(* isinstance(x, int) *)
Definition is_int (x : pynum) : bool :=
  match x with PI _ | PB _ => true | _ => false end.

(* bool(x) *)
Definition truthy (x : pynum) : bool :=
  match x with
  | PI z => negb (z =? 0)
  | PF q => negb (Qnum q =? 0)
  | PB b => b
  | PO => false
  end.

(* int(q): truncation toward zero *)
Definition q_trunc (q : Q) : Z := Z.quot (Qnum q) (Zpos (Qden q)).

(* int(x) for a pynum; None = TypeError *)
Definition py_int (x : pynum) : option Z :=
  match x with
  | PI z => Some z
  | PF q => Some (q_trunc q)
  | PB b => Some (b2z b)
  | PO => None
  end.

(* round(q) of Python 3 on a float: nearest integer, ties to even, on the exact rational *)
Definition q_round (q : Q) : Z :=
  let n := Qnum q in
  let d := Zpos (Qden q) in
  let f := n / d in
  let r := n mod d in
  match Z.compare (2 * r) d with
  | Lt => f
  | Gt => f + 1
  | Eq => if Z.even f then f else f + 1
  end.

(* max(lo, min(hi, z)) *)
Definition clamp (lo hi z : Z) : Z := Z.max lo (Z.min hi z).

Definition q_ltb (a b : Q) : bool := (Qnum a * Zpos (Qden b) <? Qnum b * Zpos (Qden a)).
Definition q_eqb (a b : Q) : bool := Qeq_bool a b.
