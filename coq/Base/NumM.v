(* Python scalars as they reach the host actuator classes (DESIGN.md Appendix A.1).

   pynum := PI z   a Python int (unbounded)
          | PF q   a Python float, modelled as the exact rational it denotes
          | PB b   a Python bool (isinstance(True, int) holds; numerically 1/0)
          | PO     a non-numeric object (None): every comparison / float() on it raises

   Wire form of a pynum:  (0 z) int | (1 (num den)) float | (2 b) bool | (3) object.

   Everything here is total and computable; lemmas live in Proofs/NumMP.v. *)
From Coq Require Import ZArith QArith List Bool.
From RV Require Import Base.Wire.
Import ListNotations.
Open Scope Q_scope.

Inductive pynum : Type :=
| PI (z : Z)
| PF (q : Q)
| PB (b : bool)
| PO.

(* exception kinds the actuator classes raise on scalar arguments *)
Inductive exn : Type := ValueError | TypeError.

Inductive result (R : Type) : Type :=
| Ok (r : R)
| Raised (k : exn).
Arguments Ok {R} r.
Arguments Raised {R} k.

Definition bq (b : bool) : Q := if b then 1 else 0.
Definition bz (b : bool) : Z := if b then 1%Z else 0%Z.

(* float(x): None on a non-number (Python raises TypeError there) *)
Definition qof (x : pynum) : option Q :=
  match x with
  | PI z => Some (inject_Z z)
  | PF q => Some q
  | PB b => Some (bq b)
  | PO => None
  end.

(* numeric value, 0 for a non-number (total; callers test [qof] first) *)
Definition qval (x : pynum) : Q :=
  match qof x with Some q => q | None => 0 end.

(* isinstance(x, int) *)
Definition is_int (x : pynum) : bool :=
  match x with PI _ | PB _ => true | _ => false end.

(* the integer an int/bool denotes (hash/eq of True is that of 1) *)
Definition zof (x : pynum) : option Z :=
  match x with
  | PI z => Some z
  | PB b => Some (bz b)
  | _ => None
  end.

(* boolean comparisons on Q *)
Definition Qleb (x y : Q) : bool := Qle_bool x y.
Definition Qltb (x y : Q) : bool := negb (Qle_bool y x).
Definition Qeqb (x y : Q) : bool := Qeq_bool x y.

(* Python  x < y, x <= y, x >= y  on scalars: None = raises TypeError *)
Definition py_lt (x y : pynum) : option bool :=
  match qof x, qof y with Some a, Some b => Some (Qltb a b) | _, _ => None end.
Definition py_le (x y : pynum) : option bool :=
  match qof x, qof y with Some a, Some b => Some (Qleb a b) | _, _ => None end.
Definition py_ge (x y : pynum) : option bool := py_le y x.
(* Python  not x < y *)
Definition py_not_lt (x y : pynum) : option bool :=
  match py_lt x y with Some b => Some (negb b) | None => None end.

(* Python chained  lo <= v <= hi  with float bounds: None = raises TypeError *)
Definition py_between (lo hi : Q) (v : pynum) : option bool :=
  match qof v with
  | Some q => Some (Qleb lo q && Qleb q hi)
  | None => None
  end.

(* if x > hi: hi / if x < lo: lo / x   (the shape of every clamp in the package) *)
Definition qclamp (lo hi x : Q) : Q :=
  if Qltb hi x then hi else if Qltb x lo then lo else x.

Definition qabs (x : Q) : Q := if Qltb x 0 then - x else x.

Fixpoint qsum (l : list Q) : Q :=
  match l with [] => 0 | x :: r => x + qsum r end.

(* ---- wire ---- *)
Definition un_pynum (v : wv) : option pynum :=
  match v with
  | WL [WI 0%Z; WI z] => Some (PI z)
  | WL [WI 1%Z; q] => match un_q q with Some q' => Some (PF q') | None => None end
  | WL [WI 2%Z; b] => match un_bool b with Some b' => Some (PB b') | None => None end
  | WL [WI 3%Z] => Some PO
  | _ => None
  end.

Definition wpynum (x : pynum) : wv :=
  match x with
  | PI z => WL [WI 0%Z; WI z]
  | PF q => WL [WI 1%Z; wq q]
  | PB b => WL [WI 2%Z; wbool b]
  | PO => WL [WI 3%Z]
  end.

(* optional argument: () absent, (v) present *)
Definition un_opt_pynum (v : wv) : option (option pynum) :=
  match v with
  | WL [] => Some None
  | WL [x] => match un_pynum x with Some p => Some (Some p) | None => None end
  | _ => None
  end.

Definition wexn (k : exn) : wv := WI (match k with ValueError => 0%Z | TypeError => 1%Z end).
