(* Strings as lists of code points, with decidable equality and membership. *)
From Coq Require Import ZArith List Bool Lia.
From RV Require Import Base.Wire.
Import ListNotations.
Open Scope Z_scope.

Fixpoint text_eqb (a b : text) : bool :=
  match a, b with
  | [], [] => true
  | x :: a', y :: b' => (x =? y) && text_eqb a' b'
  | _, _ => false
  end.

Lemma text_eqb_eq a b : text_eqb a b = true <-> a = b.
Proof.
  revert b; induction a as [|x a IH]; intros [|y b]; cbn; split; intro H;
    try reflexivity; try discriminate.
  - apply andb_true_iff in H as [H1 H2]. apply Z.eqb_eq in H1. apply IH in H2. congruence.
  - inversion H; subst. rewrite Z.eqb_refl. cbn. apply IH. reflexivity.
Qed.

Lemma text_eqb_refl a : text_eqb a a = true.
Proof. apply text_eqb_eq. reflexivity. Qed.

Fixpoint tmem (a : text) (l : list text) : bool :=
  match l with [] => false | b :: r => text_eqb a b || tmem a r end.

Lemma tmem_In a l : tmem a l = true <-> In a l.
Proof.
  induction l as [|b r IH]; cbn; [split; [discriminate|tauto]|].
  rewrite orb_true_iff, text_eqb_eq, IH. split; intros [H|H]; auto.
Qed.

Fixpoint tlookup {A} (a : text) (l : list (text * A)) : option A :=
  match l with
  | [] => None
  | (k, v) :: r => if text_eqb a k then Some v else tlookup a r
  end.
