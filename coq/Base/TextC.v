(* Text helpers used by the C20 host models (ASCII fragment of the str methods).
   Definitions only; lemmas live in Proofs/NumCP.v.
   Outside the model: non-ASCII characters for which str.isdigit / str.isspace /
   str.upper differ from the ASCII rules below. *)
From Coq Require Import ZArith List Bool.
From Coq Require Decimal.
From RV Require Import Base.Wire.
Import ListNotations.
Open Scope Z_scope.

(* '0'..'9' *)
Definition is_digit (c : Z) : bool := (48 <=? c) && (c <=? 57).

(* str.isdigit() restricted to ASCII: non-empty and all digits *)
Definition all_digits (t : text) : bool :=
  match t with [] => false | _ => forallb is_digit t end.

(* int(t) for a string of ASCII digits (leading zeros allowed) *)
Fixpoint dec_acc (acc : Z) (t : text) : Z :=
  match t with
  | [] => acc
  | c :: r => dec_acc (acc * 10 + (c - 48)) r
  end.
Definition dec (t : text) : Z := dec_acc 0 t.

(* ASCII white space of str.strip(): \t \n \v \f \r, FS GS RS US, space *)
Definition is_space (c : Z) : bool :=
  ((9 <=? c) && (c <=? 13)) || ((28 <=? c) && (c <=? 32)).

Fixpoint lstrip (t : text) : text :=
  match t with
  | [] => []
  | c :: r => if is_space c then lstrip r else t
  end.
Definition strip (t : text) : text := List.rev (lstrip (List.rev (lstrip t))).

(* str.upper() on ASCII letters *)
Definition up_char (c : Z) : Z := if (97 <=? c) && (c <=? 122) then c - 32 else c.
Definition upper (t : text) : text := map up_char t.

(* str.replace(a, b) for single characters *)
Definition replace_char (a b : Z) (t : text) : text :=
  map (fun c => if c =? a then b else c) t.

(* str(z) for a Python int: decimal digits, '-' for negatives (stdlib decimal printer) *)
Fixpoint uint_text (u : Decimal.uint) : text :=
  match u with
  | Decimal.Nil => []
  | Decimal.D0 r => 48 :: uint_text r
  | Decimal.D1 r => 49 :: uint_text r
  | Decimal.D2 r => 50 :: uint_text r
  | Decimal.D3 r => 51 :: uint_text r
  | Decimal.D4 r => 52 :: uint_text r
  | Decimal.D5 r => 53 :: uint_text r
  | Decimal.D6 r => 54 :: uint_text r
  | Decimal.D7 r => 55 :: uint_text r
  | Decimal.D8 r => 56 :: uint_text r
  | Decimal.D9 r => 57 :: uint_text r
  end.

Definition str_Z (z : Z) : text :=
  match Z.to_int z with
  | Decimal.Pos u => uint_text u
  | Decimal.Neg u => 45 :: uint_text u
  end.

(* "True" / "False" *)
Definition str_bool (b : bool) : text :=
  if b then [84; 114; 117; 101] else [70; 97; 108; 115; 101].
