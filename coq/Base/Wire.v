(* Wire values: the only data that crosses the model/harness boundary.
   A case is one [wv] in, one [wv] out (s-expressions on the OCaml side). *)
From Coq Require Import ZArith List QArith.
Import ListNotations.
Open Scope Z_scope.

Inductive wv : Type :=
| WI (z : Z)
| WL (l : list wv).

Definition text := list Z.           (* a string = its code points *)

Definition wtext (t : text) : wv := WL (map WI t).
Definition wbool (b : bool) : wv := WI (if b then 1 else 0).
Definition wq (q : Q) : wv := WL [WI (Qnum q); WI (Zpos (Qden q))].
Definition wopt {A} (f : A -> wv) (o : option A) : wv :=
  match o with None => WL [] | Some a => WL [f a] end.

Definition un_int (v : wv) : option Z := match v with WI z => Some z | _ => None end.

Fixpoint un_ints (l : list wv) : option (list Z) :=
  match l with
  | [] => Some []
  | WI z :: r => match un_ints r with Some zs => Some (z :: zs) | None => None end
  | _ => None
  end.

Definition un_text (v : wv) : option text :=
  match v with WL l => un_ints l | _ => None end.

Definition un_bool (v : wv) : option bool :=
  match v with WI 0 => Some false | WI 1 => Some true | _ => None end.

Definition un_q (v : wv) : option Q :=
  match v with
  | WL [WI n; WI (Zpos d)] => Some (Qmake n d)
  | _ => None
  end.

(* result tags shared by all models *)
Definition wok (payload : list wv) : wv := WL (WI 0 :: payload).
Definition werr (kind : Z) : wv := WL [WI 1; WI kind].
Definition wbad : wv := WL [WI 2].        (* undecodable case: harness bug *)
