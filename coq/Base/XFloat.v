(* Python floats INCLUDING the IEEE specials, for the few places where the host actuator
   classes let a special value through a validation (known findings of C19).  A finite
   float is the exact rational it denotes (as everywhere else); comparisons follow IEEE 754 /
   Python: every ordered comparison with NaN is False.

   Wire form:  (0 (num den)) finite | (1) NaN | (2) +inf | (3) -inf.
   No proofs in this file (lemmas: Proofs/XFloatP.v). *)
From Coq Require Import ZArith QArith List Bool.
From RV Require Import Base.Wire Base.NumM.
Import ListNotations.
Open Scope Q_scope.

Inductive xfloat : Type :=
| XFin (q : Q)
| XNaN
| XPInf
| XNInf.

(* Python  a < b  on floats *)
Definition xlt (a b : xfloat) : bool :=
  match a, b with
  | XNaN, _ | _, XNaN => false
  | XFin x, XFin y => Qltb x y
  | XNInf, XNInf => false
  | XNInf, _ => true
  | _, XNInf => false
  | XPInf, _ => false
  | XFin _, XPInf => true
  end.

(* Python  a <= b  on floats *)
Definition xle (a b : xfloat) : bool :=
  match a, b with
  | XNaN, _ | _, XNaN => false
  | XFin x, XFin y => Qleb x y
  | XNInf, _ => true
  | _, XNInf => false
  | _, XPInf => true
  | XPInf, XFin _ => false
  end.

Definition xgt (a b : xfloat) : bool := xlt b a.
Definition xge (a b : xfloat) : bool := xle b a.

Definition xfinite (a : xfloat) : bool := match a with XFin _ => true | _ => false end.
Definition xnan (a : xfloat) : bool := match a with XNaN => true | _ => false end.

(* float(x) of a scalar argument; None = raises TypeError *)
Definition xof (x : pynum) : option xfloat :=
  match qof x with Some q => Some (XFin q) | None => None end.

Definition un_xfloat (v : wv) : option xfloat :=
  match v with
  | WL [WI 0%Z; q] => match un_q q with Some q' => Some (XFin q') | None => None end
  | WL [WI 1%Z] => Some XNaN
  | WL [WI 2%Z] => Some XPInf
  | WL [WI 3%Z] => Some XNInf
  | _ => None
  end.

Definition wxfloat (x : xfloat) : wv :=
  match x with
  | XFin q => WL [WI 0%Z; wq (Qred q)]
  | XNaN => WL [WI 1%Z]
  | XPInf => WL [WI 2%Z]
  | XNInf => WL [WI 3%Z]
  end.
