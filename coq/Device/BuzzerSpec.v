(* Specification vocabulary of property C16: what is read off a pin trace, and the reference
   shapes the theorems compare the device model with.  Definitions only. *)
From Coq Require Import ZArith QArith Qround List Bool.
From RV Require Import Base.Wire Base.Text Device.DBuzzer.
Import ListNotations.
Open Scope Z_scope.

(* ---- observations of a trace ---- *)
(* is the pin sounding after the trace, given whether it was sounding before *)
Fixpoint sounding_from (b : bool) (tr : list ev) : bool :=
  match tr with
  | [] => b
  | Tone _ _ :: r => sounding_from true r
  | NoTone _ :: r => sounding_from false r
  | Delay _ :: r => sounding_from b r
  end.
Definition sounding (tr : list ev) : bool := sounding_from false tr.

(* frequency argument of the last tone() call, if any *)
Fixpoint last_tone_from (o : option Z) (tr : list ev) : option Z :=
  match tr with
  | [] => o
  | Tone _ f :: r => last_tone_from (Some f) r
  | _ :: r => last_tone_from o r
  end.
Definition last_tone (tr : list ev) : option Z := last_tone_from None tr.

Definition tones (tr : list ev) : list Z :=
  flat_map (fun e => match e with Tone _ f => [f] | _ => [] end) tr.
Definition delays (tr : list ev) : list Z :=
  flat_map (fun e => match e with Delay d => [d] | _ => [] end) tr.
Definition zsum (l : list Z) : Z := fold_right Z.add 0 l.
Definition delay_sum (tr : list ev) : Z := zsum (delays tr).
Definition notones (tr : list ev) : nat :=
  length (filter (fun e => match e with NoTone _ => true | _ => false end) tr).
Definition on_pin (pin : Z) (e : ev) : Prop :=
  match e with Tone p _ => p = pin | NoTone p => p = pin | Delay _ => True end.

(* ---- reference shapes ---- *)
(* blocks separated by [sep] (between consecutive blocks only) *)
Fixpoint intercalate (sep : list ev) (blocks : list (list ev)) : list ev :=
  match blocks with
  | [] => []
  | [b] => b
  | b :: r => b ++ sep ++ intercalate sep r
  end.

(* one beep: tone, on-delay (if > 0), noTone *)
Definition beep_block (pin t on : Z) : list ev := [Tone pin t] ++ dl on ++ [NoTone pin].
(* what an iteration does when the target frequency is not positive *)
Definition mute_block (pin on : Z) : list ev := [NoTone pin] ++ dl on ++ [NoTone pin].

(* sweep: the interpolated (clamped) frequencies for i = 0 .. n-1 *)
Definition sweep_freqs (s e : Q) (n : Z) : list Q :=
  map (fun i => sweep_freq s e n (Z.of_nat i)) (seq 0 (Z.to_nat n)).
Definition positives (l : list Q) : list Q := filter (fun f => qlt q0 f) l.

(* melody: a score played at [beat_ms] milliseconds per beat, note by note *)
Definition note_events (pin : Z) (beat_ms : Q) (fb : Q * Q) : list ev :=
  let '(f, b) := fb in
  if qle f q0 then [NoTone pin] ++ qdelay (b * beat_ms)%Q
  else [Tone pin (tone_of f)] ++ qdelay (b * beat_ms)%Q ++ [NoTone pin].
Definition play_score (pin : Z) (beat_ms : Q) (seq : list (Q * Q)) : list ev :=
  flat_map (note_events pin beat_ms) seq.

(* ---- which calls "have a duration" ---- *)
Definition timed (o : op) : bool :=
  match o with
  | PlayTone _ (Some _) => true
  | PlayTone _ None => false
  | Stop => false
  | Beep _ _ _ _ => true
  | Sweep _ _ _ _ => true
  | Melody _ _ => true
  end.

(* the only condition left on a timed call: a melody must have a (non-empty) score in the table - a table
   property, true of every name the parser accepts (C16_accepted_melody_in_guard).  A beep needs no condition:
   it silences the pin after its loop whatever the count (the former finding F-C16-beep-zero-keeps-tone). *)
Definition silent_guard (tbl : list (text * score)) (o : op) : bool :=
  match o with
  | Melody name _ => match tlookup name tbl with Some (_, _ :: _) => true | _ => false end
  | _ => true
  end.

(* a call all of whose frequencies are <= 0 (a beep without frequency uses the last one, see theorem) *)
Definition nonpositive_call (o : op) : bool :=
  match o with
  | PlayTone f _ => qle f q0
  | Stop => true
  | Beep (Some f) _ _ _ => qle f q0
  | Beep None _ _ _ => false
  | Sweep s e _ _ => qle s q0 && qle e q0
  | Melody _ _ => false
  end.

(* ---- the relation between the three getters and the pin trace (C16_getters) ---- *)
Definition getters_ok (default : Q) (st : bz) (tr : list ev) : Prop :=
  get_state st = sounding tr /\
  (sounding tr = false -> get_frequency st = q0) /\
  (sounding tr = true ->
     (0 < get_frequency st)%Q /\ get_frequency st = get_last_frequency st /\
     last_tone tr = Some (tone_of (get_frequency st))) /\
  match last_tone tr with
  | Some t => (0 < get_last_frequency st)%Q /\ t = tone_of (get_last_frequency st)
  | None => get_last_frequency st = default
  end.

(* table well-formedness used by the melody theorems (checked on the generated table) *)
Definition score_ok (sc : score) : bool :=
  qlt q0 (fst sc) && match snd sc with [] => false | _ => true end.

Definition qeq_leibniz (a b : Q) : bool := (Qnum a =? Qnum b) && (Pos.eqb (Qden a) (Qden b)).
Fixpoint notes_eqb (a b : list (Q * Q)) : bool :=
  match a, b with
  | [], [] => true
  | (f, x) :: a', (g, y) :: b' => qeq_leibniz f g && qeq_leibniz x y && notes_eqb a' b'
  | _, _ => false
  end.
Definition score_opt_eqb (a b : option score) : bool :=
  match a, b with
  | None, None => true
  | Some (t, s), Some (u, r) => qeq_leibniz t u && notes_eqb s r
  | _, _ => false
  end.
Definition tables_agree_b (ta tb : list (text * score)) : bool :=
  forallb (fun k => score_opt_eqb (tlookup k ta) (tlookup k tb)) (map fst ta ++ map fst tb).
Definition same_names_b (a b : list text) : bool :=
  forallb (fun k => tmem k b) a && forallb (fun k => tmem k a) b.

(* ---- finer observations used by the second batch of theorems (C16_play_tone, C16_melody_notes,
   C16_beep_duration, C16_last_frequency_exact) ---- *)
(* the delay() arguments a score played at [beat_ms] ms per beat must produce, note by note *)
Definition note_delays (beat_ms : Q) (seq : list (Q * Q)) : list Z :=
  flat_map (fun fb => if qlt q0 (snd fb * beat_ms)%Q then [Qfloor (snd fb * beat_ms)%Q] else []) seq.
Definition beats_total (seq : list (Q * Q)) : Q := fold_right Qplus 0%Q (map snd seq).
Definition beats_nonneg (seq : list (Q * Q)) : bool := forallb (fun fb => qle q0 (snd fb)) seq.

(* the value get_last_frequency() must have after a call made in state [st]: the unrounded frequency of
   the last tone the call sounds; unchanged if it sounds none *)
Definition last_after (tbl : list (text * score)) (st : bz) (o : op) : Q :=
  match o with
  | PlayTone f _ => if qle qhalf f then f else b_last st
  | Stop => b_last st
  | Beep f _ _ times =>
      let target := clamph (match f with Some q => q | None => b_last st end) in
      if qlt q0 target && (1 <=? c_int times) then target else b_last st
  | Sweep s e _ steps =>
      last (positives (sweep_freqs (clamp0 s) (clamp0 e) (Z.max 0 (c_int steps)))) (b_last st)
  | Melody name _ =>
      match tlookup name tbl with
      | Some (_, seq) => last (positives (map fst seq)) (b_last st)
      | None => b_last st
      end
  end.

(* [nonpositive_call], with a beep that has no frequency argument judged by the last frequency *)
Definition nonpositive_in (last : Q) (o : op) : bool :=
  match o with
  | Beep None _ _ _ => qle last q0
  | Melody _ _ => false
  | _ => nonpositive_call o
  end.

(* ---- width of the tone() argument (unsigned int: 16 bits on AVR).  A call whose frequency arguments
   are all <= M, on a table whose notes are all <= M ---- *)
Definition freq_le (M : Q) (o : op) : bool :=
  match o with
  | PlayTone f _ => qle f M
  | Stop => true
  | Beep (Some f) _ _ _ => qle f M
  | Beep None _ _ _ => true
  | Sweep s e _ _ => qle s M && qle e M
  | Melody _ _ => true
  end.
Definition notes_le (M : Q) (seq : list (Q * Q)) : bool := forallb (fun fb => qle (fst fb) M) seq.
Definition table_le (M : Q) (tbl : list (text * score)) : bool :=
  forallb (fun kv => notes_le M (snd (snd kv))) tbl.
Definition tone_le (T : Z) (e : ev) : Prop :=
  match e with Tone _ t => 0 <= t <= T | _ => True end.

(* ---- tone(pin, 0).  A frequency below 1/2 would be rounded to tone(pin, 0); the firmware treats it as silence
   at every site that computes a frequency (play_tone, beep, each step of a sweep).  The notes of a melody come
   from the score table as they are, so the table must not hold a note in (0, 1/2) ([audible_arg]; checked on
   the generated table, C16_generated_melodies_in_half_guard) ---- *)
Definition audible_arg (f : Q) : bool := qle f q0 || qle qhalf f.
Definition half_guard (tbl : list (text * score)) (o : op) : bool :=
  match o with
  | Melody name _ =>
      match tlookup name tbl with
      | Some (_, seq) => forallb (fun fb => audible_arg (fst fb)) seq
      | None => true
      end
  | _ => true
  end.
Definition table_audible (tbl : list (text * score)) : bool :=
  forallb (fun kv => forallb (fun fb => audible_arg (fst fb)) (snd (snd kv))) tbl.

(* ---- "every sound is bounded": the time a call may spend in delay(), from its arguments alone.  A negative
   duration counts as zero ([c_ulong]) ---- *)
Definition qmax0 (d : Q) : Q := if qlt q0 d then d else 0%Q.
Definition duration_bound (tbl : list (text * score)) (o : op) : Q :=
  match o with
  | PlayTone _ (Some d) => qmax0 d
  | PlayTone _ None => 0
  | Stop => 0
  | Beep _ on off times =>
      let n := Z.max 0 (c_int times) in
      inject_Z (n * c_ulong on + Z.max 0 (n - 1) * c_ulong off)
  | Sweep _ _ d _ => qmax0 d
  | Melody name tempo =>
      match tlookup name tbl with
      | Some (t0, seq) => beats_total seq * (Qmake 60000 1 / eff_tempo t0 tempo)
      | None => 0
      end
  end%Q.

(* ---- calls that emit no code at all: a melody without (or with an empty) score ---- *)
Definition noop_call (tbl : list (text * score)) (o : op) : bool := timed o && negb (silent_guard tbl o).
