(* Device model of a Reduino Button in the generated firmware, and the small host
   Button model needed for the agreement theorem (C15).  Model only: no proofs here.

   Transcribed from
     emitter.py  globals     bool __redu_button_prev_<b> = false; bool __redu_button_value_<b> = false;
     emitter.py  setup pass over setup_body (ButtonDecl *before* the main loop):
                     pinMode(pin, INPUT_PULLUP);
                     __redu_button_prev_<b>  = (digitalRead(pin) == HIGH);
                     __redu_button_value_<b> = __redu_button_prev_<b>;
                 setup pass over loop_body (ButtonDecl at the top level of the main-loop body):
                     pinMode(pin, INPUT_PULLUP);
                     __redu_button_prev_<b>  = (digitalRead(pin) == HIGH);      -- the same setup sample
                     __redu_button_value_<b> = __redu_button_prev_<b>;
     emitter.py  ButtonPoll (parser.py puts one per button at the head of loop()):
                     bool next = (digitalRead(pin) == HIGH);
                     value = next;
                     if (next && !prev) { on_click(); }      -- only when on_click is given
                     prev  = next;
     parser.py   b.is_pressed()  ->  (__redu_button_value_<b> ? 1 : 0)
   Note the order inside the poll: [value] is updated *before* the handler runs (so an is_pressed()
   evaluated inside the handler sees the sample of this pass), the edge test uses the previous
   sample [prev], which is updated after the handler. *)
From Coq Require Import List Bool Arith.
Import ListNotations.

(* where the script declares the button *)
Inductive place := BeforeLoop | LoopTop.

Record bstate := { b_prev : bool; b_value : bool }.

Inductive bev :=
| BRead (v : bool)      (* one digitalRead of the button pin, result HIGH? *)
| BClick                (* the on_click handler is entered *)
| BPrintH (v : bool)    (* an is_pressed() evaluated inside the handler *)
| BPrint (v : bool).    (* an is_pressed() evaluated in the loop body, after the poll *)

(* the two globals *)
Definition b_globals : bstate := {| b_prev := false; b_value := false |}.

(* setup(): one sample, whichever of the two emitter passes (over setup_body / over loop_body) sees the declaration *)
Definition b_setup (pl : place) (s0 : bool) : bstate * list bev :=
  match pl with
  | BeforeLoop => ({| b_prev := s0; b_value := s0 |}, [BRead s0])
  | LoopTop => ({| b_prev := s0; b_value := s0 |}, [BRead s0])
  end.

Definition b_is_pressed (st : bstate) : bool := b_value st.

(* handler: None = no on_click; Some n = a handler that evaluates is_pressed() n times *)
Definition b_poll (h : option nat) (st : bstate) (next : bool) : bstate * list bev :=
  let st1 := {| b_prev := b_prev st; b_value := next |} in          (* value = next; *)
  let fire :=
    match h with
    | Some n => if next && negb (b_prev st1)                         (* if (next && !prev) on_click(); *)
                then BClick :: repeat (BPrintH (b_is_pressed st1)) n
                else []
    | None => []
    end in
  ({| b_prev := next; b_value := b_value st1 |}, BRead next :: fire).   (* prev = next; *)

(* one loop() pass: the poll, then [calls] evaluations of is_pressed() in the body *)
Definition b_pass (h : option nat) (st : bstate) (p : bool * nat) : bstate * list bev :=
  let st' := fst (b_poll h st (fst p)) in
  (st', snd (b_poll h st (fst p)) ++ repeat (BPrint (b_is_pressed st')) (snd p)).

(* all passes; one event list per pass *)
Fixpoint b_run (h : option nat) (st : bstate) (ps : list (bool * nat)) : list (list bev) :=
  match ps with
  | [] => []
  | p :: r => snd (b_pass h st p) :: b_run h (fst (b_pass h st p)) r
  end.

(* the firmware from power-up: setup sample s0, then the passes *)
Definition dev_run (pl : place) (h : option nat) (s0 : bool) (ps : list (bool * nat)) : list (list bev) :=
  b_run h (fst (b_setup pl s0)) ps.

(* ---- observations on a pass *)
Definition is_click (e : bev) : bool := match e with BClick => true | _ => false end.
Definition is_read (e : bev) : bool := match e with BRead _ => true | _ => false end.
Definition clicks (evs : list bev) : nat := length (filter is_click evs).
Definition reads (evs : list bev) : list bool :=
  flat_map (fun e => match e with BRead v => [v] | _ => [] end) evs.
Definition body_values (evs : list bev) : list bool :=
  flat_map (fun e => match e with BPrint v => [v] | _ => [] end) evs.
Definition handler_values (evs : list bev) : list bool :=
  flat_map (fun e => match e with BPrintH v => [v] | _ => [] end) evs.

(* ---- the specification side: rising edges of a sampled signal *)
Fixpoint edges (prev : bool) (s : list bool) : list bool :=
  match s with
  | [] => []
  | x :: r => (x && negb prev) :: edges x r
  end.

Definition b2n (b : bool) : nat := if b then 1 else 0.

Definition hcalls (h : option nat) : nat := match h with Some n => n | None => 0 end.

(* ---- host Button (Sensors/Button.py), with a state provider:
     pressed = bool(provider()); if pressed and not was and on_click: on_click()
     was = pressed; return 1 if pressed else 0 *)
Definition h_is_pressed (cb : bool) (was : bool) (provided : bool) : bool * (bool * bool) :=
  (provided, (cb && (provided && negb was), provided)).   (* new _was_pressed, (clicked, result) *)

(* host driven with one is_pressed() per sample; per call (clicked, result) *)
Fixpoint h_run (cb : bool) (was : bool) (s : list bool) : list (bool * bool) :=
  match s with
  | [] => []
  | x :: r => snd (h_is_pressed cb was x) :: h_run cb (fst (h_is_pressed cb was x)) r
  end.

Definition host_run (cb : bool) (s : list bool) : list (bool * bool) := h_run cb false s.
