(* Device model of the passive-buzzer firmware, written line by line from the five emitter
   branches of /repo/src/Reduino/transpile/emitter.py (BuzzerPlayTone, BuzzerStop, BuzzerBeep,
   BuzzerSweep, BuzzerMelody) and the BuzzerDecl globals.  Model only: no proofs here.

   C++ float values are exact rationals Q (DESIGN.md section 1).  Events are the calls the
   firmware makes on the buzzer pin: tone(pin, f), noTone(pin), delay(ms). *)
From Coq Require Import ZArith QArith Qround List Bool.
From RV Require Import Base.Wire Base.Text.
Import ListNotations.
Open Scope Z_scope.

Inductive ev : Type :=
| Tone (pin f : Z)        (* tone(pin, f) - untimed form, the only one the emitter uses *)
| NoTone (pin : Z)        (* noTone(pin) *)
| Delay (ms : Z).         (* delay(ms) *)

(* bool __buzzer_state_<n>; float __buzzer_current_<n>; float __buzzer_last_<n>; *)
Record bz : Type := mkbz { b_state : bool; b_current : Q; b_last : Q }.

Definition q0 : Q := Qmake 0 1.
Definition qhalf : Q := Qmake 1 2.

(* BuzzerDecl: state = false; current = 0.0f; last = static_cast<float>(default_frequency) *)
Definition init (default_frequency : Q) : bz := mkbz false q0 default_frequency.

Definition qlt (a b : Q) : bool := negb (Qle_bool b a).      (* a < b *)
Definition qle (a b : Q) : bool := Qle_bool a b.             (* a <= b *)

(* if (x < 0.0f) { x = 0.0f; }   (the two ends of a sweep) *)
Definition clamp0 (q : Q) : Q := if qlt q q0 then q0 else q.

(* if (x < 0.5f) { x = 0.0f; }   (every frequency that reaches a tone() site: a frequency that
   static_cast<unsigned int>(x + 0.5f) would turn into tone(pin, 0) counts as silence) *)
Definition clamph (q : Q) : Q := if qlt q qhalf then q0 else q.

(* static_cast<int>(x): truncation toward zero (also Python's int() applied to a literal) *)
Definition c_int (q : Q) : Z := Z.quot (Qnum q) (Zpos (Qden q)).

(* _emit_duration_ms: a duration in milliseconds as unsigned long, a negative duration counting as zero.
     - a literal d:            static_cast<unsigned long>(max(d, 0))        (clamped by the emitter)
     - a run-time expression:  auto a = (expr);  (a > 0) ? static_cast<unsigned long>(a) : 0UL
   Both are floor(x) for x > 0 and 0 otherwise; the cast never sees a negative value. *)
Definition c_ulong (q : Q) : Z := if qlt q0 q then Qfloor q else 0.

(* static_cast<unsigned int>(f + 0.5f); only ever evaluated for f > 0 *)
Definition tone_of (f : Q) : Z := Qfloor (f + qhalf).

(* if (ms > 0UL) { delay(ms); } *)
Definition dl (ms : Z) : list ev := if 0 <? ms then [Delay ms] else [].

(* tone(pin, round(f)); state = true; current = f; last = f; *)
Definition start_tone (pin : Z) (f : Q) (st : bz) : bz * list ev :=
  (mkbz true f f, [Tone pin (tone_of f)]).

(* state = false; current = 0.0f;   (last untouched) *)
Definition quiet (st : bz) : bz := mkbz false q0 (b_last st).

(* noTone(pin); state = false; current = 0.0f; *)
Definition silence (pin : Z) (st : bz) : bz * list ev := (quiet st, [NoTone pin]).

(* if (f > 0.0f) { tone... } else { noTone... } *)
Definition sound (pin : Z) (f : Q) (st : bz) : bz * list ev :=
  if qlt q0 f then start_tone pin f st else silence pin st.

(* ---- BuzzerPlayTone ---- *)
Definition play_tone (pin : Z) (fq : Q) (d : option Q) (st : bz) : bz * list ev :=
  let f := clamph fq in
  let '(st1, e1) := if qle f q0 then silence pin st else start_tone pin f st in
  match d with
  | None => (st1, e1)                       (* duration_ms is None: nothing more is emitted *)
  | Some dq =>
      let du := c_ulong dq in
      (quiet st1, e1 ++ dl du ++ (if qlt q0 f then [NoTone pin] else []))
  end.

(* ---- BuzzerStop ---- *)
Definition stop (pin : Z) (st : bz) : bz * list ev := silence pin st.

(* ---- BuzzerBeep: for (i = 0; i < times; ++i); k = times - i iterations remain ---- *)
Fixpoint beep_loop (pin : Z) (target : Q) (on off : Z) (k : nat) (st : bz) : bz * list ev :=
  match k with
  | O => (st, [])
  | S k' =>
      let '(st1, e1) := sound pin target st in
      let st2 := quiet st1 in
      (* delay(on) if on > 0; noTone; state=false; current=0; if ((i+1) < times && off > 0) delay(off) *)
      let e2 := dl on ++ [NoTone pin] ++ (match k' with O => [] | S _ => dl off end) in
      let '(st3, e3) := beep_loop pin target on off k' st2 in
      (st3, e1 ++ e2 ++ e3)
  end.

Definition beep (pin : Z) (f : option Q) (on off times : Q) (st : bz) : bz * list ev :=
  (* frequency given: static_cast<float>(freq); else the last frequency *)
  let target := clamph (match f with Some q => q | None => b_last st end) in
  let n := Z.max 0 (c_int times) in                 (* if (times < 0) times = 0 *)
  let '(st1, e1) := beep_loop pin target (c_ulong on) (c_ulong off) (Z.to_nat n) st in
  (* after the loop, whatever the count: noTone(pin); state = false; current = 0.0f; *)
  (quiet st1, e1 ++ [NoTone pin]).

(* ---- BuzzerSweep ---- *)
(* progress = (steps == 1) ? 1 : i / (steps - 1);  freq = start + (end - start) * progress;
   if (freq < 0.5f) freq = 0.0f *)
Definition sweep_freq (s e : Q) (steps i : Z) : Q :=
  let progress := if steps =? 1 then Qmake 1 1 else (inject_Z i / (inject_Z steps - Qmake 1 1))%Q in
  clamph (s + (e - s) * progress)%Q.

(* melody: if (duration > 0.0f) delay(static_cast<unsigned long>(duration)) - a delay(0) is emitted
   when 0 < duration < 1 *)
Definition qdelay (d : Q) : list ev := if qlt q0 d then [Delay (Qfloor d)] else [].

(* per step: tone or noTone; if (step_delay > 0UL) delay(step_delay) *)
Fixpoint sweep_loop (pin : Z) (s e : Q) (steps : Z) (step_delay : Z) (k : nat) (i : Z) (st : bz)
  : bz * list ev :=
  match k with
  | O => (st, [])
  | S k' =>
      let '(st1, e1) := sound pin (sweep_freq s e steps i) st in
      let '(st2, e3) := sweep_loop pin s e steps step_delay k' (i + 1) st1 in
      (st2, e1 ++ dl step_delay ++ e3)
  end.

(* step_delay = (steps > 0) ? (total / (unsigned long)steps) : 0UL *)
Definition step_delay_of (total steps : Z) : Z := if 0 <? steps then total / steps else 0.

Definition sweep (pin : Z) (sq eq dq stepsq : Q) (st : bz) : bz * list ev :=
  let s := clamp0 sq in
  let e := clamp0 eq in
  let total := c_ulong dq in
  let steps := Z.max 0 (c_int stepsq) in            (* if (steps < 0) steps = 0: no step, no tone *)
  let step_delay := step_delay_of total steps in    (* unsigned long division, guarded against steps = 0 *)
  let '(st1, e1) := sweep_loop pin s e steps step_delay (Z.to_nat steps) 0 st in
  (quiet st1, e1 ++ [NoTone pin]).

(* ---- BuzzerMelody ---- *)
Definition score : Type := (Q * list (Q * Q))%type.      (* default tempo, [(frequency, beats)] *)

Fixpoint melody_loop (pin : Z) (beat_ms : Q) (seq : list (Q * Q)) (st : bz) : bz * list ev :=
  match seq with
  | [] => (st, [])
  | (f, b) :: r =>
      let dur := (b * beat_ms)%Q in
      let '(st1, e1) :=
        if qle f q0
        then (quiet st, [NoTone pin] ++ qdelay dur)                 (* rest: noTone; delay; continue *)
        else (quiet (fst (start_tone pin f st)),
              snd (start_tone pin f st) ++ qdelay dur ++ [NoTone pin]) in
      let '(st2, e2) := melody_loop pin beat_ms r st1 in
      (st2, e1 ++ e2)
  end.

(* tempo = given or default; if (tempo <= 0) tempo = default; beat_ms = 60000 / tempo *)
Definition eff_tempo (t0 : Q) (tempo : option Q) : Q :=
  let t := match tempo with Some q => q | None => t0 end in
  if qle t q0 then t0 else t.

Definition melody (pin : Z) (tbl : list (text * score)) (name : text) (tempo : option Q) (st : bz)
  : bz * list ev :=
  match tlookup name tbl with
  | None => (st, [])                         (* melody_data is None: `continue`, no code at all *)
  | Some (t0, seq) => melody_loop pin (Qmake 60000 1 / eff_tempo t0 tempo)%Q seq st
  end.

(* ---- one IR node = one step ---- *)
Inductive op : Type :=
| PlayTone (f : Q) (d : option Q)
| Stop
| Beep (f : option Q) (on off times : Q)
| Sweep (s e d steps : Q)
| Melody (name : text) (tempo : option Q).

Section Device.
  Variable pin : Z.
  Variable tbl : list (text * score).

  Definition dstep (st : bz) (o : op) : bz * list ev :=
    match o with
    | PlayTone f d => play_tone pin f d st
    | Stop => stop pin st
    | Beep f on off times => beep pin f on off times st
    | Sweep s e d steps => sweep pin s e d steps st
    | Melody name tempo => melody pin tbl name tempo st
    end.

  (* a call sequence: final state and the whole pin trace *)
  Fixpoint run (st : bz) (ops : list op) : bz * list ev :=
    match ops with
    | [] => (st, [])
    | o :: r =>
        let '(st1, e1) := dstep st o in
        let '(st2, e2) := run st1 r in
        (st2, e1 ++ e2)
    end.
End Device.

(* getters: the parser turns them into reads of the three globals *)
Definition get_state (st : bz) : bool := b_state st.
Definition get_frequency (st : bz) : Q := b_current st.
Definition get_last_frequency (st : bz) : Q := b_last st.

(* ---- parser side: melody(name) is accepted iff name.lower() is in the parser's name set ---- *)
Definition lower_cp (c : Z) : Z := if (65 <=? c) && (c <=? 90) then c + 32 else c.   (* ASCII only *)
Definition parser_melody (names : list text) (name : text) : option text :=
  let l := map lower_cp name in if tmem l names then Some l else None.
