(* Firmware-side LCD: model of the C++ that /repo/src/Reduino/transpile/emitter.py emits
   for the LCD nodes (LCDDecl, LCDWrite, LCDLine, LCDMessage, LCDClear, LCDProgress,
   LCDDisplay, LCDBacklight, LCDBrightness, LCDGlyph) and of the three helper templates
   of LCD_HELPER_SNIPPET (__redu_lcd_clear_row, __redu_lcd_write_aligned,
   __redu_lcd_progress), transcribed statement by statement, running on the display as
   the mock libraries (mock/LiquidCrystal.h, mock/LiquidCrystal_I2C.h, mock_core.cpp)
   implement it: a 128-byte DDRAM, an auto-incrementing address counter with the HD44780
   wrap (0x27 -> 0x40, 0x67 -> 0x00), setCursor = row offset + column after the
   respective library's row clamp.  Every primitive logs the event line the mock prints
   (newest first in [d_log]).  C int is Z (no overflow: all magnitudes here are < 2^15).
   Definitions only. *)
From Coq Require Import ZArith List Bool.
From RV Require Import Base.LcdBase.
Import ListNotations.
Open Scope Z_scope.

Inductive dev_ev : Type :=
| EvB (cols rows : Z)              (* LB id kind cols rows   (begin / init) *)
| EvCLR                            (* LCLR id *)
| EvSC (col row : Z)               (* LSC id col row *)
| EvW (row col ch : Z)             (* LW id row col ch; row = -1: outside the visible matrix, col = address *)
| EvCG (loc : Z) (rows : list Z)   (* LCG id loc b0..b7 *)
| EvDISP (on : bool)               (* LDISP id 0|1 *)
| EvBL (on : bool)                 (* LBL id 0|1  (I2C backpack backlight) *)
| EvPM (pin mode : Z)              (* PM pin mode *)
| EvAW (pin v : Z).                (* AW pin value *)

Record dlcd : Type := {
  d_g : geom;
  d_addr : Z;                 (* address counter *)
  d_cg : bool;                (* controller is in CGRAM mode (after createChar) *)
  d_ram : Z -> Z;             (* DDRAM, addresses 0..127 *)
  d_bright : Z;               (* __redu_lcd_brightness_<n> *)
  d_blstate : bool;           (* __redu_lcd_backlight_state_<n> *)
  d_log : list dev_ev         (* events, newest first *)
}.

Definition d_cols (d : dlcd) : Z := g_cols (d_g d).
Definition d_rows (d : dlcd) : Z := g_rows (d_g d).

Definition u8 (x : Z) : Z := x mod 256.

(* row_offsets[] as the library's begin()/constructor leaves them *)
Definition row_off (g : geom) (r : Z) : Z :=
  if r =? 0 then 0
  else if r =? 1 then 64
  else if r =? 2 then (if g_i2c g then 20 else g_cols g)
  else (if g_i2c g then 84 else 64 + g_cols g).

(* LiquidCrystal::setCursor clamps with >=, LiquidCrystal_I2C::setCursor with > (sic) *)
Definition clamp_row (g : geom) (row : Z) : Z :=
  if g_i2c g then
    let row := if row >? g_rows g then g_rows g - 1 else row in
    if row <? 0 then 0 else if row >? 3 then 3 else row
  else
    let row := if row >=? 4 then 3 else row in
    let row := if row >=? g_rows g then g_rows g - 1 else row in
    if row <? 0 then 0 else row.

Definition log (d : dlcd) (e : dev_ev) : dlcd :=
  {| d_g := d_g d; d_addr := d_addr d; d_cg := d_cg d; d_ram := d_ram d;
     d_bright := d_bright d; d_blstate := d_blstate d; d_log := e :: d_log d |}.

(* lcd.setCursor(col, row): both parameters are uint8_t *)
Definition set_cursor (d : dlcd) (col row : Z) : dlcd :=
  let c := u8 col in
  let r := u8 row in
  let rr := clamp_row (d_g d) r in
  {| d_g := d_g d; d_addr := (c + row_off (d_g d) (Z.land rr 3)) mod 128; d_cg := false;
     d_ram := d_ram d; d_bright := d_bright d; d_blstate := d_blstate d;
     d_log := EvSC c r :: d_log d |}.

(* which visible cell an address belongs to: first row (of at most 4) that contains it *)
Definition in_row_b (g : geom) (r a : Z) : bool :=
  (r <? g_rows g) && (row_off g r <=? a) && (a <? row_off g r + g_cols g).
Definition locate (g : geom) (a : Z) : Z * Z :=
  if in_row_b g 0 a then (0, a - row_off g 0)
  else if in_row_b g 1 a then (1, a - row_off g 1)
  else if in_row_b g 2 a then (2, a - row_off g 2)
  else if in_row_b g 3 a then (3, a - row_off g 3)
  else (-1, a).

Definition next_addr (a : Z) : Z :=
  if a =? 39 then 64 else if a =? 103 then 0 else (a + 1) mod 128.

(* one data byte (__MockLcdBase::write) *)
Definition write1 (d : dlcd) (c : Z) : dlcd :=
  if d_cg d then d       (* goes to CGRAM; no DDRAM change, no LW event *)
  else
    let a := d_addr d in
    let '(rr, cc) := locate (d_g d) a in
    {| d_g := d_g d; d_addr := next_addr a; d_cg := false;
       d_ram := (fun x => if x =? a then c else d_ram d x);
       d_bright := d_bright d; d_blstate := d_blstate d;
       d_log := EvW rr cc c :: d_log d |}.

(* lcd.print(String) *)
Fixpoint print (d : dlcd) (t : list Z) : dlcd :=
  match t with
  | [] => d
  | c :: r => print (write1 d c) r
  end.

(* lcd.clear() *)
Definition lcd_clear (d : dlcd) : dlcd :=
  {| d_g := d_g d; d_addr := 0; d_cg := false; d_ram := (fun _ => SP);
     d_bright := d_bright d; d_blstate := d_blstate d; d_log := EvCLR :: d_log d |}.

(* ---------- the helper templates ---------- *)

(* __redu_lcd_clear_row(lcd, cols, row) *)
Definition clear_row (d : dlcd) (cols row : Z) : dlcd :=
  if cols <=? 0 then d else
  print (set_cursor d 0 row) (zrepeat SP cols).   (* for (i = 0; i < cols; ++i) lcd.print(' ') *)

(* the offset computation of __redu_lcd_write_aligned after truncation *)
Definition dev_offset (cols col available len align : Z) : Z :=
  let offset := col in
  let room := available - len in
  let room := if room <? 0 then 0 else room in
  let offset := if align =? 1 then col + Z.quot room 2
                else if align =? 2 then col + room
                else offset in
  if offset + len >? cols then
    let offset := cols - len in
    if offset <? col then col else offset
  else offset.

(* __redu_lcd_write_aligned(lcd, cols, col, row, text, clear_row, align) *)
Definition write_aligned (d : dlcd) (cols col row : Z) (text : list Z) (clear : bool) (align : Z) : dlcd :=
  if cols <=? 0 then d else
  let col := if col <? 0 then 0 else col in
  if col >=? cols then d else
  let d := if clear then clear_row d cols row else d in
  let available := cols - col in
  if available <=? 0 then d else
  let content := if zlen text >? available then ztake available text else text in
  let offset := dev_offset cols col available (zlen content) align in
  print (set_cursor d offset row) content.

(* the normalisations and the division of __redu_lcd_progress *)
Definition dwidth (cols : Z) (width : option Z) : Z :=
  let w := match width with None => cols | Some w => w end in    (* emitter: cols_var when width is None *)
  let w := if w >? cols then cols else w in                      (* if (width > cols) width = cols; *)
  if w <? 1 then 1 else w.                                       (* if (width < 1) width = 1; *)
Definition dfilled (value maxv width : Z) : Z :=
  let value := if maxv <=? 0 then 0 else value in                (* if (max_value <= 0) { value = 0; *)
  let maxv := if maxv <=? 0 then 1 else maxv in                  (*                      max_value = 1; } *)
  let value := if value <? 0 then 0 else value in
  let value := if value >? maxv then maxv else value in
  let filled := Z.quot (value * width) maxv in
  let filled := if filled <? 0 then 0 else filled in
  if filled >? width then width else filled.

(* __redu_lcd_progress(lcd, cols, row, value, max_value, width, fill, label) *)
Definition dev_progress_text (cols value maxv : Z) (width : option Z) (style : Z) (label : list Z) : list Z :=
  let w := dwidth cols width in
  let filled := dfilled value maxv w in
  let bar := map (fun i => if i <? filled then dev_glyph style else SP) (zseq w) in
  let text := match label with [] => bar | _ => label ++ [SP] ++ bar end in
  if zlen text >? cols then ztake cols text else text.
Definition progress (d : dlcd) (cols row value maxv : Z) (width : option Z) (style : Z) (label : list Z) : dlcd :=
  if cols <=? 0 then d else
  let text := dev_progress_text cols value maxv width style label in
  print (set_cursor (clear_row d cols row) 0 row) text.

(* ---------- per-node code of the emitter ---------- *)

(* setup(): parallel  begin(cols, rows); [pinMode(bl, OUTPUT); analogWrite(bl, brightness);] clear()
            I2C       init(); backlight(); clear()            globals: brightness = 255, state = true *)
Definition dinit (g : geom) : dlcd :=
  let d0 := {| d_g := g; d_addr := 0; d_cg := false; d_ram := (fun _ => SP);
               d_bright := 255; d_blstate := true; d_log := [EvB (g_cols g) (g_rows g)] |} in
  let d1 := if g_i2c g then log d0 (EvBL true)
            else match g_blpin g with
                 | Some p => log (log d0 (EvPM p 1)) (EvAW p 255)
                 | None => d0
                 end in
  lcd_clear d1.

Definition set_bl (d : dlcd) (bright : Z) (state : bool) : dlcd :=
  {| d_g := d_g d; d_addr := d_addr d; d_cg := d_cg d; d_ram := d_ram d;
     d_bright := bright; d_blstate := state; d_log := d_log d |}.

(* the backlight part shared by LCDDisplay and LCDBacklight *)
Definition bl_switch (d : dlcd) (on : bool) : dlcd :=
  if g_i2c (d_g d) then log d (EvBL on)
  else match g_blpin (d_g d) with
       | Some p => log (set_bl d (d_bright d) on) (EvAW p (if on then d_bright d else 0))
       | None => d
       end.

Definition dev_display (d : dlcd) (on : bool) : dlcd := bl_switch (log d (EvDISP on)) on.
Definition dev_backlight (d : dlcd) (on : bool) : dlcd := bl_switch d on.

(* LCDBrightness: emitted whenever a backlight pin was declared (also on I2C) *)
Definition dev_brightness (d : dlcd) (level : Z) : dlcd :=
  match g_blpin (d_g d) with
  | None => d
  | Some p =>
      let b := level in
      let b := if b <? 0 then 0 else b in
      let b := if b >? 255 then 255 else b in
      let d1 := set_bl d b (d_blstate d) in
      if d_blstate d then log d1 (EvAW p b) else d1
  end.

(* LCDGlyph: uint8_t arr[8] = {v & 0x1F ...}; lcd.createChar((uint8_t)slot, arr) *)
Definition dev_glyph_rows (bitmap : list Z) : list Z := map (fun v => Z.land v 31) bitmap.
Definition create_char (d : dlcd) (loc : Z) (rows : list Z) : dlcd :=
  {| d_g := d_g d; d_addr := d_addr d; d_cg := true; d_ram := d_ram d;
     d_bright := d_bright d; d_blstate := d_blstate d;
     d_log := EvCG (Z.land (u8 loc) 7) rows :: d_log d |}.

(* the bytes of the C string literal String("..."): the transpiler copies the Python text into
   the sketch, the sketch is UTF-8, and Arduino's String counts, cuts and prints bytes *)
Definition utf8_char (c : Z) : list Z :=
  if c <? 128 then [c]
  else if c <? 2048 then [192 + c / 64; 128 + c mod 64]
  else if c <? 65536 then [224 + c / 4096; 128 + (c / 64) mod 64; 128 + c mod 64]
  else [240 + c / 262144; 128 + (c / 4096) mod 64; 128 + (c / 64) mod 64; 128 + c mod 64].
Definition utf8 (t : list Z) : list Z := flat_map utf8_char t.

(* None = the transpiler rejects the call (ValueError at parse/emit time) *)
Definition dstep (d : dlcd) (op : lop) : option dlcd :=
  let cols := d_cols d in
  match op with
  | OWrite col row text clear align =>
      if align_ok align then Some (write_aligned d cols col row (utf8 text) clear align) else None
  | OLine row text align clear =>
      if align_ok align then Some (write_aligned d cols 0 row (utf8 text) clear align) else None
  | OMessage top bottom ta ba clear =>
      if align_ok ta && align_ok ba then
        let d1 := match option_map utf8 top with Some t => write_aligned d cols 0 0 t clear ta | None => d end in
        (* bottom: if (rows_var > 1) { __redu_lcd_write_aligned(..., 0, 1, ...); } *)
        Some (match option_map utf8 bottom with
              | Some b => if d_rows d >? 1 then write_aligned d1 cols 0 1 b clear ba else d1
              | None => d1
              end)
      else None
  | OClear => Some (lcd_clear d)
  | OProgress row value maxv width style label =>
      if style_ok style then Some (progress d cols row value maxv width style (utf8 label)) else None
  | ODisplay on => Some (dev_display d on)
  | OBacklight on => Some (dev_backlight d on)
  | OBrightness level => Some (dev_brightness d level)
  | OGlyph slot bitmap =>
      if zlen bitmap =? 8 then Some (create_char d slot (dev_glyph_rows bitmap)) else None
  end.

(* rejected calls never reach the firmware: the history skips them *)
Definition dstep' (d : dlcd) (op : lop) : dlcd :=
  match dstep d op with Some d' => d' | None => d end.
Fixpoint drun (d : dlcd) (ops : list lop) : dlcd :=
  match ops with
  | [] => d
  | op :: r => drun (dstep' d op) r
  end.

(* ---------- what the user sees: the visible cell matrix (mock __dump) ---------- *)
Definition dcell (d : dlcd) (r c : Z) : Z := d_ram d ((row_off (d_g d) r + c) mod 128).
Definition cells (d : dlcd) : list (list Z) :=
  map (fun r => map (fun c => dcell d r c) (zseq (d_cols d))) (zseq (Z.min (d_rows d) 4)).

(* level of the backlight pin = value of the newest analogWrite on it *)
Fixpoint last_aw (p : Z) (l : list dev_ev) : option Z :=
  match l with
  | [] => None
  | EvAW q v :: r => if q =? p then Some v else last_aw p r
  | _ :: r => last_aw p r
  end.
(* newest backpack backlight command *)
Fixpoint last_bl (l : list dev_ev) : option bool :=
  match l with
  | [] => None
  | EvBL b :: _ => Some b
  | _ :: r => last_bl r
  end.
