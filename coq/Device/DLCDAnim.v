(* Device model of the LCD animation runtime the emitter prints
   (/repo/src/Reduino/transpile/emitter.py: __redu_lcd_clear_row 261-270,
   struct __redu_lcd_animation_state 322-346, the four __redu_lcd_start_* / __redu_lcd_tick_*
   templates 348-664, LCDAnimate / LCDTick emission 1528-1563, tick injection parser.py 4366-4371).
   Model only: no proofs here (coq/Proofs/LCDAnimP.v).

   [millis()] is the argument [now].  C [int] / [unsigned long] values are [Z]; the unsigned
   subtraction [now - last_step] is exact because tick times are non-decreasing in every
   statement that depends on it - no longer taken for granted: Device/DLCDAnimW.v computes the
   limiter modulo 2^W and C18_width_model_agrees_device proves that it is this model for every
   history below 2^W (C18_rollover_trace_device_partial: and beyond, under a guard).  String = list of bytes (ASCII texts: bytes = code points).
   The LCD is cursor addressed: [setCursor(col,row)] followed by [print(s)] writes the cells
   (row, col), (row, col+1), ...; each is the event [DW row col ch].  [DDelay] stands for a call
   of delay()/delayMicroseconds(): the templates contain none. *)
From Coq Require Import ZArith List Bool.
From RV Require Import Host.LCDAnim.   (* style, zlen, spaces, zrange, set_nth *)
Import ListNotations.
Open Scope Z_scope.

Inductive dev := DW (r c ch : Z) | DDelay (ms : Z).

Record dstate := mkD {
  d_text : list Z; d_row : Z; d_speed : Z; d_loop : bool; d_last : Z;
  d_offset : Z; d_dir : Z; d_visible : Z; d_active : bool; d_show : bool; d_cycles : Z }.

Definition dset_last s v := mkD (d_text s) (d_row s) (d_speed s) (d_loop s) v (d_offset s) (d_dir s) (d_visible s) (d_active s) (d_show s) (d_cycles s).
Definition dset_offset s v := mkD (d_text s) (d_row s) (d_speed s) (d_loop s) (d_last s) v (d_dir s) (d_visible s) (d_active s) (d_show s) (d_cycles s).
Definition dset_dir s v := mkD (d_text s) (d_row s) (d_speed s) (d_loop s) (d_last s) (d_offset s) v (d_visible s) (d_active s) (d_show s) (d_cycles s).
Definition dset_visible s v := mkD (d_text s) (d_row s) (d_speed s) (d_loop s) (d_last s) (d_offset s) (d_dir s) v (d_active s) (d_show s) (d_cycles s).
Definition dset_active s v := mkD (d_text s) (d_row s) (d_speed s) (d_loop s) (d_last s) (d_offset s) (d_dir s) (d_visible s) v (d_show s) (d_cycles s).
Definition dset_show s v := mkD (d_text s) (d_row s) (d_speed s) (d_loop s) (d_last s) (d_offset s) (d_dir s) (d_visible s) (d_active s) v (d_cycles s).
Definition dset_cycles s v := mkD (d_text s) (d_row s) (d_speed s) (d_loop s) (d_last s) (d_offset s) (d_dir s) (d_visible s) (d_active s) (d_show s) v.

(* lcd.setCursor(col, row); lcd.print(s) *)
Fixpoint print_at (row col : Z) (s : list Z) : list dev :=
  match s with
  | [] => []
  | ch :: rest => DW row col ch :: print_at row (col + 1) rest
  end.

(* __redu_lcd_clear_row *)
Definition clear_row (cols row : Z) : list dev :=
  if cols <=? 0 then [] else print_at row 0 (spaces cols).

(* if (s.length() > n) s = s.substring(0, n); *)
Definition trunc (n : Z) (s : list Z) : list Z :=
  if zlen s >? n then firstn (Z.to_nat n) s else s.

(* the common field initialisation of the four start helpers *)
Definition dinit (row : Z) (text : list Z) (speed : Z) (loop : bool) (visible : Z) (show : bool) : dstate :=
  mkD text row speed loop 0 0 1 visible true show 0.

Definition dstart (sty : style) (cols row : Z) (text : list Z) (speed : Z) (loop : bool) : dstate * list dev :=
  match sty with
  | Scroll =>
      (dinit row text speed loop 0 true,
       clear_row cols row ++ print_at row 0 (trunc cols text))
  | Blink =>
      (dinit row text speed loop (zlen text) true,
       clear_row cols row ++ print_at row 0 (trunc cols text))
  | Typewriter =>
      let visible := if zlen text >? 0 then 1 else 0 in
      (dinit row text speed loop visible true,
       clear_row cols row ++
       (if visible >? 0 then print_at row 0 (trunc cols (firstn (Z.to_nat visible) text)) else []))
  | Bounce =>
      (dinit row text speed loop (zlen text) false,
       clear_row cols row ++ print_at row 0 (trunc cols text))
  end.

(* if (!state.active) return; now = millis();
   if (speed_ms > 0 && last_step > 0) { elapsed = now - last_step; if (elapsed < speed_ms) return; }
   -- identical text in all four tick helpers.  true = this tick performs a step *)
Definition dgate (st : dstate) (now : Z) : bool :=
  d_active st &&
  negb ((0 <? d_speed st) && (0 <? d_last st) && (now - d_last st <? d_speed st)).

Definition dbody_scroll (cols : Z) (st : dstate) : dstate * list dev :=
  let padded0 := d_text st in
  let padded1 := if zlen padded0 <? cols then padded0 ++ spaces (cols - zlen padded0) else padded0 in
  let padded := padded1 ++ spaces cols in
  let plen := zlen padded in
  if plen =? 0 then (st, []) else
  let st := if d_offset st >=? plen then dset_offset st 0 else st in
  let start := d_offset st in
  let window :=
    map (fun i => let index := if i >=? plen then i - plen else i in nth (Z.to_nat index) padded 0)
        (zrange start cols) in
  let evs := clear_row cols (d_row st) ++ print_at (d_row st) 0 window in
  let st := dset_offset st (d_offset st + 1) in
  if d_offset st >=? plen then
    (if d_loop st then dset_offset st 0 else dset_active st false, evs)
  else (st, evs).

Definition dbody_blink (cols : Z) (st : dstate) : dstate * list dev :=
  let st := dset_show st (negb (d_show st)) in
  if d_show st then
    (st, clear_row cols (d_row st) ++ print_at (d_row st) 0 (trunc cols (d_text st)))
  else
    let st := dset_cycles st (d_cycles st + 1) in
    (if negb (d_loop st) then dset_active st false else st, clear_row cols (d_row st)).

Definition dbody_typewriter (cols : Z) (st : dstate) : dstate * list dev :=
  let length := zlen (d_text st) in
  if length <=? 0 then (dset_active st (d_loop st), clear_row cols (d_row st))
  else if d_visible st <? length then
    let st := dset_visible st (d_visible st + 1) in
    let st := if d_visible st >? length then dset_visible st length else st in
    let view := trunc cols (firstn (Z.to_nat (d_visible st)) (d_text st)) in
    let evs := clear_row cols (d_row st) ++ print_at (d_row st) 0 view in
    if (d_visible st >=? length) && negb (d_loop st) then (dset_active st false, evs) else (st, evs)
  else if negb (d_loop st) then (dset_active st false, [])
  else (dset_visible st 0, clear_row cols (d_row st)).

Definition dbody_bounce (cols : Z) (st : dstate) : dstate * list dev :=
  let length := zlen (d_text st) in
  if length <=? 0 then (dset_active st (d_loop st), clear_row cols (d_row st))
  else if length >=? cols then
    (dset_active st (d_loop st),
     clear_row cols (d_row st) ++ print_at (d_row st) 0 (firstn (Z.to_nat cols) (d_text st)))
  else
    let max_offset := cols - length in
    if max_offset <=? 0 then (dset_active st (d_loop st), []) else
    let st := dset_offset st (d_offset st + d_dir st) in
    let st :=
      if d_offset st >=? max_offset then dset_show (dset_dir (dset_offset st max_offset) (-1)) true
      else if d_offset st <=? 0 then
        let st := dset_dir (dset_offset st 0) 1 in
        if d_show st then
          let st := dset_show (dset_cycles st (d_cycles st + 1)) false in
          if negb (d_loop st) && (d_cycles st >=? 1) then dset_active st false else st
        else st
      else st in
    let available := cols - d_offset st in
    let available := if available <? 0 then 0 else available in
    let view := trunc available (d_text st) in
    (st, clear_row cols (d_row st) ++ print_at (d_row st) (d_offset st) view).

Definition dbody (sty : style) (cols : Z) (st : dstate) : dstate * list dev :=
  match sty with
  | Scroll => dbody_scroll cols st
  | Blink => dbody_blink cols st
  | Typewriter => dbody_typewriter cols st
  | Bounce => dbody_bounce cols st
  end.

Definition dtick (sty : style) (cols now : Z) (st : dstate) : dstate * list dev :=
  if dgate st now then dbody sty cols (dset_last st now) else (st, []).

(* single-animation run: final state, and per tick (time, step flag, events) *)
Fixpoint drun1 (sty : style) (cols : Z) (st : dstate) (nows : list Z)
  : dstate * list (Z * bool * list dev) :=
  match nows with
  | [] => (st, [])
  | now :: rest =>
      let '(st', ev) := dtick sty cols now st in
      let '(st'', tr) := drun1 sty cols st' rest in
      (st'', (now, dgate st now, ev) :: tr)
  end.

(* ---- the display: a cell matrix updated by the writes (what the mock's DDRAM dump shows) *)
Definition set_cell (c ch : Z) (row : list Z) : list Z :=
  if (0 <=? c) && (c <? zlen row) then set_nth (Z.to_nat c) ch row else row.

Definition apply_row (r : Z) (evs : list dev) (row : list Z) : list Z :=
  fold_left (fun acc e => match e with
                          | DW r' c ch => if r' =? r then set_cell c ch acc else acc
                          | DDelay _ => acc
                          end) evs row.

Fixpoint apply_from (r : Z) (evs : list dev) (m : list (list Z)) : list (list Z) :=
  match m with
  | [] => []
  | row :: m' => apply_row r evs row :: apply_from (r + 1) evs m'
  end.

Definition apply_devs (evs : list dev) (m : list (list Z)) : list (list Z) := apply_from 0 evs m.

Definition blank_matrix (cols rows : Z) : list (list Z) := repeat (spaces cols) (Z.to_nat rows).

(* ---- one LCD object with several animations (one state variable per lcd.animate call site);
   loop() calls the tick helper of each, in registration order *)
Fixpoint dtick_all (cols now : Z) (anims : list (style * dstate)) : list (style * dstate) * list dev :=
  match anims with
  | [] => ([], [])
  | (sty, st) :: rest =>
      let '(st', ev) := dtick sty cols now st in
      let '(rest', ev') := dtick_all cols now rest in
      ((sty, st') :: rest', ev ++ ev')
  end.

(* LCDAnimate emission (emitter.py 1545-1549): the speed argument is passed as
   static_cast<unsigned long>(speed_expr).  W = width of unsigned long (32 on AVR, 64 on the mock's
   host compiler): a negative speed_ms becomes a huge period. *)
Definition ulong_cast (W speed : Z) : Z := speed mod 2 ^ W.
Definition dstart_emit (W : Z) (sty : style) (cols row : Z) (text : list Z) (speed : Z) (loop : bool)
  : dstate * list dev := dstart sty cols row text (ulong_cast W speed) loop.

(* setup(): the start helpers of one display's lcd.animate calls, in call order
   (call = style, row, text, speed_ms, loop) *)
Definition dcall := (style * Z * list Z * Z * bool)%type.
Fixpoint dstart_all (cols : Z) (calls : list dcall) : list (style * dstate) * list dev :=
  match calls with
  | [] => ([], [])
  | (sty, row, text, speed, lp) :: rest =>
      let '(st, ev) := dstart sty cols row text speed lp in
      let '(sts, evs) := dstart_all cols rest in
      ((sty, st) :: sts, ev ++ evs)
  end.

(* a display over a whole run: loop() pass k ticks all its animations at millis() = nows[k];
   result: the final states and the cell writes of every pass *)
Fixpoint drun_all (cols : Z) (anims : list (style * dstate)) (nows : list Z)
  : list (style * dstate) * list (list dev) :=
  match nows with
  | [] => (anims, [])
  | now :: rest =>
      let '(anims', ev) := dtick_all cols now anims in
      let '(animsn, evs) := drun_all cols anims' rest in
      (animsn, ev :: evs)
  end.

(* the rows the animations of a display live in *)
Definition rows_of (anims : list (style * dstate)) : list Z := map (fun a => d_row (snd a)) anims.

(* ---- tick injection (parser.py: lcd_tick_names / LCDTick; emitter.py: emit() registration pass,
   LCDAnimate and LCDTick branches of _emit_block).
   A call site of lcd.animate is (lcd name, style).  Before it emits any statement, [emit] walks
   setup_body, then loop_body, then the bodies of the functions, and gives each site the state
   variable __redu_lcd_anim_<name>_<k>, k counting the sites of that name met so far.  The head of
   loop_body is one LCDTick per name in sorted(lcd_tick_names); an LCDTick emits one tick call for
   every registered variable of that name - all of them, since registration is complete before the
   first statement is emitted.  (Until the repair recorded as F-C18-animate-in-loop-never-ticked the
   variables were registered while the statements were emitted, so the LCDTick saw the setup sites
   only.)  Below, [setup_sites] are the sites before the main loop and [loop_sites] the ones
   registered after them: main-loop body, then function bodies in definition order. *)
Definition site := (Z * style)%type.

Fixpoint registered (name : Z) (k : Z) (sites : list site) : list (Z * Z * style) :=
  match sites with
  | [] => []
  | (n, sty) :: rest =>
      if n =? name then (name, k, sty) :: registered name (k + 1) rest else registered name k rest
  end.

Fixpoint insert_sorted (x : Z) (l : list Z) : list Z :=
  match l with
  | [] => [x]
  | y :: r => if x <? y then x :: l else if x =? y then l else y :: insert_sorted x r
  end.

(* sorted(set(names)) *)
Definition sorted_set (l : list Z) : list Z := fold_right insert_sorted [] l.

(* the tick calls at the head of loop(): (lcd name, variable index, style) in emission order *)
Definition loop_ticks (setup_sites loop_sites : list site) : list (Z * Z * style) :=
  flat_map (fun name => registered name 0 (setup_sites ++ loop_sites))
           (sorted_set (map fst (setup_sites ++ loop_sites))).

(* every variable the program declares, grouped by display: setup sites then loop sites, counters continuing *)
Definition all_vars (setup_sites loop_sites : list site) : list (Z * Z * style) :=
  flat_map (fun name => registered name 0 (setup_sites ++ loop_sites))
           (sorted_set (map fst (setup_sites ++ loop_sites))).

(* ---- specification vocabulary used by the statements in Props/C18.v *)
Definition dno_delay (evs : list dev) : Prop := forall ms, ~ In (DDelay ms) evs.
(* every cell written lies in the animation's row and inside the display width *)
Definition din_row (cols row : Z) (evs : list dev) : Prop :=
  forall r c ch, In (DW r c ch) evs -> r = row /\ 0 <= c < cols.
Definition matrix_wf (cols rows : Z) (m : list (list Z)) : Prop :=
  zlen m = rows /\ forall row, In row m -> zlen row = cols.
(* a frame: [c] blanks, the visible text [s], blanks up to the width *)
Definition frame (cols c : Z) (s : list Z) : list Z := spaces c ++ s ++ spaces (cols - c - zlen s).

(* the number of steps a non-looping animation performs before it is inactive *)
Definition dsteps_total (sty : style) (cols : Z) (text : list Z) : Z :=
  let n := zlen text in
  match sty with
  | Scroll => Z.max n cols + cols
  | Blink => 1
  | Typewriter => if n <=? 1 then 1 else n - 1
  | Bounce => if (n <=? 0) || (n >=? cols) then 1 else 2 * (cols - n)
  end.

(* the index the emitter gives to a call site: how many sites of the same LCD precede it *)
Definition count_name (name : Z) (sites : list site) : Z :=
  zlen (filter (fun s => fst s =? name) sites).

(* what a batch of writes does to any well-formed cell matrix: nothing, or the animation's row
   becomes the frame [c blanks, s, blanks] (exactly [cols] cells) whatever it held before, and no
   other row changes *)
Definition dframe_drawn (cols rows row : Z) (evs : list dev) : Prop :=
  evs = [] \/ exists c s, 0 <= c /\ c + zlen s <= cols /\
    forall m, matrix_wf cols rows m ->
      get_row row (apply_devs evs m) = frame cols c s /\ zlen (frame cols c s) = cols /\
      forall r', 0 <= r' -> r' <> row -> get_row r' (apply_devs evs m) = get_row r' m.

