(* The clock arithmetic of the LCD animation tick helpers at the width of the C type.

   Device/DLCDAnim.v computes the rate limiter over unbounded [Z]:  now - last_step < speed_ms.
   The emitted C++ (emitter.py, the text every __redu_lcd_tick_* helper begins with) computes it in
   [unsigned long]:

       unsigned long now = millis();
       if (state.speed_ms > 0UL && state.last_step > 0UL) {
         unsigned long elapsed = now - state.last_step;         // modulo 2^W
         if (elapsed < state.speed_ms) { return; }
       }
       state.last_step = now;

   W = number of bits of unsigned long (32 on AVR, 64 under the mock's host compiler); every value
   that is stored or compared is a residue modulo 2^W.  This file is that arithmetic (model only,
   proofs in Proofs/LCDAnimW.v).  A tick happens at the TRUE time [t] (milliseconds since the clock
   started, an unbounded Z, what the property's "timestamps" are); millis() returns [uwrap W t].
   While t < 2^W the register is the true time (no roll-over: the property's quantifier - positive,
   non-decreasing timestamps); the same functions also describe what the code does across the
   roll-over (t >= 2^W), where the values millis() returns are no longer non-decreasing.

   Why the width has to be in the model: over Z the tests  now - last < speed  and
   now < last + speed  are the same test; in W-bit arithmetic they are not - the sum wraps when
   last_step lies within speed_ms of the largest unsigned long although the clock itself never
   wraps ([dgate_deadline], kept here only as the counter-model of Props: C18_deadline_form_refuted). *)
From Coq Require Import ZArith List Bool.
From RV Require Import Host.LCDAnim Device.DLCDAnim.
Import ListNotations.
Open Scope Z_scope.

(* the value of an unsigned long expression: reduction modulo 2^W *)
Definition uwrap (W x : Z) : Z := x mod 2 ^ W.

(* the gate as emitted: [now] is the value millis() returned, [d_last]/[d_speed] are W-bit fields *)
Definition dgateW (W : Z) (st : dstate) (now : Z) : bool :=
  d_active st &&
  negb ((0 <? d_speed st) && (0 <? d_last st) && (uwrap W (now - d_last st) <? d_speed st)).

(* one tick helper call at true time [t] *)
Definition dtickW (W : Z) (sty : style) (cols t : Z) (st : dstate) : dstate * list dev :=
  let now := uwrap W t in
  if dgateW W st now then dbody sty cols (dset_last st now) else (st, []).

(* single-animation run over true tick times: final state, per tick (true time, step flag, events) *)
Fixpoint drun1W (W : Z) (sty : style) (cols : Z) (st : dstate) (ts : list Z)
  : dstate * list (Z * bool * list dev) :=
  match ts with
  | [] => (st, [])
  | t :: rest =>
      let '(st', ev) := dtickW W sty cols t st in
      let '(st'', tr) := drun1W W sty cols st' rest in
      (st'', (t, dgateW W st (uwrap W t), ev) :: tr)
  end.

(* one LCD object with several animations, one pass *)
Fixpoint dtick_allW (W cols t : Z) (anims : list (style * dstate)) : list (style * dstate) * list dev :=
  match anims with
  | [] => ([], [])
  | (sty, st) :: rest =>
      let '(st', ev) := dtickW W sty cols t st in
      let '(rest', ev') := dtick_allW W cols t rest in
      ((sty, st') :: rest', ev ++ ev')
  end.

Fixpoint drun_allW (W cols : Z) (anims : list (style * dstate)) (ts : list Z)
  : list (style * dstate) * list (list dev) :=
  match ts with
  | [] => (anims, [])
  | t :: rest =>
      let '(anims', ev) := dtick_allW W cols t anims in
      let '(animsn, evs) := drun_allW W cols anims' rest in
      (animsn, ev :: evs)
  end.

(* ---- specification vocabulary *)
(* every tick time fits the register: the clock has not rolled over *)
Definition below_width (W : Z) (ts : list Z) : Prop := Forall (fun t => t < 2 ^ W) ts.

(* across the roll-over: consecutive ticks are closer than a full turn of the register minus the period
   (a main loop whose passes take less than 2^W - speed_ms milliseconds), and millis() never returns 0
   at a tick (0 is the code's marker for "the clock is not running yet") *)
Fixpoint gaps_below (bound prev : Z) (ts : list Z) : Prop :=
  match ts with [] => True | t :: r => t - prev < bound /\ gaps_below bound t r end.
Definition never_reads_zero (W : Z) (ts : list Z) : Prop := Forall (fun t => uwrap W t <> 0) ts.

(* NOT the emitted code: the same limiter written as an absolute deadline,
       if (speed_ms > 0 && last_step > 0 && now < last_step + speed_ms) return;
   with the sum computed in W bits.  Over Z it is [dgate]; here it is the counter-model that shows the
   width hypothesis of the theorems is not decoration. *)
Definition dgate_deadline (W : Z) (st : dstate) (now : Z) : bool :=
  d_active st &&
  negb ((0 <? d_speed st) && (0 <? d_last st) && (now <? uwrap W (d_last st + d_speed st))).

Fixpoint deadline_flags (W : Z) (st : dstate) (ts : list Z) : list bool :=
  match ts with
  | [] => []
  | t :: rest =>
      let now := uwrap W t in
      let g := dgate_deadline W st now in
      g :: deadline_flags W (if g then dset_last st now else st) rest
  end.
