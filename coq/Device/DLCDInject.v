(* C18 - tick injection over the block structure of the script (model only; proofs in Proofs/LCDInjectP.v).

   Device/DLCDAnim.v states the injection rule over FLAT lists of lcd.animate call sites.  The real
   transpiler meets the call sites inside blocks: `if/elif/else`, `while <cond>`, `for .. in range(..)`,
   `try/except ..` (several handlers), nested to any depth.  Two independent walks decide whether an
   animation is advanced once per loop() pass:

   * the PARSER (parser.py, _parse_simple_lines): every block kind re-enters _parse_simple_lines with a
     child context that is a shallow copy of the parent's, so the set ctx["lcd_tick_names"] is shared;
     the branch `RE_LCD_ANIMATE` adds the display's name to it at every call site it parses, whatever
     the nesting; _parse_function parses a `def` body with a shallow copy as well, so call sites inside
     functions land in the same set.  parse() then prepends one LCDTick per name of
     sorted(lcd_tick_names) to loop_body (only the set matters, not where a def stands in the script);
   * the EMITTER (emitter.py, emit: _register_lcd_animations / _nested_blocks): before any statement is
     emitted it walks setup_body, then loop_body, then the body of every function, node lists in order -
     IfStatement: every branch body then else_body; WhileLoop / ForRangeLoop: body; TryStatement:
     try_body then every handler body - and at each LCDAnimate takes counter =
     lcd_animation_counter[name], appends (__redu_lcd_anim_<name>_<counter>, style) to
     lcd_animations[<display of name>] and increments the counter.  The statements are emitted
     afterwards, in the same order: an LCDAnimate takes the next name of its display name by the same
     count (the running counter is shared by setup, loop and the function bodies), i.e. the variable
     registered for it, an LCDTick emits one tick call per
     entry of lcd_animations[<display>] - all of them - and one global is declared per entry.

   A statement is an lcd.animate call site, any other simple statement, or a block with its bodies in
   source order (if: the if/elif branches then the else body; while/for: one body; try: the try body
   then the handlers).  The second argument of the walks below is what is registered after the
   statements that precede the main loop: the main-loop body followed by the function bodies in
   definition order ([prog_ticks] / [prog_vars] take the function bodies separately).  Until the
   repairs recorded as F-C18-animate-in-loop-never-ticked / F-C18-animate-in-function-undeclared the
   registration happened while the statements were emitted (LCDTick saw the setup sites only; sites in
   function bodies were registered in a copy that was thrown away). *)
From Coq Require Import ZArith List Bool.
From RV Require Import Host.LCDAnim Device.DLCDAnim.
Import ListNotations.
Open Scope Z_scope.

Inductive bkind := KIf | KWhile | KFor | KTry.

Inductive stmt : Type :=
| SAnim (n : Z) (sty : style)
| SOther
| SBlock (k : bkind) (bodies : list (list stmt)).

(* ---- parser: the names collected in ctx["lcd_tick_names"], in the order the call sites are parsed *)
Fixpoint pnames (s : stmt) (acc : list Z) : list Z :=
  match s with
  | SAnim n _ => n :: acc
  | SOther => acc
  | SBlock _ bodies => fold_left (fun a b => fold_left (fun a' s' => pnames s' a') b a) bodies acc
  end.
Definition pnames_block (b : list stmt) (acc : list Z) : list Z := fold_left (fun a s => pnames s a) b acc.

(* the LCDTick nodes parse() puts at the head of loop_body *)
Definition parser_ticks (setup loop : list stmt) : list Z :=
  sorted_set (pnames_block loop (pnames_block setup [])).

(* ---- emitter: the registry lcd_animations (all displays, registration order) as (name, index, style);
   lcd_animation_counter[name] = the number of entries of that name *)
Definition registry := list (Z * Z * style).
Definition of_name (name : Z) (r : registry) : registry := filter (fun v => fst (fst v) =? name) r.
Definition reg_counter (name : Z) (r : registry) : Z := zlen (of_name name r).

Fixpoint emit_stmt (s : stmt) (r : registry) : registry :=
  match s with
  | SAnim n sty => r ++ [(n, reg_counter n r, sty)]
  | SOther => r
  | SBlock _ bodies => fold_left (fun r1 b => fold_left (fun r2 s' => emit_stmt s' r2) b r1) bodies r
  end.
Definition emit_block (b : list stmt) (r : registry) : registry := fold_left (fun r2 s => emit_stmt s r2) b r.

(* emit(): the registration pass walks setup_body, then loop_body (then the function bodies) before any
   statement is emitted; each LCDTick at the head of loop() then prints a tick call for every variable
   of its display in the complete registry *)
Definition tree_registry (setup loop : list stmt) : registry := emit_block loop (emit_block setup []).

Definition tree_loop_ticks (setup loop : list stmt) : list (Z * Z * style) :=
  flat_map (fun name => of_name name (tree_registry setup loop)) (parser_ticks setup loop).

(* the state variables declared as globals: one per registry entry *)
Definition tree_all_vars (setup loop : list stmt) : list (Z * Z * style) := tree_registry setup loop.

(* a whole program: statements before the main loop, main-loop body, function bodies in definition order *)
Definition prog_ticks (setup loop : list stmt) (funs : list (list stmt)) : list (Z * Z * style) :=
  tree_loop_ticks setup (loop ++ concat funs).
Definition prog_vars (setup loop : list stmt) (funs : list (list stmt)) : list (Z * Z * style) :=
  tree_all_vars setup (loop ++ concat funs).

(* ---- specification vocabulary: the call sites of a statement / block in source order *)
Fixpoint flat (s : stmt) : list site :=
  match s with
  | SAnim n sty => [(n, sty)]
  | SOther => []
  | SBlock _ bodies => flat_map (fun b => flat_map flat b) bodies
  end.
Definition flats (b : list stmt) : list site := flat_map flat b.

(* [s] occurs in the block [b] at any depth, inside any body of any block kind *)
Inductive occurs (s : stmt) : list stmt -> Prop :=
| occ_here : forall b, In s b -> occurs s b
| occ_deeper : forall b k bodies body, In (SBlock k bodies) b -> In body bodies -> occurs s body -> occurs s b.

(* a walk that forgets the handlers of try statements (what a separately written "collect the animated
   displays" pass would do if it followed only try_body): used by a non-vacuity example to show that the
   statements below separate it from [pnames] *)
Fixpoint pnames_no_handlers (s : stmt) (acc : list Z) : list Z :=
  match s with
  | SAnim n _ => n :: acc
  | SOther => acc
  | SBlock KTry (body :: _) => fold_left (fun a' s' => pnames_no_handlers s' a') body acc
  | SBlock _ bodies => fold_left (fun a b => fold_left (fun a' s' => pnames_no_handlers s' a') b a) bodies acc
  end.
