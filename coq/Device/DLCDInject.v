(* C18 - tick injection over the block structure of the script (model only; proofs in Proofs/LCDInjectP.v).

   Device/DLCDAnim.v states the injection rule over FLAT lists of lcd.animate call sites.  The real
   transpiler meets the call sites inside blocks: `if/elif/else`, `while <cond>`, `for .. in range(..)`,
   `try/except ..` (several handlers), nested to any depth.  Two independent walks decide whether an
   animation is advanced once per loop() pass:

   * the PARSER (parser.py, _parse_simple_lines): every block kind re-enters _parse_simple_lines with a
     child context that is a shallow copy of the parent's, so the set ctx["lcd_tick_names"] is shared;
     the branch `RE_LCD_ANIMATE` adds the display's name to it at every call site it parses, whatever
     the nesting.  parse() then prepends one LCDTick per name of sorted(lcd_tick_names) to loop_body;
   * the EMITTER (emitter.py, _emit_block): walks the node lists in order - IfStatement: every branch
     body then else_body; WhileLoop / ForRangeLoop: body; TryStatement: try_body then every handler
     body - and at each LCDAnimate takes counter = lcd_animation_counter[name], appends
     (__redu_lcd_anim_<name>_<counter>, style) to lcd_animations[name] and increments the counter.
     An LCDTick emits one tick call per entry of lcd_animations[name] present at that moment.

   A statement is an lcd.animate call site, any other simple statement, or a block with its bodies in
   source order (if: the if/elif branches then the else body; while/for: one body; try: the try body
   then the handlers).  Call sites inside `def` bodies are outside this model (finding
   F-C18-animate-in-function-undeclared). *)
From Coq Require Import ZArith List Bool.
From RV Require Import Host.LCDAnim Device.DLCDAnim.
Import ListNotations.
Open Scope Z_scope.

Inductive bkind := KIf | KWhile | KFor | KTry.

Inductive stmt : Type :=
| SAnim (n : Z) (sty : style)
| SOther
| SBlock (k : bkind) (bodies : list (list stmt)).

(* ---- parser: the names collected in ctx["lcd_tick_names"], in the order the call sites are parsed *)
Fixpoint pnames (s : stmt) (acc : list Z) : list Z :=
  match s with
  | SAnim n _ => n :: acc
  | SOther => acc
  | SBlock _ bodies => fold_left (fun a b => fold_left (fun a' s' => pnames s' a') b a) bodies acc
  end.
Definition pnames_block (b : list stmt) (acc : list Z) : list Z := fold_left (fun a s => pnames s a) b acc.

(* the LCDTick nodes parse() puts at the head of loop_body *)
Definition parser_ticks (setup loop : list stmt) : list Z :=
  sorted_set (pnames_block loop (pnames_block setup [])).

(* ---- emitter: the registry lcd_animations (all displays, registration order) as (name, index, style);
   lcd_animation_counter[name] = the number of entries of that name *)
Definition registry := list (Z * Z * style).
Definition of_name (name : Z) (r : registry) : registry := filter (fun v => fst (fst v) =? name) r.
Definition reg_counter (name : Z) (r : registry) : Z := zlen (of_name name r).

Fixpoint emit_stmt (s : stmt) (r : registry) : registry :=
  match s with
  | SAnim n sty => r ++ [(n, reg_counter n r, sty)]
  | SOther => r
  | SBlock _ bodies => fold_left (fun r1 b => fold_left (fun r2 s' => emit_stmt s' r2) b r1) bodies r
  end.
Definition emit_block (b : list stmt) (r : registry) : registry := fold_left (fun r2 s => emit_stmt s r2) b r.

(* emit(): setup_body is walked first, then loop_body, whose head is the LCDTick list: each LCDTick
   prints a tick call for every variable of its display registered so far (i.e. by setup_body) *)
Definition tree_loop_ticks (setup loop : list stmt) : list (Z * Z * style) :=
  let r1 := emit_block setup [] in
  flat_map (fun name => of_name name r1) (parser_ticks setup loop).

(* the state variables declared as globals after both walks, grouped by display *)
Definition tree_all_vars (setup loop : list stmt) : list (Z * Z * style) :=
  let r2 := emit_block loop (emit_block setup []) in
  flat_map (fun name => of_name name r2) (parser_ticks setup loop).

(* ---- specification vocabulary: the call sites of a statement / block in source order *)
Fixpoint flat (s : stmt) : list site :=
  match s with
  | SAnim n sty => [(n, sty)]
  | SOther => []
  | SBlock _ bodies => flat_map (fun b => flat_map flat b) bodies
  end.
Definition flats (b : list stmt) : list site := flat_map flat b.

(* [s] occurs in the block [b] at any depth, inside any body of any block kind *)
Inductive occurs (s : stmt) : list stmt -> Prop :=
| occ_here : forall b, In s b -> occurs s b
| occ_deeper : forall b k bodies body, In (SBlock k bodies) b -> In body bodies -> occurs s body -> occurs s b.

(* a walk that forgets the handlers of try statements (what a separately written "collect the animated
   displays" pass would do if it followed only try_body): used by a non-vacuity example to show that the
   statements below separate it from [pnames] *)
Fixpoint pnames_no_handlers (s : stmt) (acc : list Z) : list Z :=
  match s with
  | SAnim n _ => n :: acc
  | SOther => acc
  | SBlock KTry (body :: _) => fold_left (fun a' s' => pnames_no_handlers s' a') body acc
  | SBlock _ bodies => fold_left (fun a b => fold_left (fun a' s' => pnames_no_handlers s' a') b a) bodies acc
  end.
