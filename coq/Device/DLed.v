(* Device model of the LED commands: the C++ the emitter writes for every Led* IR node
   (/repo/src/Reduino/transpile/emitter.py, branches LedOn ... LedFlashPattern, ~1954-2044 and
   ~2193-2273), transcribed statement by statement.  State = the two globals
   [bool __state_<name>] and [int __brightness_<name>].

   Arguments.  A command argument is what the SCRIPT passes (a pynum, the same value the host
   class receives).  On the device it reaches an [int] variable either as a literal that the
   parser has already folded with Python's int() (parser.py _resolve_numeric_arg) or as a
   run-time C expression converted by the initialisation [int x = expr;] - both truncate toward
   zero, hence [c_int].  [delay(expr)] takes an unsigned long: the same truncation for the
   non-negative values of the model (negative delays wrap in C and are outside the model).
   C [int] is modelled by Z: no overflow (values below 2^15, stated in the evidence).

   Events: the calls that reach the Arduino core, in order.  No proofs in this file. *)
From Coq Require Import ZArith QArith List Bool.
From RV Require Import Base.Wire Base.Num Host.Led Device.Signal.
Import ListNotations.
Import Num.
Open Scope Z_scope.

Inductive dev : Type :=
| EDW (pin : Z) (v : bool)      (* digitalWrite(pin, HIGH|LOW) *)
| EAW (pin v : Z)               (* analogWrite(pin, v) *)
| EDelay (ms : Z).              (* delay(ms) *)

Record dled : Type := mkD { d_state : bool; d_bright : Z }.

(* bool __state_x = false; int __brightness_x = 0; *)
Definition dinit : dled := mkD false 0.

Definition c_int (x : pynum) : Z := zval x.
Definition c_ms (x : pynum) : Z := zval x.

(* if (v < 0) { v = 0; }  if (v > 255) { v = 255; } *)
Definition clamp255 (v : Z) : Z :=
  let v1 := if v <? 0 then 0 else v in
  if 255 <? v1 then 255 else v1.

Definition cap255 (v : Z) : Z := if 255 <? v then 255 else v.
Definition floor0 (v : Z) : Z := if v <? 0 then 0 else v.

Definition dout : Type := (dled * list dev * option Z)%type.

(* LedOn / LedOff *)
Definition d_on (pin : Z) : dout := (mkD true 255, [EDW pin true], None).
Definition d_off (pin : Z) : dout := (mkD false 0, [EDW pin false], None).

(* LedToggle:  state = !state; brightness = state ? 255 : 0; digitalWrite(pin, state ? HIGH : LOW); *)
Definition d_toggle (pin : Z) (s : dled) : dout :=
  let st' := negb (d_state s) in
  (mkD st' (if st' then 255 else 0), [EDW pin st'], None).

(* LedSetBrightness:  int b = value; clamp; brightness = b; state = brightness > 0; analogWrite(pin, brightness); *)
Definition d_set_brightness (pin : Z) (v : pynum) : dout :=
  let b := clamp255 (c_int v) in
  (mkD (0 <? b) b, [EAW pin b], None).

(* LedBlink:  int times = ...; if (times < 0) times = 0;
     for (i < times) { state = true; brightness = 255; digitalWrite(HIGH); delay(d);
                       state = false; brightness = 0; digitalWrite(LOW); delay(d); }
     state = false; brightness = 0; digitalWrite(pin, LOW); *)
Fixpoint dblink_evs (n : nat) (pin d : Z) : list dev :=
  match n with
  | O => []
  | S k => EDW pin true :: EDelay d :: EDW pin false :: EDelay d :: dblink_evs k pin d
  end.

Definition d_blink (pin : Z) (d t : pynum) : dout :=
  let times := floor0 (c_int t) in
  (mkD false 0, dblink_evs (Z.to_nat times) pin (c_ms d) ++ [EDW pin false], None).

(* LedFadeIn:  int step = ...; if (step <= 0) step = 1;  int value = brightness; clamp;
     while (value < 255) { brightness = value; state = brightness > 0; analogWrite(pin, brightness);
                           delay(d); value += step; if (value > 255) value = 255; }
     brightness = 255; state = true; analogWrite(pin, 255);
   the loop runs at most 255 - value times because step >= 1: fuel (Proofs/DLedP.v: any
   sufficient fuel gives the same list) *)
Fixpoint dfin_lv (fuel : nat) (value step : Z) : list Z :=
  match fuel with
  | O => []
  | S f => if value <? 255 then value :: dfin_lv f (cap255 (value + step)) step else []
  end.

Fixpoint dfout_lv (fuel : nat) (value step : Z) : list Z :=
  match fuel with
  | O => []
  | S f => if 0 <? value then value :: dfout_lv f (floor0 (value - step)) step else []
  end.

Fixpoint dfade_evs (pin d : Z) (lv : list Z) : list dev :=
  match lv with
  | [] => []
  | v :: r => EAW pin v :: EDelay d :: dfade_evs pin d r
  end.

Definition c_step (x : pynum) : Z := let k := c_int x in if k <=? 0 then 1 else k.

Definition dfade_fuel (span : Z) : nat := S (Z.to_nat span).

Definition d_fade_in (pin : Z) (s : dled) (stp dl : pynum) : dout :=
  let v0 := clamp255 (d_bright s) in
  (mkD true 255,
   dfade_evs pin (c_ms dl) (dfin_lv (dfade_fuel (255 - v0)) v0 (c_step stp)) ++ [EAW pin 255], None).

(* LedFadeOut: the mirror image, ends with brightness = 0; state = false; analogWrite(pin, 0) *)
Definition d_fade_out (pin : Z) (s : dled) (stp dl : pynum) : dout :=
  let v0 := clamp255 (d_bright s) in
  (mkD false 0,
   dfade_evs pin (c_ms dl) (dfout_lv (dfade_fuel v0) v0 (c_step stp)) ++ [EAW pin 0], None).

(* LedFlashPattern:  the pattern is a literal list, each entry folded by the parser
   (bool -> 1/0, int/float -> int(entry)); an empty pattern emits nothing at all.
     for (i < len) { int value = pattern[i];
       if (value <= 0) { brightness = 0; state = false; digitalWrite(LOW); }
       else if (value == 1) { brightness = 255; state = true; digitalWrite(HIGH); }
       else { if (value > 255) value = 255; brightness = value; state = brightness > 0; analogWrite(pin, brightness); }
       if (i + 1 < len) delay(d); } *)
Definition dflash_entry (pin v : Z) : dled * list dev :=
  if v <=? 0 then (mkD false 0, [EDW pin false])
  else if v =? 1 then (mkD true 255, [EDW pin true])
  else let v' := cap255 v in (mkD (0 <? v') v', [EAW pin v']).

Fixpoint dflash_loop (pin : Z) (p : list Z) (d : Z) (s : dled) : dled * list dev :=
  match p with
  | [] => (s, [])
  | v :: rest =>
      let '(s1, e1) := dflash_entry pin v in
      match rest with
      | [] => (s1, e1)
      | _ => let '(s2, e2) := dflash_loop pin rest d s1 in (s2, e1 ++ EDelay d :: e2)
      end
  end.

Definition d_flash (pin : Z) (s : dled) (p : list pynum) (d : pynum) : dout :=
  let '(s', e) := dflash_loop pin (map c_int p) (c_ms d) s in (s', e, None).

(* getters are plain reads of the globals: Serial.println(__state_x) prints 1/0 *)
Definition dstep (pin : Z) (s : dled) (o : op) : dout :=
  match o with
  | On => d_on pin
  | Off => d_off pin
  | Toggle => d_toggle pin s
  | SetBrightness v => d_set_brightness pin v
  | Blink d t => d_blink pin d t
  | FadeIn a b => d_fade_in pin s a b
  | FadeOut a b => d_fade_out pin s a b
  | FlashPattern p d => d_flash pin s p d
  | GetState => (s, [], Some (b2z (d_state s)))
  | GetBrightness => (s, [], Some (d_bright s))
  end.

(* ---- whole runs: device events, getter values ---- *)
Fixpoint drun (pin : Z) (s : dled) (ops : list op) : list dev * list (option Z) :=
  match ops with
  | [] => ([], [])
  | o :: r =>
      let '(s1, e1, g1) := dstep pin s o in
      let '(e2, g2) := drun pin s1 r in
      (e1 ++ e2, g1 :: g2)
  end.

Fixpoint dfinal (pin : Z) (s : dled) (ops : list op) : dled :=
  match ops with
  | [] => s
  | o :: r => dfinal pin (fst (fst (dstep pin s o))) r
  end.

(* what a host result looks like when printed the way the device prints it *)
Definition hget (r : result) : option Z :=
  match r with
  | Ok (RBool b) => Some (b2z b)
  | Ok (RInt z) => Some z
  | _ => None
  end.

(* host run: events, getter values, and whether any call raised *)
Fixpoint hrun (s : led) (ops : list op) : list ev * list (option Z) * bool :=
  match ops with
  | [] => ([], [], true)
  | o :: r =>
      let '(s1, e1, r1) := step s o in
      let '(e2, g2, ok2) := hrun s1 r in
      (e1 ++ e2, hget r1 :: g2, match r1 with Ok _ => ok2 | Raised _ => false end)
  end.

(* ---- traces as level signals ---- *)
Definition dconv (e : dev) : tev :=
  match e with
  | EDW p v => TL p (if v then 255 else 0)
  | EAW p v => TL p v
  | EDelay d => TD d
  end.

(* the host class has no pin: its level events are attributed to the pin of the declaration;
   a host sleep of q ms is compared with a device delay of trunc(q) whole ms *)
Definition hconv (pin : Z) (e : ev) : tev :=
  match e with
  | Lvl l => TL pin (nth 0 l 0)
  | Sleep q => TD (py_int_trunc q)
  end.

(* ---- the guard: arguments inside the ranges the host class accepts, of the annotated kinds ---- *)
Definition nonneg (x : pynum) : bool := match num_lt x 0 with Some false => true | _ => false end.
Definition is_pos (x : pynum) : bool := match num_le x 0 with Some false => true | _ => false end.
Definition integral (x : pynum) : bool :=
  match x with
  | PI _ | PB _ => true
  | PF q => Qeq_bool q (inject_Z (py_int_trunc q))
  | PO => false
  end.

(* a pattern entry strictly between 1 and 2 becomes 1 = "on" on the device, brightness 1 on the host *)
Definition pat_ok (e : pynum) : bool :=
  entry_ok e && negb (Qltb 1 (qval e) && Qltb (qval e) 2).

Definition in_range (o : op) : bool :=
  match o with
  | SetBrightness v => entry_ok v
  | Blink d t => nonneg d && is_pos t && is_intlike t
  | FadeIn a b | FadeOut a b => is_pos a && integral a && nonneg b
  | FlashPattern p d => nonneg d && forallb pat_ok p
  | _ => true
  end.

(* ---- the clamp clause ---- *)
Definition dev_ok (e : dev) : Prop :=
  match e with
  | EAW _ v => 0 <= v <= 255
  | _ => True
  end.
