(* C09 - the firmware's list runtime (LIST_HELPER_SNIPPET / LEN_HELPER_SNIPPET of
   /repo/src/Reduino/transpile/emitter.py, lines 109-254) as heap transformers.

   Model only: no proofs here (they live in Proofs/DListP.v).

   Heap.  A heap is the list of all blocks ever returned by [new T[n]]; the block id is
   its position, so the "fresh counter" is [length h] and ids are never reused (this is
   what makes use-after-free and double free observable, like ASan's quarantine).
   A block is (cells, live).  [delete[]] clears [live] and keeps the cells.  An access is classified
   the way AddressSanitizer does: past the end of a block (live or freed) it is OutOfBounds
   (redzone), inside a freed block it is UseAfterFree.
   Element values are abstract integers ([String] element buffers are always-safe values;
   only [==] on elements is used by the helpers).

   template <typename T> struct __redu_list { T *data; size_t size; ... };
   is a VALUE type (rule of five): the copy constructor / copy assignment allocate a buffer of
   their own and copy the cells ([list_copy], [list_assign]), the move constructor / move
   assignment steal the buffer of a temporary ([list_move_assign]) and the destructor runs
   delete[] data ([list_destroy]).  A list value is the pair (pointer, size); every pointer has
   exactly one owner. *)
From Coq Require Import ZArith List Bool Arith.
Import ListNotations.

Inductive ukind : Type := OutOfBounds | UseAfterFree | DoubleFree.

Inductive res (A : Type) : Type :=
| Safe (a : A)
| Unsafe (k : ukind).
Arguments Safe {A} a.
Arguments Unsafe {A} k.

Definition rbind {A B : Type} (r : res A) (f : A -> res B) : res B :=
  match r with Safe a => f a | Unsafe k => Unsafe k end.

Notation "'do' x <- r ; k" := (rbind r (fun x => k))
  (at level 200, x pattern, r at level 100, k at level 200, right associativity).

Record block : Type := mkblock { cells : list Z; live : bool }.
Definition heap : Type := list block.
Definition ptr : Type := option nat.              (* None = nullptr *)
Record lval : Type := mklist { data : ptr; size : nat }.

Definition null_list : lval := mklist None 0.    (* __redu_list() : data(nullptr), size(0) *)

(* ---------------------------------------------------------------- raw memory *)

Fixpoint upd {A : Type} (l : list A) (n : nat) (a : A) : list A :=
  match l, n with
  | [], _ => []
  | _ :: r, O => a :: r
  | x :: r, S n' => x :: upd r n' a
  end.

(* new T[n]  (n > 0 at every call site of the helpers); cells start as 0 (indeterminate,
   every helper writes a cell before it is read) *)
Definition alloc (h : heap) (n : nat) : heap * nat :=
  (h ++ [mkblock (repeat 0%Z n) true], length h).

(* p[i] as an rvalue *)
Definition hread (h : heap) (p : ptr) (i : nat) : res Z :=
  match p with
  | None => Unsafe OutOfBounds                    (* null dereference *)
  | Some b =>
      match nth_error h b with
      | None => Unsafe OutOfBounds                (* wild pointer: never produced *)
      | Some blk =>
          if i <? length (cells blk) then
            if live blk then Safe (nth i (cells blk) 0%Z) else Unsafe UseAfterFree
          else Unsafe OutOfBounds       (* past the end of a block, live or freed: its redzone *)
      end
  end.

(* p[i] = v *)
Definition hwrite (h : heap) (p : ptr) (i : nat) (v : Z) : res heap :=
  match p with
  | None => Unsafe OutOfBounds
  | Some b =>
      match nth_error h b with
      | None => Unsafe OutOfBounds
      | Some blk =>
          if i <? length (cells blk) then
            if live blk then Safe (upd h b (mkblock (upd (cells blk) i v) true))
            else Unsafe UseAfterFree
          else Unsafe OutOfBounds
      end
  end.

(* delete[] p  (delete[] nullptr is a no-op) *)
Definition hfree (h : heap) (p : ptr) : res heap :=
  match p with
  | None => Safe h
  | Some b =>
      match nth_error h b with
      | None => Unsafe DoubleFree
      | Some blk =>
          if live blk then Safe (upd h b (mkblock (cells blk) false))
          else Unsafe DoubleFree
      end
  end.

Definition live_blocks (h : heap) : nat := length (filter live h).

Fixpoint live_cells (h : heap) : nat :=
  match h with
  | [] => 0
  | b :: r => (if live b then length (cells b) else 0) + live_cells r
  end.

(* ---------------------------------------------------------------- loops *)

(* for (size_t i = i0; i < i0 + n; ++i) dst[i] = src[i]; *)
Fixpoint copy_loop (h : heap) (src dst : ptr) (i n : nat) : res heap :=
  match n with
  | O => Safe h
  | S n' =>
      do v <- hread h src i;
      do h1 <- hwrite h dst i v;
      copy_loop h1 src dst (S i) n'
  end.

(* for (i...) { if (i == remove_index) continue; dst[dest++] = src[i]; } *)
Fixpoint copy_skip (h : heap) (src dst : ptr) (ri i d n : nat) : res heap :=
  match n with
  | O => Safe h
  | S n' =>
      if i =? ri then copy_skip h src dst ri (S i) d n'
      else
        do v <- hread h src i;
        do h1 <- hwrite h dst d v;
        copy_skip h1 src dst ri (S i) (S d) n'
  end.

(* for (i...) { if (src[i] == value) { remove_index = i; break; } }   result: the index,
   or i + n (= list.size) when the loop runs to its end *)
Fixpoint find_loop (h : heap) (src : ptr) (v : Z) (i n : nat) : res nat :=
  match n with
  | O => Safe i
  | S n' =>
      do c <- hread h src i;
      if Z.eqb c v then Safe i else find_loop h src v (S i) n'
  end.

(* result.data[result.size++] = func(value) for each value of the range *)
Fixpoint fill_loop (h : heap) (dst : ptr) (i : nat) (vals : list Z) : res heap :=
  match vals with
  | [] => Safe h
  | v :: r =>
      do h1 <- hwrite h dst i v;
      fill_loop h1 dst (S i) r
  end.

(* ---------------------------------------------------------------- the helpers *)

(* __redu_make_list<T>()                     -> {}
   __redu_make_list<T>(first, rest...)      -> size = n; data = new T[n]{...}; *)
Definition list_make (h : heap) (items : list Z) : res (heap * lval) :=
  match items with
  | [] => Safe (h, null_list)
  | _ =>
      let '(h1, b) := alloc h (length items) in
      do h2 <- fill_loop h1 (Some b) 0 items;
      Safe (h2, mklist (Some b) (length items))
  end.

(* if (index < 0) index += (int)list.size;  return list.data[index];
   NO bounds check.  [list_index] is the index finally used. *)
Definition list_index (l : lval) (i : Z) : Z :=
  if (i <? 0)%Z then (i + Z.of_nat (size l))%Z else i.

Definition list_get (h : heap) (l : lval) (i : Z) : res Z :=
  let idx := list_index l i in
  if (idx <? 0)%Z then Unsafe OutOfBounds          (* data[negative] *)
  else hread h (data l) (Z.to_nat idx).

(* a write through the T& returned by __redu_list_get *)
Definition list_set (h : heap) (l : lval) (i : Z) (v : Z) : res heap :=
  let idx := list_index l i in
  if (idx <? 0)%Z then Unsafe OutOfBounds
  else hwrite h (data l) (Z.to_nat idx) v.

(* T *next = new T[size + 1]; copy; next[size] = value; delete[] data; data = next; ++size *)
Definition list_append (h : heap) (l : lval) (v : Z) : res (heap * lval) :=
  let '(h1, nx) := alloc h (size l + 1) in
  do h2 <- copy_loop h1 (data l) (Some nx) 0 (size l);
  do h3 <- hwrite h2 (Some nx) (size l) v;
  do h4 <- hfree h3 (data l);
  Safe (h4, mklist (Some nx) (S (size l))).

(* ---- the argument `const T &value` of append / remove.  The script's argument expression is either
   a scalar / temporary (passed by value: [AVal]) or an element of a list, `y[i]`, emitted as
   __redu_list_get(y, i): then `value` is a REFERENCE into y's buffer ([ARef], y may be the very list
   that is appended to) and the cell is read at the moment the helper reads `value` - for append
   AFTER the copy loop and BEFORE delete[] of the old buffer. *)
Inductive argv : Type := AVal (v : Z) | ARef (src : lval) (i : Z).

Definition arg_read (h : heap) (a : argv) : res Z :=
  match a with
  | AVal v => Safe v
  | ARef src i => list_get h src i
  end.

(* forming the reference `list.data[index]` at the call site: binding a reference to an element of a null
   buffer is undefined behaviour on its own (UBSan: reference binding to null pointer), read or not *)
Definition arg_bind (a : argv) : res unit :=
  match a with
  | AVal _ => Safe tt
  | ARef src _ => match data src with Some _ => Safe tt | None => Unsafe OutOfBounds end
  end.

(* T *next = new T[size + 1]; copy; next[size] = value (reads the reference); delete[] data; ... *)
Definition list_append_a (h : heap) (l : lval) (a : argv) : res (heap * lval) :=
  do _ <- arg_bind a;
  let '(h1, nx) := alloc h (size l + 1) in
  do h2 <- copy_loop h1 (data l) (Some nx) 0 (size l);
  do v <- arg_read h2 a;
  do h3 <- hwrite h2 (Some nx) (size l) v;
  do h4 <- hfree h3 (data l);
  Safe (h4, mklist (Some nx) (S (size l))).

Definition list_remove (h : heap) (l : lval) (v : Z) : res (heap * lval) :=
  if size l =? 0 then Safe (h, l)
  else
    do ri <- find_loop h (data l) v 0 (size l);
    if ri =? size l then Safe (h, l)                (* value absent: silently nothing *)
    else
      do hn <- (if 1 <? size l then
                  let '(h1, nx) := alloc h (size l - 1) in
                  do h2 <- copy_skip h1 (data l) (Some nx) ri 0 0 (size l);
                  Safe (h2, Some nx)
                else Safe (h, None));
      let '(h3, next) := hn in
      do h4 <- hfree h3 (data l);
      Safe (h4, mklist next (size l - 1)).

(* `value` is only read by the comparisons of the search loop (never when the list is empty), on
   the unchanged heap, and never after delete[] *)
Definition list_remove_a (h : heap) (l : lval) (a : argv) : res (heap * lval) :=
  do _ <- arg_bind a;
  if size l =? 0 then Safe (h, l)
  else do v <- arg_read h a; list_remove h l v.

(* __redu_list_assign(dest, source) is `dest = source;`, the copy assignment operator:
     if (this != &other) { T *next = other.size ? new T[other.size] : nullptr; copy; delete[] data; data = next; size = other.size; }
   [same] is the C++ test this == &other (the two operands are the same variable).  The new buffer is
   filled BEFORE the old one is released, so a source that shares dest's buffer is still read alive. *)
Definition list_assign (h : heap) (dest source : lval) (same : bool) : res (heap * lval) :=
  if same then Safe (h, dest)
  else
    let sz := size source in
    let '(h1, d) := (if sz =? 0 then (h, None)
                     else let '(hh, b) := alloc h sz in (hh, Some b)) in
    do h2 <- copy_loop h1 (data source) d 0 sz;
    do h3 <- hfree h2 (data dest);
    Safe (h3, mklist d sz).

(* __redu_list(const __redu_list &other): data(nullptr), size(other.size); if (size != 0) { data = new T[size]; copy } *)
Definition list_copy (h : heap) (source : lval) : res (heap * lval) :=
  let sz := size source in
  let '(h1, d) := (if sz =? 0 then (h, None)
                   else let '(hh, b) := alloc h sz in (hh, Some b)) in
  do h2 <- copy_loop h1 (data source) d 0 sz;
  Safe (h2, mklist d sz).

(* ~__redu_list() { delete[] data; } *)
Definition list_destroy (h : heap) (l : lval) : res heap := hfree h (data l).

(* dest = <temporary>: the move assignment  delete[] data; data = other.data; size = other.size; other = {} *)
Definition list_move_assign (h : heap) (dest tmp : lval) : res (heap * lval) :=
  do h1 <- hfree h (data dest);
  Safe (h1, tmp).

(* number of iterations of  for (value = start; value < stop; value += step)  (step > 0)
   resp. value > stop (step < 0); closed form = CPython's range length.  C int overflow
   of [value += step] is outside the model. *)
Definition range_count (start stop step : Z) : nat :=
  if (0 <? step)%Z then
    (if (start <? stop)%Z then Z.to_nat ((stop - start - 1) / step + 1) else 0)
  else if (step <? 0)%Z then
    (if (stop <? start)%Z then Z.to_nat ((start - stop - 1) / (- step) + 1) else 0)
  else 0.

Fixpoint range_vals (start step : Z) (n : nat) : list Z :=
  match n with
  | O => []
  | S n' => start :: range_vals (start + step) step n'
  end.

Definition list_from_range (h : heap) (start stop step : Z) (f : Z -> Z) : res (heap * lval) :=
  if (step =? 0)%Z then Safe (h, null_list)
  else
    let count := range_count start stop step in
    let '(h1, d) := (if 0 <? count then let '(hh, b) := alloc h count in (hh, Some b)
                     else (h, None)) in
    let vals := map f (range_vals start step count) in
    do h2 <- fill_loop h1 d 0 vals;
    Safe (h2, mklist d (length vals)).

(* __redu_len(const __redu_list<T> &) *)
Definition list_len (l : lval) : nat := size l.
