(* C09 - the ARMS of one if / elif / else (and try / except) statement and the parser's constant environment.

   parser.py (_parse_simple_lines, RE_IF / RE_TRY): the parser keeps its parse-time copies of the lists as PYTHON LIST
   OBJECTS in the dict `vars`; `x.append(<const>)` / `x.remove(<const>)` mutate the object IN PLACE (`current.append`,
   `current.remove`), a run-time argument REBINDS the name (`vars[x] = _ExprStr(x)`).  Every arm of an if statement is
   parsed in a child context produced by `_branch_ctx()` (`_child_ctx()` for try / except):
       child["vars"] = _copy_const_env(base_ctx_vars)          base_ctx_vars = dict(vars)   taken once, in front of the arms
   `_copy_const_env` builds a NEW dict with a NEW list object (`value[:]`) per tracked list.  The arms are parsed one after
   the other, in source order, in the same Python heap.  After the statement `_forget_names` rebinds, in the enclosing
   environment, every name some arm writes.

   This file models that with OBJECT IDENTITY: an environment maps names to object ids, a heap maps ids to list values,
   in-place mutation changes the heap, `_copy_const_env` allocates.  What the arms have in common is the heap - so that
   "arm k is folded from the snapshot in front of the statement, whatever the earlier arms did" is a theorem about the
   allocation discipline (Proofs/DListArmP.v), not a definition.  [c_arms_shared] is the same parser with the copy taken
   once per statement (every arm gets `dict(base)` of one deep copy): the variant the theorem excludes.

   Model only: no proofs here. *)
From Coq Require Import ZArith List Bool Arith.
From RV Require Import Device.DList Device.DListProg Device.DListLen.
Import ListNotations.

(* the statements of an arm (no declarations inside conditionals: DListLen.t_use_ok) *)
Inductive astmt : Type :=
| AApp (x : name) (v : Z)                    (* x.append(v), v a literal *)
| ARem (x : name) (v : Z)                    (* x.remove(v) *)
| AAppRt (x : name) (off : Z)                (* x.append(c0 + off), c0 read at run time *)
| ARemRt (x : name) (off : Z)
| ARead (x y : name) (sg : bool) (k : Z)     (* mon.write(x[len(y) + k]) / mon.write(x[k - len(y)]) *)
| AGet (x : name) (i : Z).                   (* mon.write(x[i]) *)

Definition to_t (s : astmt) : tstmt :=
  match s with
  | AApp x v => TAppend x (TConst v)
  | ARem x v => TRemove x (TConst v)
  | AAppRt x off => TAppend x (TRt off)
  | ARemRt x off => TRemove x (TRt off)
  | ARead x y sg k => TGetLen x y sg k
  | AGet x i => TGet x i
  end.

(* ------------------------------------------------------------------ value level: one arm alone, from a snapshot *)
(* the length len() is folded to in statement s (None: not a len() read, or emitted as the run-time __redu_len) *)
Definition v_fold (t : tenv) (s : astmt) : option nat :=
  match s with
  | ARead _ y _ _ => match t_cur t y with Some cur => Some (length cur) | None => None end
  | _ => None
  end.

Fixpoint v_lens (t : tenv) (a : list astmt) : list (option nat) :=
  match a with
  | [] => []
  | s :: r => v_fold t s :: v_lens (track1 false t (to_t s)) r
  end.

(* ------------------------------------------------------------------ object level: the parser's dict and heap *)
Record cenv : Type := mkce { ce_dom : list name; ce_ref : name -> option nat }.      (* vars: name -> list object *)
Record cheap : Type := mkch { ch_obj : nat -> option tcopy; ch_next : nat }.         (* the list objects; next fresh id *)

Definition c_cur (e : cenv) (h : cheap) (x : name) : option tcopy :=
  match ce_ref e x with Some r => ch_obj h r | None => None end.

Definition upd_obj (f : nat -> option tcopy) (r : nat) (c : option tcopy) : nat -> option tcopy :=
  fun r' => if Nat.eqb r' r then c else f r'.
Definition upd_ref (f : name -> option nat) (x : name) (r : option nat) : name -> option nat :=
  fun y => if Z.eqb y x then r else f y.

(* `current.append(v)` / `current.remove(v)`: the object changes, every dict that holds it sees the change *)
Definition c_mutate (e : cenv) (h : cheap) (x : name) (g : tcopy -> tcopy) : cheap :=
  match ce_ref e x with
  | Some r => match ch_obj h r with
              | Some cur => mkch (upd_obj (ch_obj h) r (Some (g cur))) (ch_next h)
              | None => h
              end
  | None => h
  end.

(* `vars[x] = _ExprStr(x)`: this dict only *)
Definition c_rebind (e : cenv) (x : name) : cenv := mkce (ce_dom e) (upd_ref (ce_ref e) x None).

Definition c_stmt (e : cenv) (h : cheap) (s : astmt) : cenv * cheap :=
  match s with
  | AApp x v => (e, c_mutate e h x (fun cur => cur ++ [Some v]))
  | ARem x v => (e, c_mutate e h x (fun cur => t_remove cur (Some v)))
  | AAppRt x _ | ARemRt x _ => (c_rebind e x, h)
  | ARead _ _ _ _ | AGet _ _ => (e, h)
  end.

Definition c_fold (e : cenv) (h : cheap) (s : astmt) : option nat :=
  match s with
  | ARead _ y _ _ => match c_cur e h y with Some cur => Some (length cur) | None => None end
  | _ => None
  end.

Fixpoint c_arm (e : cenv) (h : cheap) (a : list astmt) : cheap * list (option nat) :=
  match a with
  | [] => (h, [])
  | s :: r => let '(e1, h1) := c_stmt e h s in
              let '(h2, ls) := c_arm e1 h1 r in (h2, c_fold e h s :: ls)
  end.

(* _copy_const_env: a new dict; every tracked list gets a new object holding the value the old one has NOW *)
Fixpoint c_alloc (dom : list name) (val : name -> option tcopy) (acc : name -> option nat) (h : cheap) : (name -> option nat) * cheap :=
  match dom with
  | [] => (acc, h)
  | x :: r =>
      match val x with
      | Some cur => c_alloc r val (upd_ref acc x (Some (ch_next h))) (mkch (upd_obj (ch_obj h) (ch_next h) (Some cur)) (S (ch_next h)))
      | None => c_alloc r val acc h
      end
  end.

Definition c_copy (e : cenv) (h : cheap) : cenv * cheap :=
  let '(acc, h1) := c_alloc (ce_dom e) (c_cur e h) (fun _ => None) h in (mkce (ce_dom e) acc, h1).

(* `dict(base)`: a new dict holding the SAME objects *)
Definition c_shallow (e : cenv) : cenv := e.

(* the arms of one statement, in source order: each in `_branch_ctx()` = a deep copy of the snapshot [e] *)
Fixpoint c_arms (e : cenv) (h : cheap) (arms : list (list astmt)) : cheap * list (list (option nat)) :=
  match arms with
  | [] => (h, [])
  | a :: r => let '(e1, h1) := c_copy e h in
              let '(h2, ls) := c_arm e1 h1 a in
              let '(h3, lss) := c_arms e h2 r in (h3, ls :: lss)
  end.

(* the variant with ONE deep copy per statement, shared by the arms *)
Fixpoint c_arms_from (e1 : cenv) (h : cheap) (arms : list (list astmt)) : cheap * list (list (option nat)) :=
  match arms with
  | [] => (h, [])
  | a :: r => let '(h2, ls) := c_arm (c_shallow e1) h a in
              let '(h3, lss) := c_arms_from e1 h2 r in (h3, ls :: lss)
  end.
Definition c_arms_shared (e : cenv) (h : cheap) (arms : list (list astmt)) : cheap * list (list (option nat)) :=
  let '(e1, h1) := c_copy e h in c_arms_from e1 h1 arms.

(* the parser's state in front of the statement, built from the copies [t] of the enclosing block: one object per name *)
Definition c_load (t : tenv) : cenv * cheap :=
  let '(acc, h) := c_alloc (map fst t) (t_cur t) (fun _ => None) (mkch (fun _ => None) 0) in (mkce (map fst t) acc, h).

(* what the parser folds in the arms of `if` placed after the top-level statements [pre] *)
Definition arm_lens (pre : list tstmt) (arms : list (list astmt)) : list (list (option nat)) :=
  let '(e, h) := c_load (fst (track false [] [] (ungated pre))) in snd (c_arms e h arms).
Definition arm_lens_shared (pre : list tstmt) (arms : list (list astmt)) : list (list (option nat)) :=
  let '(e, h) := c_load (fst (track false [] [] (ungated pre))) in snd (c_arms_shared e h arms).

(* the straight-line program the run IS when arm k is the one taken: the statements in front, then those of the arm *)
Definition taken_path (pre : list tstmt) (arms : list (list astmt)) (k : nat) : list tstmt :=
  pre ++ map to_t (nth k arms []).

(* the names some arm writes: forgotten in the enclosing environment after the statement (_forget_names) *)
Definition arms_writes (arms : list (list astmt)) : list name :=
  flat_map (fun a => flat_map (fun s => swrites (to_t s)) a) arms.
Definition after_arms (t : tenv) (arms : list (list astmt)) : tenv := t_untrack (arms_writes arms) t.

(* top-level statements AFTER the if / try statement: folded against [after_arms] *)
Fixpoint post_lens (t : tenv) (ss : list tstmt) : list (option nat) :=
  match ss with
  | [] => []
  | s :: r =>
      match s with
      | TGetLen _ y _ _ => match t_cur t y with Some cur => Some (length cur) | None => None end
      | _ => None
      end :: post_lens (track1 false t s) r
  end.
Definition after_lens (pre : list tstmt) (arms : list (list astmt)) (post : list tstmt) : list (option nat) :=
  post_lens (after_arms (fst (track false [] [] (ungated pre))) arms) post.

(* ------------------------------------------------------------------ witnesses *)
Local Open Scope Z_scope.
(* l0 = [10, 20, 30]; l1 = [7, 8]
   if c0 > 2: l0.append(40); l1.append(9); l1.append(10); mon.write(l0[len(l0) - 1])
   elif c0 > 1: mon.write(l0[0])
   else: mon.write(l0[len(l0) - 1]); mon.write(l1[len(l1) - 1]) *)
Definition arms_pre : list tstmt := [TDeclLit 0 [10; 20; 30]; TDeclLit 1 [7; 8]].
Definition arms_demo : list (list astmt) :=
  [[AApp 0 40; AApp 1 9; AApp 1 10; ARead 0 0 true (-1)]; [AGet 0 0]; [ARead 0 0 true (-1); ARead 1 1 true (-1)]].
