(* C09 - the parser's PARSE-TIME COPY of every list and the transpile-time folding of len().

   parser.py keeps, for every list name bound to a literal, a Python list in its constant environment
   (`vars[name]`); `len(name)` is folded to the length of that copy (_to_c_expr/_literal_length) whenever the copy
   exists, and is emitted as the run-time `__redu_len(name)` otherwise.  The copy is updated while the script is
   parsed ONCE, top to bottom.  Since the repair of the stale-len findings (fix: constant environment) -
     x = [c1, .., cn]          copy := [c1, .., cn]
     x = [.. for ..]           no copy (an expression string)
     x.append(e)               e a parse-time constant: copy := copy ++ [v];  otherwise (a run-time scalar, any
                               subscript `y[i]`) the name LOSES its copy (it is a run-time value from here on)
     x.remove(e)               e constant and in the copy: its first occurrence is removed; e constant and not in
                               the copy: nothing; e not constant: the name loses its copy
     x = x   /   x1, .., xn = y1, .., yn     the targets lose their copy (bound to expression strings)
   A statement inside an `if` is parsed with a PRIVATE copy of the environment and of the tracked lists; after the
   `if` every name the statement writes loses its copy in the enclosing environment (_forget_names).
   Before the body of `while True:` is parsed, every name the body writes (at any depth) loses its copy: the body is
   parsed once and runs in every pass.
   A function body never folds a name the script binds or mutates at more than one site (ctx["_rebound_names"]).

   A list script of this layer: the statements of DListProg plus run-time scalar arguments `c + off` (c = the value
   read from a sensor at the top of every pass) and reads `x[len(y) + k]`, `x[k - len(y)]`.  The firmware run uses
   the FOLDED length, the CPython reference the length the list has at that moment.

   Model only: no proofs here. *)
From Coq Require Import ZArith List Bool Arith.
From RV Require Import Device.DList Device.DListProg.
Import ListNotations.

Inductive targ : Type :=
| TConst (v : Z)                 (* a literal *)
| TRt (off : Z)                  (* c + off, c read at run time *)
| TElem (y : name) (i : Z).      (* y[i] *)

Inductive tstmt : Type :=
| TDeclLit (x : name) (items : list Z)
| TDeclComp (x : name) (c : comp)
| TAppend (x : name) (a : targ)
| TRemove (x : name) (a : targ)
| TGet (x : name) (i : Z)                     (* mon.write(x[i]) *)
| TCallGet (x : name) (i : Z)                 (* r = f(x, i); mon.write(r) *)
| TGetLen (x y : name) (sg : bool) (k : Z)    (* mon.write(x[len(y) + k])  (sg)   /   mon.write(x[k - len(y)]) *)
| TSelf (x : name)                            (* x = x *)
| TPerm (xs ys : list name)                   (* x1, .., xn = y1, .., yn *)
| TCallLen (x p y : name) (sg : bool) (k : Z). (* r = h(x); mon.write(r)   with   def h(P): return P[len(Y) + k]  (sg)  /
                                                 return P[k - len(Y)],  defined right in front of `while True:` (one function per
                                                 (p, y, sg, k), possibly called at several places);  the parameter P
                                                 carries the list name p (it may SHADOW a global list of that name), Y is the
                                                 parameter itself (y = p) or the global list y *)

(* ------------------------------------------------------------------ the parse-time copies *)
Definition tcopy := list (option Z).             (* None = placeholder of a run-time value *)
Definition tenv := env (option tcopy).           (* None = the name is bound to an expression string *)

Definition t_cur (t : tenv) (x : name) : option tcopy :=
  match assoc x t with Some (Some cur) => Some cur | _ => None end.

Definition t_set (x : name) (v : option tcopy) (t : tenv) : tenv :=
  if has x t then set_assoc x v t else t ++ [(x, v)].

(* _eval_const of the argument: a literal is a constant; a run-time scalar is not; a SUBSCRIPT is not either
   (_eval_const does not evaluate `y[i]`, whatever the copy of y holds) *)
Definition targ_val (t : tenv) (a : targ) : option Z :=
  match a with
  | TConst v => Some v
  | TRt _ => None
  | TElem _ _ => None
  end.

Fixpoint t_remove_first (v : Z) (l : tcopy) : option tcopy :=
  match l with
  | [] => None
  | c :: r =>
      if match c with Some w => Z.eqb w v | None => false end then Some r
      else match t_remove_first v r with Some r' => Some (c :: r') | None => None end
  end.

Definition t_remove (cur : tcopy) (a : option Z) : tcopy :=
  match a with
  | Some v => match t_remove_first v cur with Some c => c | None => cur end
  | None => tl cur
  end.

Definition t_untrack (xs : list name) (t : tenv) : tenv := fold_left (fun t x => t_set x None t) xs t.

(* the names a statement binds or mutates (_written_names) *)
Definition swrites (s : tstmt) : list name :=
  match s with
  | TDeclLit x _ | TDeclComp x _ | TAppend x _ | TRemove x _ | TSelf x => [x]
  | TPerm xs _ => xs
  | TGet _ _ | TCallGet _ _ | TGetLen _ _ _ _ | TCallLen _ _ _ _ _ => []
  end.

(* one statement; [gated]: it is the body of an `if` - parsed on a private copy, what it writes is forgotten afterwards *)
Definition track1 (gated : bool) (t : tenv) (s : tstmt) : tenv :=
  if gated then t_untrack (swrites s) t else
  match s with
  | TDeclLit x items => t_set x (Some (map Some items)) t
  | TDeclComp x _ => t_set x None t
  | TAppend x a =>
      match t_cur t x, targ_val t a with
      | Some cur, Some v => t_set x (Some (cur ++ [Some v])) t
      | Some _, None => t_set x None t
      | None, _ => t
      end
  | TRemove x a =>
      match t_cur t x, targ_val t a with
      | Some cur, Some v => t_set x (Some (t_remove cur (Some v))) t
      | Some _, None => t_set x None t
      | None, _ => t
      end
  | TSelf x => t_set x None t
  | TPerm xs _ => t_untrack xs t
  | TGet _ _ | TCallGet _ _ | TGetLen _ _ _ _ | TCallLen _ _ _ _ _ => t
  end.

(* ------------------------------------------------------------------ function scope *)
(* _parse_function (parser.py 1585-1675): the body of a function is parsed in a context that starts as a copy of the
   constant environment of the place where it is parsed, in which every parameter name is OVERWRITTEN by a run-time
   placeholder (`child_ctx["vars"][arg.arg] = _ExprStr(arg.arg)`): a parameter shadows a global of the same name, a global
   that is not shadowed keeps its copy.  The variant for list arguments is parsed ON DEMAND (_ensure_function_variant,
   parser.py 927-960): at the FIRST call in source order whose argument types ask for it, with the environment [td] of that
   call site, and never again. *)
Definition fn_env (td : tenv) (params : list name) : tenv := t_untrack params td.

(* ctx["_rebound_names"]: the names with more than one binding / mutation site in the whole script; a function body is
   parsed with these forgotten (whichever call triggers the parse) *)
Definition sites (setup : list tstmt) (body : list (tstmt * option Z)) : list name :=
  flat_map swrites setup ++ flat_map (fun sg => swrites (fst sg)) body.
Definition rebound (setup : list tstmt) (body : list (tstmt * option Z)) : list name :=
  filter (fun x => (1 <? count_occ Z.eq_dec (sites setup body) x)%nat) (sites setup body).
(* the names the body of `while True:` writes: forgotten before the body is parsed *)
Definition body_writes (body : list (tstmt * option Z)) : list name := flat_map (fun sg => swrites (fst sg)) body.

Definition same_fn (a b : tstmt) : bool :=
  match a, b with
  | TCallLen _ p y sg k, TCallLen _ p' y' sg' k' => Z.eqb p p' && Z.eqb y y' && Bool.eqb sg sg' && Z.eqb k k'
  | _, _ => false
  end.

(* ------------------------------------------------------------------ programs *)
(* a statement with its gate (`if c > t:` in front of it; None = unconditional) *)
Definition gstmt : Type := (tstmt * option Z)%type.

Definition is_gated (g : option Z) : bool := match g with Some _ => true | None => false end.
Definition taken (g : option Z) (c : Z) : bool := match g with Some t => (t <? c)%Z | None => true end.

Definition len_index (sg : bool) (n k : Z) : Z := if sg then (n + k)%Z else (k - n)%Z.

(* the environment the function called by [s] was parsed in: the copies in front of its first call in the block *)
Fixpoint first_env (t : tenv) (ss : list gstmt) (s : tstmt) : tenv :=
  match ss with
  | [] => t
  | (s1, g) :: r => if same_fn s1 s then t else first_env (track1 (is_gated g) t s1) r s
  end.

(* the source statement of DListProg once the run-time pieces are known: [leny] = the value of len(y),
   [c] = the run-time scalar of this pass *)
Definition to_s (leny c : Z) (s : tstmt) : sstmt :=
  match s with
  | TDeclLit x items => SLit x items
  | TDeclComp x cm => SComp x cm
  | TAppend x (TConst v) => SAppend x v
  | TAppend x (TRt off) => SAppend x (c + off)
  | TAppend x (TElem y i) => SAppendRef x y i
  | TRemove x (TConst v) => SRemove x v
  | TRemove x (TRt off) => SRemove x (c + off)
  | TRemove x (TElem y i) => SRemoveRef x y i
  | TGet x i => SGet x i
  | TCallGet x i => SCallGet x i
  | TGetLen x _ sg k => SGet x (len_index sg leny k)
  | TSelf x => SVar x x
  | TPerm xs ys => STuple xs (map RVar ys)
  | TCallLen x _ _ sg k => SCallGet x (len_index sg leny k)
  end.

(* the list whose length CPython takes: for the call h(x) the argument x when Y is the parameter, else the global y *)
Definition len_name (s : tstmt) : name :=
  match s with
  | TGetLen _ y _ _ => y
  | TCallLen x p y _ _ => if Z.eqb y p then x else y
  | _ => 0%Z
  end.

(* the emitted form (parser's choice, DListProg.elab1) and the declared names afterwards *)
Definition t_lstmt (in_loop : bool) (decl : list name) (s : tstmt) (leny c : Z) : stmt :=
  fst (elab1 in_loop decl (to_s leny c s)).
Definition t_decl (in_loop : bool) (decl : list name) (s : tstmt) : list name :=
  snd (elab1 in_loop decl (to_s 0 0 s)).

Definition ungated (ss : list tstmt) : list gstmt := map (fun s => (s, None)) ss.

Fixpoint zip_gates (ss : list tstmt) (gs : list (option Z)) : list gstmt :=
  match ss, gs with
  | s :: sr, g :: gr => (s, g) :: zip_gates sr gr
  | s :: sr, [] => (s, None) :: zip_gates sr []
  | [], _ => []
  end.

(* what the parser knows after a block: the copies and the declared names (the block is parsed ONCE, whatever
   runs later) *)
Fixpoint track (in_loop : bool) (t : tenv) (decl : list name) (ss : list gstmt) : tenv * list name :=
  match ss with
  | [] => (t, decl)
  | (s, g) :: r => track in_loop (track1 (is_gated g) t s) (t_decl in_loop decl s) r
  end.

(* ------------------------------------------------------------------ firmware: folded len() *)
Definition f_len (t : tenv) (st : fstate) (y : name) : Z :=
  match t_cur t y with
  | Some cur => Z.of_nat (length cur)                   (* folded at transpile time *)
  | None => Z.of_nat (list_len (f_lookup st y))         (* __redu_len(y) *)
  end.

(* the value len() has in the statement: folded against the copies of the enclosing block, resp. - inside the function
   body - against the function's own environment (the copies in front of the function's first call, parameters unfolded) *)
Definition s_len (fe : tstmt -> tenv) (t : tenv) (st : fstate) (s : tstmt) : Z :=
  match s with
  | TCallLen x p y _ _ =>
      match t_cur (fn_env (fe s) [p]) y with
      | Some cur => Z.of_nat (length cur)
      | None => Z.of_nat (list_len (f_lookup st (if Z.eqb y p then x else y)))
      end
  | _ => f_len t st (len_name s)
  end.

(* executing a block: [t], [decl] = the parser's knowledge in front of each statement (the same in every pass);
   [fe] = for a call, the copies in front of the first call of the same function *)
Fixpoint tf_block (in_loop : bool) (c : Z) (fe : tstmt -> tenv) (t : tenv) (decl : list name) (st : fstate) (ss : list gstmt)
  : res (fstate * list Z) :=
  match ss with
  | [] => Safe (st, [])
  | (s, g) :: r =>
      let t1 := track1 (is_gated g) t s in
      let d1 := t_decl in_loop decl s in
      if taken g c then
        do x <- f_exec in_loop st (t_lstmt in_loop decl s (s_len fe t st s) c);
        let '(st1, o1) := x in
        do y <- tf_block in_loop c fe t1 d1 st1 r; let '(st2, o2) := y in
        Safe (st2, o1 ++ o2)
      else tf_block in_loop c fe t1 d1 st r
  end.

(* the environment the function called by [s] is parsed in: the copies in front of its first call, minus the rebound names *)
Definition fn_first (rb : list name) (t : tenv) (body : list gstmt) (s : tstmt) : tenv := t_untrack rb (first_env t body s).

Definition tf_pass (rb : list name) (c : Z) (t : tenv) (decl : list name) (body : list gstmt) (st : fstate) : res (fstate * list Z) :=
  do a <- tf_block true c (fn_first rb t body) t decl st body; let '(st1, o) := a in
  Safe (mkf (f_heap st1) (f_glob st1) [], o).

Fixpoint tf_passes (rb : list name) (t : tenv) (decl : list name) (body : list gstmt) (st : fstate) (cs : list Z) : res fstate :=
  match cs with
  | [] => Safe st
  | c :: r => do a <- tf_pass rb c t decl body st; tf_passes rb t decl body (fst a) r
  end.

(* the copies the body of `while True:` is parsed with: those of the end of setup(), minus what the body writes *)
Definition loop_env (t0 : tenv) (body : list gstmt) : tenv := t_untrack (body_writes body) t0.

(* setup() then one pass of loop() per run-time value *)
Definition run_fw_t (setup : list tstmt) (body : list gstmt) (cs : list Z) : res fstate :=
  let '(t0, d0) := track false [] [] (ungated setup) in
  do a <- tf_block false 0 (fun _ => []) [] [] f_init (ungated setup);
  tf_passes (rebound setup body) (loop_env t0 body) d0 body (fst a) cs.

(* ------------------------------------------------------------------ CPython: len() of the list as it is *)
Definition p_len (pst : pstate) (y : name) : pres Z :=
  pdo o <- p_ref pst y; POk (Z.of_nat (length (p_obj pst o))).

Definition needs_len (s : tstmt) : bool :=
  match s with TGetLen _ _ _ _ | TCallLen _ _ _ _ _ => true | _ => false end.

Definition tp_stmt (in_loop : bool) (c : Z) (decl : list name) (pst : pstate) (s : tstmt) : pres stmt :=
  if needs_len s
  then pdo n <- p_len pst (len_name s); POk (t_lstmt in_loop decl s n c)
  else POk (t_lstmt in_loop decl s 0 c).

Fixpoint tp_block (in_loop : bool) (c : Z) (decl : list name) (pst : pstate) (ss : list gstmt)
  : pres (pstate * list Z) :=
  match ss with
  | [] => POk (pst, [])
  | (s, g) :: r =>
      let d1 := t_decl in_loop decl s in
      if taken g c then
        pdo l <- tp_stmt in_loop c decl pst s;
        pdo x <- p_exec in_loop pst l; let '(p1, o1) := x in
        pdo y <- tp_block in_loop c d1 p1 r; let '(p2, o2) := y in
        POk (p2, o1 ++ o2)
      else tp_block in_loop c d1 pst r
  end.

Fixpoint tp_passes (decl : list name) (body : list gstmt) (pst : pstate) (cs : list Z) : pres pstate :=
  match cs with
  | [] => POk pst
  | c :: r => pdo a <- tp_block true c decl pst body; tp_passes decl body (fst a) r
  end.

Definition run_py_t (setup : list tstmt) (body : list gstmt) (cs : list Z) : pres pstate :=
  let '(_, d0) := track false [] [] (ungated setup) in
  pdo a <- tp_block false 0 [] p_init (ungated setup); tp_passes d0 body (fst a) cs.

(* ------------------------------------------------------------------ the guard *)
(* [len_ok]: the single-owner shapes of DListProg (declarations before the loop under fresh names, then append /
   remove / reads / `x = x` / permutations - since the repair also under run-time conditions), and three clauses the
   repaired parser satisfies by construction; they are kept as CHECKED clauses (evaluated by the extracted model on
   every generated program, never observed false) because the theorem is proved from them:
   - every remove whose argument is a parse-time constant finds that constant in the copy (else CPython raises),
   - the copies the loop body is parsed with have the same lengths at the end of the body (only names the body does
     not write have one),
   - a global list a function body folds has, at every call, a copy of the length it had at the first call. *)
Definition is_read (s : tstmt) : bool :=
  match s with TGet _ _ | TCallGet _ _ | TGetLen _ _ _ _ | TCallLen _ _ _ _ _ => true | _ => false end.

Definition is_decl (s : tstmt) : bool :=
  match s with TDeclLit _ _ | TDeclComp _ _ => true | _ => false end.

Definition remove_hits (t : tenv) (s : tstmt) : bool :=
  match s with
  | TRemove x arg =>
      match t_cur t x, targ_val t arg with
      | Some cur, Some v => match t_remove_first v cur with Some _ => true | None => false end
      | _, _ => true
      end
  | _ => true
  end.

Definition mem (x : name) (l : list name) : bool := existsb (Z.eqb x) l.

(* a global list read by len() inside a function body: the length folded at the function's first call is the length of the
   copy at this call *)
Definition fold_agrees (td t : tenv) (y : name) : bool :=
  match t_cur td y with
  | None => true
  | Some c0 => match t_cur t y with Some c1 => length c1 =? length c0 | None => false end
  end.

Definition is_call_len (s : tstmt) : bool := match s with TCallLen _ _ _ _ _ => true | _ => false end.

Definition t_use_ok (fe : tstmt -> tenv) (decl : list name) (t : tenv) (sg : gstmt) : bool :=
  let '(s, g) := sg in
  negb (is_decl s) && use_ok decl (t_lstmt true decl s 0 0) &&
  (is_gated g || remove_hits t s) &&
  match s with
  | TGetLen _ y _ _ => mem y decl
  | TCallLen _ p y _ _ => Z.eqb y p || (mem y decl && fold_agrees (fe s) t y)
  | _ => true
  end.

Fixpoint t_setup_ok (t : tenv) (decl : list name) (ss : list gstmt) : bool :=
  match ss with
  | [] => true
  | (s, g) :: r =>
      (match s with
       | TDeclLit x _ | TDeclComp x _ => negb (mem x decl) && negb (is_gated g)
       | _ => t_use_ok (fun _ => []) decl t (s, g) && negb (is_gated g) && negb (is_call_len s)    (* no call in front of the `def` *)
       end) && t_setup_ok (track1 (is_gated g) t s) (t_decl false decl s) r
  end.

Fixpoint t_body_ok (fe : tstmt -> tenv) (t : tenv) (decl : list name) (ss : list gstmt) : bool :=
  match ss with
  | [] => true
  | (s, g) :: r => t_use_ok fe decl t (s, g) && t_body_ok fe (track1 (is_gated g) t s) decl r
  end.

Definition t_compat (t0 t1 : tenv) : bool :=
  forallb (fun xv => match snd xv with
                     | Some cur => match t_cur t1 (fst xv) with
                                   | Some c1 => length c1 =? length cur
                                   | None => false
                                   end
                     | None => true
                     end) t0.

Definition len_ok (setup : list tstmt) (body : list gstmt) : bool :=
  let '(t0, d0) := track false [] [] (ungated setup) in
  let t1 := loop_env t0 body in
  t_setup_ok [] [] (ungated setup) && t_body_ok (fn_first (rebound setup body) t1 body) t1 d0 body &&
  t_compat t1 (fst (track true t1 d0 body)).

(* ------------------------------------------------------------------ witnesses *)
Local Open Scope Z_scope.
(* a = [1, 2, 3]   while True: (if c > 5: a.append(9));  mon.write(a[len(a) - 1]);  (if c > 5: a.remove(9))
   (finding F-C09-stale-len-out-of-bounds, repaired: a is written in the body, len(a) is read at run time) *)
Definition stale_branch_setup : list tstmt := [TDeclLit 0 [1; 2; 3]%Z].
Definition stale_branch_body : list gstmt :=
  [(TAppend 0 (TConst 9), Some 5%Z); (TGetLen 0 0 true (-1), None); (TRemove 0 (TConst 9), Some 5%Z)].

(* a = [1, 2, 3, 4, 5]   while True: a.remove(a[0]); mon.write(a[len(a) - 1])
   (finding F-C09-stale-len-later-pass-out-of-bounds, repaired) *)
Definition stale_pass_setup : list tstmt := [TDeclLit 0 [1; 2; 3; 4; 5]%Z].
Definition stale_pass_body : list gstmt := ungated [TRemove 0 (TElem 0 0); TGetLen 0 0 true (-1)].

(* a = [1, 2, 3]; b = [4]   while True: (if c > 0: a, b = b, a); mon.write(a[len(a) - 1])
   (finding F-C09-stale-len-rebind-in-branch-out-of-bounds, repaired) *)
Definition stale_rebind_setup : list tstmt := [TDeclLit 0 [1; 2; 3]%Z; TDeclLit 1 [4]%Z].
Definition stale_rebind_body : list gstmt := [(TPerm [0; 1] [1; 0]%Z, Some 0%Z); (TGetLen 0 0 true (-1), None)].

(* a = [1, 2, 3]   while True: a.remove(c); a.remove(1); mon.write(a[len(a) - 1]); a.append(1); a.append(c)
   (finding F-C09-stale-len-runtime-remove-pops-first-out-of-bounds, repaired) *)
Definition stale_pop_setup : list tstmt := [TDeclLit 0 [1; 2; 3]%Z].
Definition stale_pop_body : list gstmt :=
  ungated [TRemove 0 (TRt 0); TRemove 0 (TConst 1); TGetLen 0 0 true (-1); TAppend 0 (TConst 1); TAppend 0 (TRt 0)].

(* inside the guard: a rotation by a run-time value and by an own element, reads through len() of the same and of
   another list (positive and negative form), a comprehension list (run-time len), a gated read *)
Definition len_ok_setup : list tstmt :=
  [TDeclLit 0 [1; 2; 3]%Z; TDeclComp 1 (mkcomp 0 2 1 1 0); TAppend 0 (TElem 1 0)].
Definition len_ok_body : list gstmt :=
  zip_gates [TRemove 0 (TRt 0); TAppend 0 (TRt 0); TGetLen 0 0 true (-1); TGetLen 0 0 false 0;
             TAppend 0 (TElem 0 0); TGetLen 0 1 true 0; TRemove 0 (TElem 0 (-1)); TGetLen 1 1 true (-2)]
            [None; None; None; Some 1%Z].

(* a = [1, 2, 3];  def h(P): return P[len(a) - 1]
   while True: r = h(a); mon.write(r); a.remove(c); r = h(a); mon.write(r); a.append(c)   c = 2
   (finding F-C09-stale-len-function-first-call-out-of-bounds, repaired: a has more than one write site) *)
Definition stale_def_setup : list tstmt := [TDeclLit 0 [1; 2; 3]%Z].
Definition stale_def_body : list gstmt :=
  ungated [TCallLen 0 5 0 true (-1); TRemove 0 (TRt 0); TCallLen 0 5 0 true (-1); TAppend 0 (TRt 0)].

(* inside the guard: the parameter carries the name of the global list a = [1, 2, 3] and the function is called with
   the shorter list b = [7]: len(P) is the run-time length of the ARGUMENT (1), not the length of a's copy (3) *)
Definition shadow_ok_setup : list tstmt := [TDeclLit 0 [1; 2; 3]%Z; TDeclLit 1 [7]%Z].
Definition shadow_ok_body : list gstmt :=
  ungated [TCallLen 1 0 0 true (-1); TCallLen 0 0 0 false 0; TCallLen 1 1 0 true (-3); TCallLen 0 7 7 true (-1)].
