(* C09 - straight-line list programs: what the transpiler emits for each Python statement
   (parser.py _handle_assignment_ast / emit(), probed on the real emitter), the firmware
   run over setup() and N passes of loop(), and the CPython reference semantics of the same
   statements (lists are objects, names are references).

   Model only: no proofs here. *)
From Coq Require Import ZArith List Bool Arith.
From RV Require Import Device.DList.
Import ListNotations.

Definition name := Z.

(* [i * ca + cb for i in range(start, stop, step)] *)
Record comp : Type := mkcomp { c_start : Z; c_stop : Z; c_step : Z; c_mul : Z; c_add : Z }.
Definition comp_fun (c : comp) (i : Z) : Z := (i * c_mul c + c_add c)%Z.

(* one right-hand side of a tuple assignment: a list name or a list literal *)
Inductive rhs : Type := RVar (y : name) | RLit (items : list Z).

Inductive stmt : Type :=
| LDeclLit (x : name) (items : list Z)      (* first `x = [..]` before the main loop: global with initialiser *)
| LDeclComp (x : name) (c : comp)           (* first `x = [.. for ..]` before the loop: global, `x = from_range(..);` in setup *)
| LAssignLit (x : name) (items : list Z)    (* `x = [..]`, x declared: __redu_list_assign(x, __redu_make_list<T>(..)); *)
| LAssignComp (x : name) (c : comp)         (* `x = [.. for ..]`, x declared: __redu_list_assign(x, from_range(..)); *)
| LAssignVar (x y : name)                   (* `x = y`: x declared -> __redu_list_assign(x, y);  else  __redu_list<T> x = y; *)
| LAppend (x : name) (v : Z)
| LRemove (x : name) (v : Z)
| LGet (x : name) (i : Z)                   (* mon.write(x[i]) *)
| LSet (x : name) (i : Z) (v : Z)           (* __redu_list_get(x, i) = v : a store through the T& overload; the current
                                               parser drops `x[i] = v` lines (C07), so no source statement elaborates to it *)
| LLocalDeclLit (x : name) (items : list Z) (* first `x = [..]` inside the main loop: local of loop() *)
| LLocalDeclComp (x : name) (c : comp)      (* first `x = [.. for ..]` inside the loop *)
| LCallGet (x : name) (i : Z)               (* r = f(x, i) with  def f(xs, k): return xs[k]   (by-value parameter) *)
| LCallAppend (x : name) (v : Z)            (* r = g(x, v) with  def g(xs, v): xs.append(v); return xs[0] *)
| LAppendRef (x y : name) (i : Z)           (* x.append(y[i]): __redu_list_append(x, __redu_list_get(y, i)) - `value` is a
                                               reference into y's buffer; y may be x *)
| LRemoveRef (x y : name) (i : Z)           (* x.remove(y[i]) *)
| LTuple (xs : list name) (rs : list rhs)   (* x1, .., xn = r1, .., rn : the parser emits declarations of temporaries
                                               __redu_list<T> __tmp_assign_k = r_k; (left to right; copy constructor), then the
                                               assignments x_k = __tmp_assign_k; (copy assignment); the temporaries are
                                               destroyed at the closing brace: [tuple_block] (parser.py _handle_assignment_ast) *)
| LAssignRet (x y : name)                   (* x = ident(y) with  def ident(xs): return xs  - x declared:
                                               __redu_list_assign(x, ident(y)), the source is a temporary that owns a deep
                                               copy of y;  else  x = ident(y); adopts it *)
| LDrop (x : name).                         (* the C++ variable x goes out of scope: ~__redu_list().  No source statement; the
                                               last step of a tuple assignment (its __tmp_assign_k temporaries) *)

(* ------------------------------------------------------------------ environments *)
Definition env (A : Type) := list (name * A).

Fixpoint assoc {A : Type} (x : name) (e : env A) : option A :=
  match e with
  | [] => None
  | (y, a) :: r => if Z.eqb x y then Some a else assoc x r
  end.

Fixpoint set_assoc {A : Type} (x : name) (a : A) (e : env A) : env A :=
  match e with
  | [] => []
  | (y, b) :: r => if Z.eqb x y then (y, a) :: r else (y, b) :: set_assoc x a r
  end.

Definition has {A : Type} (x : name) (e : env A) : bool :=
  match assoc x e with Some _ => true | None => false end.

(* ------------------------------------------------------------------ firmware state *)
Record fstate : Type := mkf { f_heap : heap; f_glob : env lval; f_loc : env lval }.

Definition f_init : fstate := mkf [] [] [].

Definition f_declared (st : fstate) (x : name) : bool := has x (f_loc st) || has x (f_glob st).

(* an undeclared name reads as a default-constructed (null) list; never generated *)
Definition f_lookup (st : fstate) (x : name) : lval :=
  match assoc x (f_loc st) with
  | Some l => l
  | None => match assoc x (f_glob st) with Some l => l | None => null_list end
  end.

(* store into an existing variable *)
Definition f_store (st : fstate) (h : heap) (x : name) (l : lval) : fstate :=
  if has x (f_loc st) then mkf h (f_glob st) (set_assoc x l (f_loc st))
  else mkf h (set_assoc x l (f_glob st)) (f_loc st).

(* declare a new variable: global in setup scope, local of loop() in loop scope *)
Definition f_declare (in_loop : bool) (st : fstate) (h : heap) (x : name) (l : lval) : fstate :=
  if in_loop then mkf h (f_glob st) (f_loc st ++ [(x, l)])
  else mkf h (f_glob st ++ [(x, l)]) (f_loc st).

Definition comp_list (h : heap) (c : comp) : res (heap * lval) :=
  list_from_range h (c_start c) (c_stop c) (c_step c) (comp_fun c).

(* remove a variable from an environment (a temporary going out of scope) *)
Fixpoint env_remove {A : Type} (x : name) (e : env A) : env A :=
  match e with
  | [] => []
  | (y, a) :: r => if Z.eqb x y then r else (y, a) :: env_remove x r
  end.

(* __tmp_assign_k : the temporaries of a tuple assignment are named C++ variables; script names are >= 0 *)
Definition tmp_name (k : nat) : name := (- 1 - Z.of_nat k)%Z.

(* what the parser emits for x1, .., xn = r1, .., rn *)
Fixpoint tuple_tmps (k : nat) (rs : list rhs) : list stmt :=
  match rs with
  | [] => []
  | RVar y :: r => LAssignVar (tmp_name k) y :: tuple_tmps (S k) r       (* __redu_list<T> __tmp_assign_k = y;  *)
  | RLit items :: r => LDeclLit (tmp_name k) items :: tuple_tmps (S k) r (* __redu_list<T> __tmp_assign_k = __redu_make_list<T>(..); *)
  end.

Fixpoint tuple_stores (k : nat) (xs : list name) : list stmt :=
  match xs with
  | [] => []
  | x :: r => LAssignVar x (tmp_name k) :: tuple_stores (S k) r           (* x = __tmp_assign_k; *)
  end.

Fixpoint tuple_drops (k n : nat) : list stmt :=
  match n with
  | O => []
  | S n' => LDrop (tmp_name k) :: tuple_drops (S k) n'
  end.

Definition tuple_block (xs : list name) (rs : list rhs) : list stmt :=
  tuple_tmps 0 rs ++ tuple_stores 0 xs ++ tuple_drops 0 (length rs).

(* one statement; the second component is what it prints.  Since the main-loop variables are globals
   (Reduino 69cce40) every list name is a global; [in_loop] no longer changes where a name lives. *)
Definition f_exec1 (in_loop : bool) (st : fstate) (s : stmt) : res (fstate * list Z) :=
  let h := f_heap st in
  match s with
  | LDeclLit x items =>
      do r <- list_make h items; let '(h1, l) := r in
      Safe (f_declare false st h1 x l, [])
  | LDeclComp x c =>
      do r <- comp_list h c; let '(h1, l) := r in
      Safe (f_declare false st h1 x l, [])          (* x = <returned temporary>: the buffer is adopted *)
  | LLocalDeclLit x items =>
      (* global `__redu_list<T> x;` + `x = __redu_make_list<T>(..);` in every pass: move assignment *)
      do r <- list_make h items; let '(h1, tmp) := r in
      do r2 <- list_move_assign h1 (f_lookup st x) tmp; let '(h2, l) := r2 in
      Safe ((if f_declared st x then f_store st h2 x l else f_declare false st h2 x l), [])
  | LLocalDeclComp x c =>
      do r <- comp_list h c; let '(h1, tmp) := r in
      do r2 <- list_move_assign h1 (f_lookup st x) tmp; let '(h2, l) := r2 in
      Safe ((if f_declared st x then f_store st h2 x l else f_declare false st h2 x l), [])
  | LAssignLit _ _ | LAssignComp _ _ | LCallAppend _ _ | LTuple _ _ =>
      Safe (st, [])                                 (* compound: see [desugar] / [f_exec] *)
  | LAssignVar x y =>
      if f_declared st x then
        do r <- list_assign h (f_lookup st x) (f_lookup st y) (Z.eqb x y); let '(h1, l) := r in
        Safe (f_store st h1 x l, [])
      else
        (* `x = y;` into the freshly declared (empty) global x: a deep copy *)
        do r <- list_copy h (f_lookup st y); let '(h1, l) := r in
        Safe (f_declare false st h1 x l, [])
  | LAppend x v =>
      do r <- list_append h (f_lookup st x) v; let '(h1, l) := r in
      Safe (f_store st h1 x l, [])
  | LRemove x v =>
      do r <- list_remove h (f_lookup st x) v; let '(h1, l) := r in
      Safe (f_store st h1 x l, [])
  | LGet x i =>
      do v <- list_get h (f_lookup st x) i;
      Safe (st, [v])
  | LSet x i v =>
      do h1 <- list_set h (f_lookup st x) i v;
      Safe (mkf h1 (f_glob st) (f_loc st), [])
  | LCallGet x i =>
      (* the by-value parameter is a deep copy the callee destroys at its return; the callee only reads it, the copy
         holds the cells of x: the model reads them where they are (allocation and release of the copy cancel) *)
      let xs := f_lookup st x in
      do v <- list_get h xs i;
      Safe (st, [v])
  | LAppendRef x y i =>
      do r <- list_append_a h (f_lookup st x) (ARef (f_lookup st y) i); let '(h1, l) := r in
      Safe (f_store st h1 x l, [])
  | LRemoveRef x y i =>
      do r <- list_remove_a h (f_lookup st x) (ARef (f_lookup st y) i); let '(h1, l) := r in
      Safe (f_store st h1 x l, [])
  | LAssignRet x y =>
      (* ident(y): the parameter is a deep copy of y, the result is moved out of it into a temporary that
         __redu_list_assign copies once more and that is destroyed at the end of the statement; allocation and release of
         that temporary cancel and it holds the cells of y: the model copies them from where they are.  The source is
         never the same C++ object as x (same = false), also for x = ident(x) *)
      if f_declared st x then
        do r <- list_assign h (f_lookup st x) (f_lookup st y) false; let '(h1, l) := r in
        Safe (f_store st h1 x l, [])
      else
        do r <- list_copy h (f_lookup st y); let '(h1, l) := r in
        Safe (f_declare false st h1 x l, [])
  | LDrop x =>
      do h1 <- list_destroy h (f_lookup st x);
      Safe (mkf h1 (env_remove x (f_glob st)) (f_loc st), [])
  end.

Fixpoint f_block1 (in_loop : bool) (st : fstate) (ss : list stmt) : res (fstate * list Z) :=
  match ss with
  | [] => Safe (st, [])
  | s :: r =>
      do a <- f_exec1 in_loop st s; let '(st1, o1) := a in
      do b <- f_block1 in_loop st1 r; let '(st2, o2) := b in
      Safe (st2, o1 ++ o2)
  end.

(* Statements that involve a C++ temporary or a by-value parameter run as the block of simple statements the compiler
   makes of them - every temporary / parameter is a (named) variable with a copy constructor and a destructor:
     x = [..]  (x declared)   __redu_list_assign(x, __redu_make_list<T>(..)):  T t = make(..); x = t; ~t
     x = [.. for ..]          likewise
     r = g(x, v)              def g(xs, v): xs.append(v); return xs[0]  -  T xs = x; xs.append(v); xs[0]; ~xs
     x1, .., xn = r1, .., rn  [tuple_block] *)
Definition desugar (s : stmt) : option (list stmt) :=
  let t := tmp_name 0 in
  match s with
  | LAssignLit x items => Some [LDeclLit t items; LAssignVar x t; LDrop t]
  | LAssignComp x c => Some [LDeclComp t c; LAssignVar x t; LDrop t]
  | LCallAppend x v => Some [LAssignVar t x; LAppend t v; LGet t 0; LDrop t]
  | LTuple xs rs => Some (tuple_block xs rs)
  | _ => None
  end.

Definition f_exec (in_loop : bool) (st : fstate) (s : stmt) : res (fstate * list Z) :=
  match desugar s with
  | Some b => f_block1 in_loop st b
  | None => f_exec1 in_loop st s
  end.

Fixpoint f_block (in_loop : bool) (st : fstate) (ss : list stmt) : res (fstate * list Z) :=
  match ss with
  | [] => Safe (st, [])
  | s :: r =>
      do a <- f_exec in_loop st s; let '(st1, o1) := a in
      do b <- f_block in_loop st1 r; let '(st2, o2) := b in
      Safe (st2, o1 ++ o2)
  end.

Definition run_setup (setup : list stmt) : res (fstate * list Z) := f_block false f_init setup.

(* one pass of loop(): no list is a local of loop() any more ([f_loc] stays empty) *)
Definition run_pass (body : list stmt) (st : fstate) : res (fstate * list Z) :=
  do a <- f_block true st body; let '(st1, o) := a in
  Safe (mkf (f_heap st1) (f_glob st1) [], o).

Fixpoint run_passes (body : list stmt) (st : fstate) (n : nat) : res fstate :=
  match n with
  | O => Safe st
  | S n' => do a <- run_pass body st; run_passes body (fst a) n'
  end.

Definition run_fw (setup body : list stmt) (n : nat) : res fstate :=
  do a <- run_setup setup; run_passes body (fst a) n.

Definition f_live_blocks (st : fstate) : nat := live_blocks (f_heap st).
Definition f_live_cells (st : fstate) : nat := live_cells (f_heap st).

(* ------------------------------------------------------------------ CPython reference *)
Inductive pyexc : Type := IndexError | ValueError | NameError.
Inductive pres (A : Type) : Type := POk (a : A) | PRaise (e : pyexc).
Arguments POk {A} a.
Arguments PRaise {A} e.
Definition pbind {A B : Type} (r : pres A) (f : A -> pres B) : pres B :=
  match r with POk a => f a | PRaise e => PRaise e end.
Notation "'pdo' x <- r ; k" := (pbind r (fun x => k))
  (at level 200, x pattern, r at level 100, k at level 200, right associativity).

(* objects are never collected in the reference; liveness = reachability from a name *)
Record pstate : Type := mkp { p_objs : list (list Z); p_glob : env nat; p_loc : env nat }.
Definition p_init : pstate := mkp [] [] [].

Definition p_ref (st : pstate) (x : name) : pres nat :=
  match assoc x (p_loc st) with
  | Some o => POk o
  | None => match assoc x (p_glob st) with Some o => POk o | None => PRaise NameError end
  end.

Definition p_obj (st : pstate) (o : nat) : list Z := nth o (p_objs st) [].

Definition p_bind (in_loop : bool) (st : pstate) (objs : list (list Z)) (x : name) (o : nat) : pstate :=
  if has x (p_loc st) then mkp objs (p_glob st) (set_assoc x o (p_loc st))
  else if has x (p_glob st) then mkp objs (set_assoc x o (p_glob st)) (p_loc st)
  else if in_loop then mkp objs (p_glob st) (p_loc st ++ [(x, o)])
  else mkp objs (p_glob st ++ [(x, o)]) (p_loc st).

Definition p_new (in_loop : bool) (st : pstate) (x : name) (cs : list Z) : pstate :=
  p_bind in_loop st (p_objs st ++ [cs]) x (length (p_objs st)).

(* x[i]: -len <= i < len, else IndexError *)
Definition py_index (n : nat) (i : Z) : option nat :=
  if ((- Z.of_nat n <=? i) && (i <? Z.of_nat n))%Z
  then Some (Z.to_nat (if (i <? 0)%Z then i + Z.of_nat n else i)%Z)
  else None.

Fixpoint remove_first (v : Z) (l : list Z) : option (list Z) :=
  match l with
  | [] => None
  | c :: r => if Z.eqb c v then Some r
              else match remove_first v r with Some r' => Some (c :: r') | None => None end
  end.

Definition py_range (c : comp) : list Z :=
  map (comp_fun c) (range_vals (c_start c) (c_step c) (range_count (c_start c) (c_stop c) (c_step c))).

(* the values of a tuple's right-hand sides, left to right (a literal is a new object) *)
Fixpoint p_rhs (st : pstate) (objs : list (list Z)) (rs : list rhs) : pres (list (list Z) * list nat) :=
  match rs with
  | [] => POk (objs, [])
  | RVar y :: r =>
      pdo o <- p_ref st y; pdo a <- p_rhs st objs r; let '(ob1, os) := a in POk (ob1, o :: os)
  | RLit items :: r =>
      pdo a <- p_rhs st (objs ++ [items]) r; let '(ob1, os) := a in POk (ob1, length objs :: os)
  end.

Fixpoint p_tuple_bind (in_loop : bool) (st : pstate) (xs : list name) (os : list nat) : pstate :=
  match xs, os with
  | x :: xr, o :: orr => p_tuple_bind in_loop (p_bind in_loop st (p_objs st) x o) xr orr
  | _, _ => st
  end.

Definition p_exec (in_loop : bool) (st : pstate) (s : stmt) : pres (pstate * list Z) :=
  match s with
  | LDeclLit x items | LAssignLit x items | LLocalDeclLit x items => POk (p_new in_loop st x items, [])
  | LDeclComp x c | LAssignComp x c | LLocalDeclComp x c =>
      if (c_step c =? 0)%Z then PRaise ValueError else POk (p_new in_loop st x (py_range c), [])
  | LAssignVar x y | LAssignRet x y =>
      pdo o <- p_ref st y; POk (p_bind in_loop st (p_objs st) x o, [])
  | LAppendRef x y i =>
      pdo o <- p_ref st x; pdo oy <- p_ref st y;
      match py_index (length (p_obj st oy)) i with
      | Some k => POk (mkp (upd (p_objs st) o (p_obj st o ++ [nth k (p_obj st oy) 0%Z])) (p_glob st) (p_loc st), [])
      | None => PRaise IndexError
      end
  | LRemoveRef x y i =>
      pdo o <- p_ref st x; pdo oy <- p_ref st y;
      match py_index (length (p_obj st oy)) i with
      | Some k =>
          match remove_first (nth k (p_obj st oy) 0%Z) (p_obj st o) with
          | Some cs => POk (mkp (upd (p_objs st) o cs) (p_glob st) (p_loc st), [])
          | None => PRaise ValueError
          end
      | None => PRaise IndexError
      end
  | LTuple xs rs =>
      pdo a <- p_rhs st (p_objs st) rs; let '(ob1, os) := a in
      if length xs =? length os
      then POk (p_tuple_bind in_loop (mkp ob1 (p_glob st) (p_loc st)) xs os, [])
      else PRaise ValueError
  | LAppend x v =>
      pdo o <- p_ref st x;
      POk (mkp (upd (p_objs st) o (p_obj st o ++ [v])) (p_glob st) (p_loc st), [])
  | LRemove x v =>
      pdo o <- p_ref st x;
      match remove_first v (p_obj st o) with
      | Some cs => POk (mkp (upd (p_objs st) o cs) (p_glob st) (p_loc st), [])
      | None => PRaise ValueError
      end
  | LGet x i | LCallGet x i =>
      pdo o <- p_ref st x;
      match py_index (length (p_obj st o)) i with
      | Some k => POk (st, [nth k (p_obj st o) 0%Z])
      | None => PRaise IndexError
      end
  | LSet x i v =>
      pdo o <- p_ref st x;
      match py_index (length (p_obj st o)) i with
      | Some k => POk (mkp (upd (p_objs st) o (upd (p_obj st o) k v)) (p_glob st) (p_loc st), [])
      | None => PRaise IndexError
      end
  | LCallAppend x v =>
      pdo o <- p_ref st x;
      let cs := p_obj st o ++ [v] in
      POk (mkp (upd (p_objs st) o cs) (p_glob st) (p_loc st), [nth 0 cs 0%Z])
  | LDrop _ => POk (st, [])                       (* no source statement *)
  end.

Fixpoint p_block (in_loop : bool) (st : pstate) (ss : list stmt) : pres (pstate * list Z) :=
  match ss with
  | [] => POk (st, [])
  | s :: r =>
      pdo a <- p_exec in_loop st s; let '(st1, o1) := a in
      pdo b <- p_block in_loop st1 r; let '(st2, o2) := b in
      POk (st2, o1 ++ o2)
  end.

Definition py_setup (setup : list stmt) : pres (pstate * list Z) := p_block false p_init setup.

(* a script is one module: names first bound inside `while True:` stay bound afterwards
   ([p_loc] only separates them from the names bound before the loop) *)
Definition py_pass (body : list stmt) (st : pstate) : pres (pstate * list Z) :=
  p_block true st body.

Fixpoint py_passes (body : list stmt) (st : pstate) (n : nat) : pres pstate :=
  match n with
  | O => POk st
  | S n' => pdo a <- py_pass body st; py_passes body (fst a) n'
  end.

Definition run_py (setup body : list stmt) (n : nat) : pres pstate :=
  pdo a <- py_setup setup; py_passes body (fst a) n.

(* amount of live data: total length of the distinct objects reachable from a name *)
Fixpoint nodup_nat (l : list nat) : list nat :=
  match l with
  | [] => []
  | a :: r => if existsb (Nat.eqb a) r then nodup_nat r else a :: nodup_nat r
  end.

Definition p_live (st : pstate) : nat :=
  fold_right (fun o acc => length (p_obj st o) + acc) 0
             (nodup_nat (map snd (p_glob st ++ p_loc st))).

(* ------------------------------------------------------------------ the guard *)
(* single_owner: every list value has exactly one owning name and no list temporary is
   created after the declarations:
   - setup: declarations of fresh names (literal / comprehension), append / remove / get /
     set / by-value read-only call on declared names, self-assignment `x = x`;
   - loop: the same without declarations.
   Excluded: `x = y` into a new or another name (struct copy / clone), re-assignment from
   a literal or comprehension (temporary never freed), lists local to loop(), a function
   that mutates its by-value list parameter. *)
Fixpoint rhs_vars (rs : list rhs) : option (list name) :=
  match rs with
  | [] => Some []
  | RVar y :: r => match rhs_vars r with Some ys => Some (y :: ys) | None => None end
  | RLit _ :: _ => None
  end.

Fixpoint nodupb (l : list name) : bool :=
  match l with
  | [] => true
  | a :: r => negb (existsb (Z.eqb a) r) && nodupb r
  end.

(* x1, .., xn = y1, .., yn  where the right-hand sides are the same declared names in another order
   (swap, rotation, any permutation): a pointer exchange, every buffer keeps exactly one owner *)
Definition tuple_ok (decl xs : list name) (rs : list rhs) : bool :=
  match rhs_vars rs with
  | Some ys =>
      (length xs =? length ys) && nodupb xs && nodupb ys &&
      forallb (fun y => existsb (Z.eqb y) xs) ys && forallb (fun x => existsb (Z.eqb x) decl) xs
  | None => false
  end.

Definition use_ok (decl : list name) (s : stmt) : bool :=
  match s with
  | LAppend x _ | LRemove x _ | LGet x _ | LSet x _ _ | LCallGet x _ => existsb (Z.eqb x) decl
  | LAssignVar x y => Z.eqb x y && existsb (Z.eqb x) decl
  | LAppendRef x y _ | LRemoveRef x y _ => existsb (Z.eqb x) decl && existsb (Z.eqb y) decl
  | _ => false
  end.

Fixpoint setup_ok (decl : list name) (ss : list stmt) : option (list name) :=
  match ss with
  | [] => Some decl
  | s :: r =>
      match s with
      | LDeclLit x _ | LDeclComp x _ =>
          if existsb (Z.eqb x) decl then None else setup_ok (decl ++ [x]) r
      | _ => if use_ok decl s then setup_ok decl r else None
      end
  end.

Definition single_owner (setup body : list stmt) : bool :=
  match setup_ok [] setup with
  | Some decl => forallb (use_ok decl) body
  | None => false
  end.

(* ------------------------------------------------------------------ the guard of the value-semantics theorem *)
(* [value_ok]: every name a statement uses is declared when it runs (CPython: no NameError), a first declaration
   `x = [..]` in front of the loop declares a new name.  No other condition: aliases `x = y`, re-assignment, lists first
   assigned in the main loop, by-value parameters the callee mutates, lists returned by functions, any tuple
   assignment.  [decl] is the list of the declared names, in declaration order. *)
Definition inb (x : name) (decl : list name) : bool := existsb (Z.eqb x) decl.
Definition add1 (decl : list name) (x : name) : list name := if inb x decl then decl else decl ++ [x].
Fixpoint remove_name (x : name) (decl : list name) : list name :=
  match decl with
  | [] => []
  | y :: r => if Z.eqb x y then r else y :: remove_name x r
  end.

Definition vs_ok1 (decl : list name) (s : stmt) : option (list name) :=
  match s with
  | LDeclLit x _ | LDeclComp x _ => if inb x decl then None else Some (decl ++ [x])
  | LLocalDeclLit x _ | LLocalDeclComp x _ => Some (add1 decl x)
  | LAppend x _ | LRemove x _ | LGet x _ | LSet x _ _ | LCallGet x _ => if inb x decl then Some decl else None
  | LAssignVar x y | LAssignRet x y => if inb y decl then Some (add1 decl x) else None
  | LAppendRef x y _ | LRemoveRef x y _ => if inb x decl && inb y decl then Some decl else None
  | LDrop x => if inb x decl then Some (remove_name x decl) else None
  | _ => None
  end.

Fixpoint vs_block1 (decl : list name) (ss : list stmt) : option (list name) :=
  match ss with
  | [] => Some decl
  | s :: r => match vs_ok1 decl s with Some d => vs_block1 d r | None => None end
  end.

Definition vs_ok (decl : list name) (s : stmt) : option (list name) :=
  match desugar s with
  | Some b => vs_block1 decl b
  | None => vs_ok1 decl s
  end.

Fixpoint vs_block (decl : list name) (ss : list stmt) : option (list name) :=
  match ss with
  | [] => Some decl
  | s :: r => match vs_ok decl s with Some d => vs_block d r | None => None end
  end.

Fixpoint vs_seq (decl : list name) (bodies : list (list stmt)) : bool :=
  match bodies with
  | [] => true
  | b :: r => match vs_block decl b with Some d => vs_seq d r | None => false end
  end.

Definition value_ok (setup : list stmt) (bodies : list (list stmt)) : bool :=
  match vs_block [] setup with
  | Some d => vs_seq d bodies
  | None => false
  end.

(* ------------------------------------------------------------------ source statements *)
(* What the script says; [elab] is the parser's choice of emitted form
   (parser.py _handle_assignment_ast, lines 1866-1927): a name not yet in the parser's
   [declared] set gets a declaration (global with initialiser / run-time assignment in
   setup scope, a local of loop() in the main loop); a declared list name is assigned
   through __redu_list_assign (needs_clone).  [declared] is one set for the whole
   script and is filled in source order. *)
Inductive sstmt : Type :=
| SLit (x : name) (items : list Z)          (* x = [..] *)
| SComp (x : name) (c : comp)               (* x = [i * ca + cb for i in range(..)] *)
| SVar (x y : name)                         (* x = y *)
| SAppend (x : name) (v : Z)                (* x.append(v) *)
| SRemove (x : name) (v : Z)                (* x.remove(v) *)
| SGet (x : name) (i : Z)                   (* mon.write(x[i]) *)
| SCallGet (x : name) (i : Z)               (* mon.write(f(x, i)) *)
| SCallAppend (x : name) (v : Z)            (* mon.write(g(x, v)) *)
| SAppendRef (x y : name) (i : Z)           (* x.append(y[i]) *)
| SRemoveRef (x y : name) (i : Z)           (* x.remove(y[i]) *)
| STuple (xs : list name) (rs : list rhs)   (* x1, .., xn = r1, .., rn *)
| SRet (x y : name).                        (* x = ident(y) *)

Fixpoint add_new (decl xs : list name) : list name :=
  match xs with
  | [] => decl
  | x :: r => add_new (if existsb (Z.eqb x) decl then decl else decl ++ [x]) r
  end.

Definition elab1 (in_loop : bool) (decl : list name) (s : sstmt) : stmt * list name :=
  match s with
  | SLit x items =>
      if existsb (Z.eqb x) decl then (LAssignLit x items, decl)
      else ((if in_loop then LLocalDeclLit x items else LDeclLit x items), decl ++ [x])
  | SComp x c =>
      if existsb (Z.eqb x) decl then (LAssignComp x c, decl)
      else ((if in_loop then LLocalDeclComp x c else LDeclComp x c), decl ++ [x])
  | SVar x y => (LAssignVar x y, if existsb (Z.eqb x) decl then decl else decl ++ [x])
  | SAppend x v => (LAppend x v, decl)
  | SRemove x v => (LRemove x v, decl)
  | SGet x i => (LGet x i, decl)
  | SCallGet x i => (LCallGet x i, decl)
  | SCallAppend x v => (LCallAppend x v, decl)
  | SAppendRef x y i => (LAppendRef x y i, decl)
  | SRemoveRef x y i => (LRemoveRef x y i, decl)
  | STuple xs rs => (LTuple xs rs, add_new decl xs)
  | SRet x y => (LAssignRet x y, if existsb (Z.eqb x) decl then decl else decl ++ [x])
  end.

Fixpoint elab (in_loop : bool) (decl : list name) (ss : list sstmt) : list stmt * list name :=
  match ss with
  | [] => ([], decl)
  | s :: r =>
      let '(s1, d1) := elab1 in_loop decl s in
      let '(r1, d2) := elab in_loop d1 r in
      (s1 :: r1, d2)
  end.

Definition elab_prog (setup body : list sstmt) : list stmt * list stmt :=
  let '(s1, d1) := elab false [] setup in
  let '(b1, _) := elab true d1 body in
  (s1, b1).

(* ------------------------------------------------------------------ histories *)
(* The main loop may guard list statements by run-time conditions (`if g > 1: a.append(5)`):
   pass k then executes a sub-sequence [bodies_k] of the loop body.  A history is the list
   of executed statement sequences, one per pass. *)
Fixpoint run_passes_seq (bodies : list (list stmt)) (st : fstate) : res fstate :=
  match bodies with
  | [] => Safe st
  | b :: r => do a <- run_pass b st; run_passes_seq r (fst a)
  end.

Definition run_fw_seq (setup : list stmt) (bodies : list (list stmt)) : res fstate :=
  do a <- run_setup setup; run_passes_seq bodies (fst a).

Fixpoint py_passes_seq (bodies : list (list stmt)) (st : pstate) : pres pstate :=
  match bodies with
  | [] => POk st
  | b :: r => pdo a <- py_pass b st; py_passes_seq r (fst a)
  end.

Definition run_py_seq (setup : list stmt) (bodies : list (list stmt)) : pres pstate :=
  pdo a <- py_setup setup; py_passes_seq bodies (fst a).

Definition single_owner_seq (setup : list stmt) (bodies : list (list stmt)) : bool :=
  match setup_ok [] setup with
  | Some decl => forallb (forallb (use_ok decl)) bodies
  | None => false
  end.

(* `if g > t:` in front of statement k of the body (t = -1 with g >= 0: unconditional) *)
Fixpoint select (g : Z) (gates : list Z) (body : list stmt) : list stmt :=
  match gates, body with
  | t :: gr, s :: br => if (t <? g)%Z then s :: select g gr br else select g gr br
  | _, _ => []
  end.

(* single owner plus the deep-copy assignment `x = y` between two declared lists
   (__redu_list_assign): still no shared buffers, but Python's aliasing is lost *)
Definition use_ok2 (decl : list name) (s : stmt) : bool :=
  use_ok decl s ||
  match s with
  | LAssignVar x y => existsb (Z.eqb x) decl && existsb (Z.eqb y) decl
  | _ => false
  end.

Definition owner_or_clone_seq (setup : list stmt) (bodies : list (list stmt)) : bool :=
  match setup_ok [] setup with
  | Some decl => forallb (forallb (use_ok2 decl)) bodies
  | None => false
  end.

(* ------------------------------------------------------------------ read-only sharing *)
(* A function that returns one of its list parameters (`def ident(xs): return xs`, `def sel(a, b, k): if k > t:
   return a / return b`) returns a by-value struct: a SHALLOW copy of an existing list.  Assigned to an already
   declared list, `x = sel(y, z, c)` is emitted as __redu_list_assign(x, sel(y, z, c)): the (only) overload takes
   `const __redu_list<T> &`, so the temporary is CLONED and every name keeps its own buffer, while CPython binds x to
   the very object of y.  Pass k of a history executes [LAssignRet x y_k] with the list y_k the call selected in that
   pass; `x = y if c > t else z` (an lvalue conditional) is [LAssignVar x y_k].

   [frozen_ok]: the names that take part in such an assignment (target or source) form the set [fz]; they are
   declared before the loop like every list and afterwards only READ (indexing, by-value read-only call, element
   argument `w.append(y[i])` of another list) or re-assigned among each other (never to themselves through a call:
   `a = ident(a)` frees the buffer it then reads).  All other names follow the single-owner rules (tuple
   assignments excepted).  Python's aliases are then indistinguishable from the firmware's copies. *)
Definition share_names (s : stmt) : list name :=
  match s with
  | LAssignRet x y => [x; y]
  | LAssignVar x y => if Z.eqb x y then [] else [x; y]
  | _ => []
  end.

Definition frozen_set (setup : list stmt) (bodies : list (list stmt)) : list name :=
  flat_map share_names (setup ++ concat bodies).

Definition use_ok3 (decl fz : list name) (s : stmt) : bool :=
  match s with
  | LAppend x _ | LRemove x _ | LSet x _ _ => existsb (Z.eqb x) decl && negb (existsb (Z.eqb x) fz)
  | LGet x _ | LCallGet x _ => existsb (Z.eqb x) decl
  | LAppendRef x y _ | LRemoveRef x y _ =>
      existsb (Z.eqb x) decl && negb (existsb (Z.eqb x) fz) && existsb (Z.eqb y) decl
  | LAssignVar x y =>
      if Z.eqb x y then existsb (Z.eqb x) decl
      else existsb (Z.eqb x) decl && existsb (Z.eqb y) decl && existsb (Z.eqb x) fz && existsb (Z.eqb y) fz
  | LAssignRet x y =>
      negb (Z.eqb x y) && existsb (Z.eqb x) decl && existsb (Z.eqb y) decl &&
      existsb (Z.eqb x) fz && existsb (Z.eqb y) fz
  | _ => false
  end.

Fixpoint setup_ok3 (fz decl : list name) (ss : list stmt) : option (list name) :=
  match ss with
  | [] => Some decl
  | s :: r =>
      match s with
      | LDeclLit x _ | LDeclComp x _ =>
          if existsb (Z.eqb x) decl then None else setup_ok3 fz (decl ++ [x]) r
      | _ => if use_ok3 decl fz s then setup_ok3 fz decl r else None
      end
  end.

Definition frozen_ok_with (fz : list name) (setup : list stmt) (bodies : list (list stmt)) : bool :=
  match setup_ok3 fz [] setup with
  | Some decl => forallb (forallb (use_ok3 decl fz)) bodies
  | None => false
  end.

Definition frozen_ok (setup : list stmt) (bodies : list (list stmt)) : bool :=
  frozen_ok_with (frozen_set setup bodies) setup bodies.

(* live data counted per NAME: a list object bound to two names counts twice (the firmware holds one copy per name) *)
Definition p_named (st : pstate) : nat :=
  fold_right (fun o acc => length (p_obj st o) + acc) 0 (map snd (p_glob st ++ p_loc st)).
