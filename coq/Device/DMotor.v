(* Device model of the DC motor commands: the C++ the emitter writes for DCMotorSetSpeed / Backward / Stop /
   Coast / Invert / Ramp / RunFor (emitter.py: helper ~870-935, branches ~1770-1952), statement by statement.
   State = the globals [float __dc_speed_x], [bool __dc_inverted_x], [String __dc_mode_x].
   C floats are exact rationals (DESIGN.md section 1); an argument reaches the device as
   static_cast<float>(expr), i.e. with its value.  Events: digitalWrite(in1), digitalWrite(in2),
   analogWrite(enable, pwm), delay.  No proofs in this file. *)
From Coq Require Import ZArith QArith Qround List Bool.
From RV Require Import Base.Wire Base.NumM Gen.C19Motor Host.DCMotor Device.Signal Device.DLed.
Import ListNotations.
Open Scope Q_scope.

Record dmotor : Type := mkDM { dm_speed : Q; dm_inv : bool; dm_mode : mode }.
Definition dminit : dmotor := mkDM 0 false Coast.
Definition mpins : Type := (Z * Z * Z)%type.     (* in1, in2, enable *)

(* static_cast<int>(x) / static_cast<unsigned long>(x): truncation toward zero *)
Definition ctrunc (q : Q) : Z := Z.quot (Qnum q) (Zpos (Qden q)).

(* int pwm = static_cast<int>(abs * 255.0f + 0.5f); if (pwm < 0) pwm = 0; if (pwm > 255) pwm = 255; *)
Definition pwm_of (a : Q) : Z := clamp255 (ctrunc (a * 255 + (1 # 2))).

(* the shared block: clamp to -1..1, [store], effective = inverted ? -speed : speed, abs (capped at 1), pwm,
   direction pins (both LOW iff effective == 0.0f, else by its sign), analogWrite, mode (coast iff effective == 0.0f) *)
Definition d_apply (p : mpins) (m : dmotor) (store : bool) (value : Q) : dmotor * list dev :=
  let '(in1, in2, en) := p in
  let sp := Qred (qclamp (-(1)) 1 value) in
  let eff := if dm_inv m then - sp else sp in
  let ab0 := if Qleb 0 eff then eff else - eff in
  let ab := if Qltb 1 ab0 then 1 else ab0 in
  let pwm := pwm_of ab in
  let dirs := if Qeqb eff 0 then [EDW in1 false; EDW in2 false]
              else if Qltb 0 eff then [EDW in1 true; EDW in2 false]
              else [EDW in1 false; EDW in2 true] in
  (mkDM (if store then sp else dm_speed m) (dm_inv m) (if Qeqb eff 0 then Coast else Drive),
   dirs ++ [EAW en pwm]).

(* stop: speed = 0; both direction pins HIGH; analogWrite(en, 0); mode = brake
   coast: speed = 0; both LOW; analogWrite(en, 0); mode = coast *)
Definition d_halt (p : mpins) (m : dmotor) (md : mode) : dmotor * list dev :=
  let '(in1, in2, en) := p in
  let lv := match md with Brake => true | _ => false end in
  (mkDM 0 (dm_inv m) md, [EDW in1 lv; EDW in2 lv; EAW en 0%Z]).

(* float duration = (float)expr; if (duration < 0) duration = 0; *)
Definition dur0 (q : Q) : Q := if Qltb q 0 then 0 else q.

(* ramp: start = speed; target clamped; delay = duration / 20;
   for (i = 1..20) { value = start + (target - start) * ((float)i / 20); <apply, storing>; if (delay > 0) delay((unsigned long)delay); } *)
Fixpoint d_ramp_loop (ks : list Z) (p : mpins) (m : dmotor) (start target delay : Q) : dmotor * list dev :=
  match ks with
  | [] => (m, [])
  | k :: r =>
      let '(m1, e1) := d_apply p m true (start + (target - start) * (inject_Z k / inject_Z dc_ramp_steps)) in
      let e2 := if Qltb 0 delay then [EDelay (ctrunc delay)] else [] in
      let '(m2, e3) := d_ramp_loop r p m1 start target delay in
      (m2, e1 ++ e2 ++ e3)
  end.

Definition d_ramp (p : mpins) (m : dmotor) (t d : Q) : dmotor * list dev :=
  let target := qclamp (-(1)) 1 t in
  let delay := dur0 d / inject_Z dc_ramp_steps in
  d_ramp_loop (zsteps dc_ramp_steps) p m (dm_speed m) target delay.

(* run_for: duration clamped at 0; <apply, storing>; delay((unsigned long)duration); <stop> *)
Definition d_run_for (p : mpins) (m : dmotor) (d v : Q) : dmotor * list dev :=
  let '(m1, e1) := d_apply p m true v in
  let '(m2, e2) := d_halt p m1 Brake in
  (m2, e1 ++ [EDelay (ctrunc (dur0 d))] ++ e2).

(* getters as printed expressions *)
Inductive dget : Type := GNone | GFloat (q : Q) | GInt (z : Z) | GMode (md : mode).

Definition dmstep (p : mpins) (m : dmotor) (o : mop) : dmotor * list dev * dget :=
  match o with
  | MSetSpeed v => let '(m1, e) := d_apply p m true (qval v) in (m1, e, GNone)
  | MBackward ov =>
      (* float b = (float)v; if (b < 0) b = -b; b = -b; <apply, storing> *)
      let b := qval (dflt_back ov) in
      let '(m1, e) := d_apply p m true (- (if Qltb b 0 then - b else b)) in (m1, e, GNone)
  | MStop => let '(m1, e) := d_halt p m Brake in (m1, e, GNone)
  | MCoast => let '(m1, e) := d_halt p m Coast in (m1, e, GNone)
  | MInvert =>
      (* inverted = !inverted; <apply of the stored speed, not storing> *)
      let '(m1, e) := d_apply p (mkDM (dm_speed m) (negb (dm_inv m)) (dm_mode m)) false (dm_speed m) in (m1, e, GNone)
  | MRamp t d => let '(m1, e) := d_ramp p m (qval t) (qval d) in (m1, e, GNone)
  | MRunFor d v => let '(m1, e) := d_run_for p m (qval d) (qval v) in (m1, e, GNone)
  | MGetSpeed => (m, [], GFloat (dm_speed m))
  | MGetApplied => (m, [], GFloat (if dm_inv m then - dm_speed m else dm_speed m))
  | MIsInverted => (m, [], GInt (if dm_inv m then 1 else 0)%Z)
  | MGetMode => (m, [], GMode (dm_mode m))
  end.

Fixpoint dmrun (p : mpins) (m : dmotor) (ops : list mop) : list dev * list dget :=
  match ops with
  | [] => ([], [])
  | o :: r =>
      let '(m1, e1, g1) := dmstep p m o in
      let '(e2, g2) := dmrun p m1 r in
      (e1 ++ e2, g1 :: g2)
  end.

Fixpoint dmfinal (p : mpins) (m : dmotor) (ops : list mop) : dmotor :=
  match ops with
  | [] => m
  | o :: r => dmfinal p (fst (fst (dmstep p m o))) r
  end.

(* ---- the host's events as a level signal on the three pins ----
   direction: applied > 0 -> (HIGH, LOW), < 0 -> (LOW, HIGH), = 0 -> coast (LOW, LOW) or brake (HIGH, HIGH);
   duty: 255 * |applied|, rounded to the nearest PWM count (the statement allows one count);
   a sleep of q ms is a device delay of trunc(q) ms *)
Definition hduty (ap : Q) : Z := pwm_of (qabs ap).

Definition hmconv (p : mpins) (e : mev) : list tev :=
  let '(in1, in2, en) := p in
  match e with
  | MSleep q => [TD (ctrunc q)]
  | MLvl _ ap md =>
      match md with
      | Brake => [TL in1 255; TL in2 255; TL en 0]%Z
      | _ =>
          if Qeqb ap 0 then [TL in1 0; TL in2 0; TL en 0]%Z
          else if Qltb 0 ap then [TL in1 255; TL in2 0; TL en (hduty ap)]%Z
          else [TL in1 0; TL in2 255; TL en (hduty ap)]%Z
      end
  end.

Definition hget_of (r : result mret) : dget :=
  match r with
  | Ok (MFloat q) => GFloat q
  | Ok (MBool b) => GInt (if b then 1 else 0)%Z
  | Ok (MMode md) => GMode md
  | _ => GNone
  end.

Fixpoint hmrun (p : mpins) (m : motor) (ops : list mop) : list tev * list dget * bool :=
  match ops with
  | [] => ([], [], true)
  | o :: r =>
      let '(m1, e1, r1) := mstep m o in
      let '(e2, g2, ok2) := hmrun p m1 r in
      (flat_map (hmconv p) e1 ++ e2, hget_of r1 :: g2, match r1 with Ok _ => ok2 | Raised _ => false end)
  end.

(* ---- the guard ---- *)
Definition num_ok (v : pynum) : bool := match qof v with Some _ => true | None => false end.
(* a speed argument: any number.  Values outside -1..1 are inside the guard too: the host clamps them (_clamp_speed) before
   anything else happens - for ramp BEFORE interpolating - and the statement demands the same of the device *)
Definition speed_ok (v : pynum) : bool := num_ok v.
(* the documented range, for the theorems that speak about out-of-range commands *)
Definition speed_in_unit (v : pynum) : bool := num_ok v && Qleb (-(1)) (qval v) && Qleb (qval v) 1.
Definition dur_ok (v : pynum) : bool := num_ok v && Qleb 0 (qval v).

(* speeds numbers of ANY value (out-of-range ones are clamped on both sides), durations numbers >= 0 *)
Definition motor_in_range (m : motor) (o : mop) : bool :=
  match o with
  | MSetSpeed v => speed_ok v
  | MBackward ov => speed_ok (dflt_back ov)
  | MRamp t d => speed_ok t && dur_ok d
  | MRunFor d v => dur_ok d && speed_ok v
  | _ => true
  end.

Fixpoint motor_guard_flags (m : motor) (ops : list mop) : list bool :=
  match ops with
  | [] => []
  | o :: r => motor_in_range m o :: motor_guard_flags (mstate (mstep m o)) r
  end.

Definition dminv (m : dmotor) : Prop := -(1) <= dm_speed m /\ dm_speed m <= 1.
