(* Device model of Potentiometer.read() in the generated firmware (C15).  Model only.

   parser.py:  p.read()  ->  analogRead(<declared pin>)      (no caching, no state)
   The analog input is an oracle [input : nat -> Z] : the k-th analogRead of the pin
   returns [input k]. *)
From Coq Require Import ZArith List.
Import ListNotations.
Open Scope Z_scope.

Inductive pev := PAR (pin : Z) (v : Z).      (* one analogRead(pin) returning v *)

Record pres := { p_val : Z; p_next : nat; p_evs : list pev }.

(* one read(): the k-th analogRead of the declared pin *)
Definition pot_read (pin : Z) (input : nat -> Z) (k : nat) : pres :=
  {| p_val := input k; p_next := S k; p_evs := [PAR pin (input k)] |}.

(* n successive read() calls: values returned, next index, events *)
Fixpoint pot_reads (pin : Z) (input : nat -> Z) (k : nat) (n : nat) : list Z * nat * list pev :=
  match n with
  | O => ([], k, [])
  | S m =>
      let r := pot_read pin input k in
      let '(vs, k', evs) := pot_reads pin input (p_next r) m in
      (p_val r :: vs, k', p_evs r ++ evs)
  end.
