(* Device model of the RGB LED commands: the C++ the emitter writes for RGBLedSetColor / RGBLedOn /
   RGBLedOff (helper _emit_rgb_update, emitter.py ~937-963), RGBLedFade (~2046-2126) and RGBLedBlink
   (~2128-2191), statement by statement.  State = the globals [int __rgb_red_x, __rgb_green_x, __rgb_blue_x]
   and [bool __rgb_state_x].  Arguments, [c_int], events: as in Device/DLed.v.  The device has no RGB getters
   (the parser rejects rgb.get_color() / get_state() in expressions), so none is modelled.
   No proofs in this file. *)
From Coq Require Import ZArith QArith Qround List Bool.
From RV Require Import Base.Wire Base.Num Host.Led Host.RGBLed Device.Signal Device.DLed.
Import ListNotations.
Import Num.
Open Scope Z_scope.

Record drgb : Type := mkDR { dr_col : triple; dr_state : bool }.
Definition pins3 : Type := (Z * Z * Z)%type.

(* int __rgb_*_x = 0; bool __rgb_state_x = false; *)
Definition drinit : drgb := mkDR (0, 0, 0) false.

(* analogWrite(red_pin, red); analogWrite(green_pin, green); analogWrite(blue_pin, blue); *)
Definition aw3 (p : pins3) (c : triple) : list dev :=
  let '(p1, p2, p3) := p in let '(r, g, b) := c in [EAW p1 r; EAW p2 g; EAW p3 b].

(* vars = c; state = (r > 0) || (g > 0) || (b > 0); three analogWrites *)
Definition dr_write (p : pins3) (c : triple) : drgb * list dev := (mkDR c (any_on c), aw3 p c).

(* _emit_rgb_update: each component  int v = expr; if (v < 0) v = 0; if (v > 255) v = 255; *)
Definition clamp3 (r g b : pynum) : triple := (clamp255 (c_int r), clamp255 (c_int g), clamp255 (c_int b)).

Definition dr_set (p : pins3) (r g b : pynum) : drgb * list dev := dr_write p (clamp3 r g b).

(* RGBLedFade: one interpolated component at step i of n - nearest integer, a half to the even one
     long num = (long)start * n + (long)(target - start) * i;     (num >= 0 on the device)
     int v = (int)(num / n);  num = 2 * (num % n);               (C division truncates toward zero; num is reused
                                                                   for twice the remainder: below q = v, 2 * r = num)
     if ((num > n) || ((num == n) && ((v % 2) != 0))) ++v; *)
Definition c_interp (n s t i : Z) : Z :=
  let num := s * n + (t - s) * i in
  let q := Z.quot num n in
  let r := Z.rem num n in
  if (n <? 2 * r) || ((2 * r =? n) && negb (Z.rem q 2 =? 0)) then q + 1 else q.

Definition c_interp3 (n : Z) (s t : triple) (i : Z) : triple :=
  let '(s1, s2, s3) := s in let '(t1, t2, t3) := t in
  (c_interp n s1 t1 i, c_interp n s2 t2 i, c_interp n s3 t3 i).

(* float step = (float)duration / (float)steps;
   unsigned long delay_ms = (step <= 0) ? 0 : (unsigned long)(step + 0.5f);      (exact rationals) *)
Definition fade_delay (duration steps : Z) : Z :=
  if duration <=? 0 then 0 else Qfloor (inject_Z duration / inject_Z steps + (1 # 2))%Q.

(* for (i = 1; i <= steps; ++i) { vars = interp(i); state = ...; 3 analogWrites;
                                  if ((i != steps) && (delay_ms > 0)) delay(delay_ms); } *)
Fixpoint dfade_loop (k : nat) (i n : Z) (p : pins3) (s t : triple) (dl : Z) (st : drgb) : drgb * list dev :=
  match k with
  | O => (st, [])
  | S k' =>
      let '(st1, e1) := dr_write p (c_interp3 n s t i) in
      let e2 := if negb (i =? n) && (0 <? dl) then [EDelay dl] else [] in
      let '(st2, e3) := dfade_loop k' (i + 1) n p s t dl st1 in
      (st2, e1 ++ e2 ++ e3)
  end.

Definition dr_fade (p : pins3) (st : drgb) (r g b d n : pynum) : drgb * list dev :=
  let duration := floor0 (c_int d) in                 (* long duration = ...; if (duration < 0) duration = 0 *)
  let steps := c_step n in                            (* int steps = ...; if (steps <= 0) steps = 1 *)
  let target := clamp3 r g b in
  if (duration =? 0) || triple_eqb (dr_col st) target then dr_write p target
  else dfade_loop (Z.to_nat steps) 1 steps p (dr_col st) target (fade_delay duration steps) st.

(* RGBLedBlink:  times clamped at 0; long delay clamped at 0; target clamped;
     for (i < times) { vars = target; state = ...; 3 writes; if (delay_ms > 0) delay(delay_ms);
                       vars = 0; state = false; analogWrite(pin, 0) x3; if (delay_ms > 0) delay(delay_ms); }
     vars = original; state = original_state; 3 writes *)
Definition opt_delay (dl : Z) : list dev := if 0 <? dl then [EDelay dl] else [].

Fixpoint drblink_evs (k : nat) (p : pins3) (c : triple) (dl : Z) : list dev :=
  match k with
  | O => []
  | S k' => aw3 p c ++ opt_delay dl ++ aw3 p (0, 0, 0) ++ opt_delay dl ++ drblink_evs k' p c dl
  end.

Definition dr_blink (p : pins3) (st : drgb) (r g b t d : pynum) : drgb * list dev :=
  let times := floor0 (c_int t) in
  let dl := floor0 (c_int d) in
  (st, drblink_evs (Z.to_nat times) p (clamp3 r g b) dl ++ aw3 p (dr_col st)).

Definition drstep (p : pins3) (st : drgb) (o : RGBLed.op) : drgb * list dev :=
  match o with
  | SetColor r g b | On r g b => dr_set p r g b
  | Off => dr_write p (0, 0, 0)
  | Fade r g b d n => dr_fade p st r g b d n
  | Blink r g b t d => dr_blink p st r g b t d
  | GetPins | GetColor | GetState => (st, [])
  end.

Fixpoint drrun (p : pins3) (st : drgb) (ops : list RGBLed.op) : list dev :=
  match ops with
  | [] => []
  | o :: r => let '(st1, e1) := drstep p st o in e1 ++ drrun p st1 r
  end.

Fixpoint drfinal (p : pins3) (st : drgb) (ops : list RGBLed.op) : drgb :=
  match ops with
  | [] => st
  | o :: r => drfinal p (fst (drstep p st o)) r
  end.

(* ---- host run and traces ---- *)
(* how the device rounds the host's sleep of q ms: fade uses (unsigned long)(q + 0.5f), blink a C long *)
Inductive rmode := RTrunc | RHalfUp.
Definition rnd (m : rmode) (q : Q) : Z :=
  match m with RTrunc => py_int_trunc q | RHalfUp => Qfloor (q + (1 # 2))%Q end.
Definition rmode_of (o : RGBLed.op) : rmode := match o with Fade _ _ _ _ _ => RHalfUp | _ => RTrunc end.

Definition hrconv (p : pins3) (m : rmode) (e : ev) : list tev :=
  match e with
  | Lvl l => let '(p1, p2, p3) := p in [TL p1 (nth 0 l 0); TL p2 (nth 1 l 0); TL p3 (nth 2 l 0)]
  | Sleep q => [TD (rnd m q)]
  end.

(* host run: trace (level signal), whether any call raised *)
Fixpoint hrrun (p : pins3) (s : rgb) (ops : list RGBLed.op) : list tev * bool :=
  match ops with
  | [] => ([], true)
  | o :: r =>
      let '(s1, e1, r1) := RGBLed.step s o in
      let '(e2, ok2) := hrrun p s1 r in
      (flat_map (hrconv p (rmode_of o)) e1 ++ e2, match r1 with Ok _ => ok2 | Raised _ => false end)
  end.

Definition drtr (p : pins3) (st : drgb) (ops : list RGBLed.op) : list tev := map dconv (drrun p st ops).

(* ---- the guard ---- *)
Definition comp_ok (x : pynum) : bool := match validate_component x with None => true | Some _ => false end.

(* step i of n between s and t lands exactly on a half (both sides round it to the even neighbour; used by the
   non-vacuity examples only - no guard mentions it since the repair of F-C04-rgb-fade-half-rounding) *)
Definition tie (n s t i : Z) : bool := (2 * (t - s) * i) mod (2 * n) =? n.

(* in-range arguments ([cur], the colour at the time of the call, is no longer looked at: kept so that the guard
   keeps its shape) *)
Definition rgb_in_range (cur : triple) (o : RGBLed.op) : bool :=
  match o with
  | SetColor r g b | On r g b => comp_ok r && comp_ok g && comp_ok b
  | Fade r g b d n =>
      comp_ok r && comp_ok g && comp_ok b && nonneg d && integral d && is_pos n && is_intlike n
  | Blink r g b t d => comp_ok r && comp_ok g && comp_ok b && is_pos t && is_intlike t && nonneg d
  | Off => true
  | _ => false          (* no getters on the device *)
  end.

Fixpoint rgb_guard (s : rgb) (ops : list RGBLed.op) : bool :=
  match ops with
  | [] => true
  | o :: r => rgb_in_range (color s) o && rgb_guard (RGBLed.st (RGBLed.step s o)) r
  end.

Definition drinv (st : drgb) : Prop :=
  let '(r, g, b) := dr_col st in (0 <= r <= 255) /\ (0 <= g <= 255) /\ (0 <= b <= 255).
