(* A sensor NAME bound more than once (C15): which declaration does a read() / is_pressed() / measure_distance() use?
   Model only: no proofs here.

   A script is seen as the text-ordered sequence of the places where ONE sensor name occurs: the part before the main loop
   (it becomes setup()) and the top level of the main-loop body (it becomes loop()):
       IDecl d   name = Potentiometer(..) / Button(..) / Ultrasonic(..)   - d: what the declaration names (the pin(s), the handler)
       IUse      a call  name.read() / name.is_pressed() / name.measure_distance()  written here
       IDef f    def f(): ... name.<method>() ...      a function whose body makes one such call   (before the loop only)
       ICall f   a call of f written here
   Every executed call is resolved to a declaration; the result of a run is, per executed call, the declaration used.

   REFERENCE (what Python means): a name is looked up when the call is EXECUTED - [walk dynM]: the declaration executed last;
   the loop part is executed pass after pass with the binding the previous pass left.

   THE TRANSPILER resolves at transpile time, in three ways (parser.py / emitter.py):
     lexical [walk lexM] - Potentiometer.read(): parser.py 766-782 replaces  p.read()  by  analogRead(<pin>)  with the pin that
         ctx["potentiometer_pins"][p] holds WHEN THE LINE IS PARSED: the declaration written last ABOVE the call in the text; a
         function body is parsed where the def stands, so its call keeps the declaration in force at the def; the loop body is parsed
         once, after the part before the loop, and the same text runs in every pass;
     last    [lastM]     - Button: b.is_pressed() -> __redu_button_value_<b>, one ButtonPoll per name whose pin and handler are
         button_decls[<b>] - overwritten by every declaration the two setup passes of emit() see (before the loop, then the loop
         top), so the LAST one wins; Ultrasonic: u.measure_distance() -> __redu_ultrasonic_measure_<u>(), one helper per name,
         generated after all blocks have been emitted from ultrasonic_decls[<u>] = the last declaration emitted;
     first               - Button only: the start-up sample (prev = value = digitalRead(pin) in setup()) is guarded by
         button_init_emitted, keyed by the name alone: only the FIRST declaration of a name gets one. *)
From Coq Require Import List Bool Arith ZArith.
From RV Require Import Device.DButton.
Import ListNotations.

Section Rebind.
  Variable D : Type.
  Variable deqb : D -> D -> bool.

  Inductive item := IDecl (d : D) | IUse | IDef (f : nat) | ICall (f : nat).

  Record btext := { t_setup : list item; t_loop : list item }.

  (* functions defined so far, each with the binding in force where its def stands; the latest def of a name first *)
  Definition fenv := list (nat * option D).

  Fixpoint flook (f : nat) (e : fenv) : option (option D) :=
    match e with
    | [] => None
    | (g, b) :: r => if Nat.eqb f g then Some b else flook f r
    end.

  (* a resolution discipline: what a directly written call uses (given the current binding), what a call of a function uses (given
     the current binding and the binding recorded at its def; None: no such function) *)
  Record mode := { m_use : option D -> option D; m_call : option D -> option (option D) -> option D }.

  Definition dynM : mode :=
    {| m_use := fun cur => cur;
       m_call := fun cur fl => match fl with Some _ => cur | None => None end |}.
  Definition lexM : mode :=
    {| m_use := fun cur => cur;
       m_call := fun _ fl => match fl with Some b => b | None => None end |}.
  Definition lastM (x : option D) : mode :=
    {| m_use := fun _ => x; m_call := fun _ _ => x |}.

  (* one walk over a piece of text: binding at its end, functions defined, the declaration each call resolves to *)
  Fixpoint walk (m : mode) (cur : option D) (fs : fenv) (l : list item) : option D * fenv * list (option D) :=
    match l with
    | [] => (cur, fs, [])
    | IDecl d :: r => walk m (Some d) fs r
    | IUse :: r => let '(c, e, out) := walk m cur fs r in (c, e, m_use m cur :: out)
    | IDef f :: r => walk m cur ((f, cur) :: fs) r
    | ICall f :: r => let '(c, e, out) := walk m cur fs r in (c, e, m_call m cur (flook f fs) :: out)
    end.

  Definition w_cur (r : option D * fenv * list (option D)) := fst (fst r).
  Definition w_fs (r : option D * fenv * list (option D)) := snd (fst r).
  Definition w_out (r : option D * fenv * list (option D)) := snd r.

  (* the binding a piece of text leaves behind *)
  Definition after (l : list item) (cur : option D) : option D :=
    fold_left (fun c it => match it with IDecl d => Some d | _ => c end) l cur.

  (* Python: the loop part is executed n times, each time from the binding the previous pass left *)
  Fixpoint dyn_passes (n : nat) (cur : option D) (fs : fenv) (l : list item) : list (list (option D)) :=
    match n with
    | O => []
    | S k => w_out (walk dynM cur fs l) :: dyn_passes k (after l cur) fs l
    end.

  (* (calls of the part before the loop, calls of pass 0, pass 1, ...) *)
  Definition run_dyn (n : nat) (t : btext) : list (option D) * list (list (option D)) :=
    let s := walk dynM None [] (t_setup t) in
    (w_out s, dyn_passes n (w_cur s) (w_fs s) (t_loop t)).

  (* the transpiler, lexical discipline: the loop text is resolved once, continuing the walk over the part before the loop *)
  Definition run_lex (n : nat) (t : btext) : list (option D) * list (list (option D)) :=
    let s := walk lexM None [] (t_setup t) in
    (w_out s, repeat (w_out (walk lexM (w_cur s) (w_fs s) (t_loop t))) n).

  (* the last declaration of the whole text (before the loop, then the loop top) *)
  Definition last_decl (t : btext) : option D := after (t_loop t) (after (t_setup t) None).

  Fixpoint first_of (l : list item) : option D :=
    match l with
    | [] => None
    | IDecl d :: _ => Some d
    | _ :: r => first_of r
    end.
  Definition first_decl (t : btext) : option D :=
    match first_of (t_setup t) with Some d => Some d | None => first_of (t_loop t) end.

  (* the transpiler, one object per name built from the last declaration: every call uses it *)
  Definition run_last (n : nat) (t : btext) : list (option D) * list (list (option D)) :=
    let m := lastM (last_decl t) in
    let s := walk m None [] (t_setup t) in
    (w_out s, repeat (w_out (walk m (w_cur s) (w_fs s) (t_loop t))) n).

  (* ---- executable comparison *)
  Definition oeqb (a b : option D) : bool :=
    match a, b with
    | Some x, Some y => deqb x y
    | None, None => true
    | _, _ => false
    end.

  Fixpoint leqb (a b : list (option D)) : bool :=
    match a, b with
    | [], [] => true
    | x :: r, y :: s => oeqb x y && leqb r s
    | _, _ => false
    end.

  (* the guard under which a discipline is Python's: the part before the loop, pass 0 and pass 1 resolve alike
     (Proofs/RebindP.v: that is exact - pass 1 is every later pass) *)
  Definition agree2 (r : nat -> btext -> list (option D) * list (list (option D))) (t : btext) : bool :=
    let a := r 2 t in
    let b := run_dyn 2 t in
    leqb (fst a) (fst b) &&
    match snd a, snd b with
    | [a0; a1], [b0; b1] => leqb a0 b0 && leqb a1 b1
    | _, _ => false
    end.

  Definition lex_ok (t : btext) : bool := agree2 run_lex t.
  Definition last_ok (t : btext) : bool := agree2 run_last t.

  (* for a Button only the calls inside loop() are the statement's subject *)
  Definition last_ok_loop (t : btext) : bool :=
    match snd (run_last 2 t), snd (run_dyn 2 t) with
    | [a0; a1], [b0; b1] => leqb a0 b0 && leqb a1 b1
    | _, _ => false
    end.

  (* ---- a syntactic class inside the guard: every declaration of the name stands before the loop or at the top of the loop
     body, above every call, def and call of a function (re-declared before the loop, at the loop top, or both) *)
  Definition is_decl (it : item) : bool := match it with IDecl _ => true | _ => false end.
  Definition decls_first (l : list item) : Prop :=
    exists ds rest, l = map IDecl ds ++ rest /\ forallb (fun it => negb (is_decl it)) rest = true.
  Definition no_def (l : list item) : bool := forallb (fun it => match it with IDef _ => false | _ => true end) l.
End Rebind.

Arguments IDecl {D} d.
Arguments IUse {D}.
Arguments IDef {D} f.
Arguments ICall {D} f.
Arguments Build_btext {D} _ _.
Arguments t_setup {D} _.
Arguments t_loop {D} _.
Arguments walk {D} _ _ _ _.
Arguments dynM {D}.
Arguments lexM {D}.
Arguments lastM {D} _.
Arguments after {D} _ _.
Arguments run_dyn {D} _ _.
Arguments run_lex {D} _ _.
Arguments run_last {D} _ _.
Arguments last_decl {D} _.
Arguments first_decl {D} _.
Arguments first_of {D} _.
Arguments dyn_passes {D} _ _ _ _.
Arguments lex_ok {D} _ _.
Arguments last_ok {D} _ _.
Arguments last_ok_loop {D} _ _.
Arguments agree2 {D} _ _ _.
Arguments leqb {D} _ _ _.
Arguments oeqb {D} _ _ _.
Arguments decls_first {D} _.
Arguments is_decl {D} _.
Arguments no_def {D} _.
Arguments w_cur {D} _.
Arguments w_fs {D} _.
Arguments w_out {D} _.
Arguments flook {D} _ _.

(* ---------------------------------------------------------------- Button: one name, several declarations
   emitter.py: both setup passes do  button_decls[name] = node  (the loop-top pass runs second), so the poll of loop() reads the pin
   and calls the handler of the LAST declaration; the start-up sample is emitted for the FIRST declaration only
   (button_init_emitted).  The digital inputs are an oracle  input pin k = the k-th digitalRead of that pin. *)
Open Scope Z_scope.

Record bdecl := { bl_place : place; bl_pin : Z; bl_h : option nat }.

(* index of the digitalRead of pass k on the polled pin: the start-up sample came first when it was taken on that pin *)
Definition rb_index (first last : bdecl) (k : nat) : nat :=
  if bl_pin first =? bl_pin last then S k else k.

Definition rb_samples (first last : bdecl) (input : Z -> nat -> bool) (calls : list nat) : list (bool * nat) :=
  map (fun k => (input (bl_pin last) (rb_index first last k), nth k calls O)) (seq 0 (length calls)).

(* the firmware of a button name declared by d0 :: ds (text order), [calls]: is_pressed() evaluations of the loop body per pass *)
Definition rb_run (d0 : bdecl) (ds : list bdecl) (input : Z -> nat -> bool) (calls : list nat) : list (list bev) :=
  let l := last ds d0 in
  dev_run (bl_place d0) (bl_h l) (input (bl_pin d0) O) (rb_samples d0 l input calls).

(* the signal of the button the name is bound to while loop() runs (Python: the last declaration), as the firmware samples it *)
Definition rb_signal (d0 : bdecl) (ds : list bdecl) (input : Z -> nat -> bool) (n : nat) : list bool :=
  map (fun k => input (bl_pin (last ds d0)) (rb_index d0 (last ds d0) k)) (seq 0 n).
