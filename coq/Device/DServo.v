(* Device model of the servo commands: the C++ the emitter writes for ServoDecl / ServoWrite /
   ServoWriteMicroseconds (emitter.py: globals ~2505-2554, setup ~2659-2672, branches ~1688-1768) and the
   getter expressions read() / read_us() (parser.py ~719-725, ~767-773), statement by statement; the
   declaration's arguments as the parser resolves them (parser.py ~3060-3127: angles and pulse bounds
   through _resolve_float_arg, i.e. float(value); attach() takes whole microseconds: the emitter hands it
   the nearest integer of a float literal, _emit_nearest_int).
   State = the globals  float __servo_min_angle_x, __servo_max_angle_x, __servo_min_pulse_x,
   __servo_max_pulse_x, __servo_angle_x, __servo_pulse_x.
   C floats are exact rationals (DESIGN.md section 1); an argument reaches the device as
   static_cast<float>(expr), i.e. with its value.
   Events: Servo.attach(pin, min, max), Servo.write(int), Servo.writeMicroseconds(int).
   No proofs in this file. *)
From Coq Require Import ZArith QArith Qround List Bool.
From RV Require Import Base.Wire Base.NumM Gen.C19Motor Host.Servo Device.DMotor.
Import ListNotations.
Open Scope Q_scope.

Record dservo : Type := mkDS {
  ds_pin : Z;
  ds_min_a : Q; ds_max_a : Q;      (* __servo_min_angle_x, __servo_max_angle_x *)
  ds_min_p : Q; ds_max_p : Q;      (* __servo_min_pulse_x, __servo_max_pulse_x *)
  ds_angle : Q; ds_pulse : Q       (* __servo_angle_x, __servo_pulse_x *)
}.

Inductive sdev : Type :=
| SAttach (pin mn mx : Z)          (* __servo_x.attach(pin, static_cast<int>(min), static_cast<int>(max)) *)
| SWriteDeg (pin z : Z)            (* __servo_x.write(z) *)
| SWriteMicros (pin z : Z).        (* __servo_x.writeMicroseconds(z) *)

(* the rounding of the generated code:  if (x < 0.0f) { x -= 1.0f; }  ... static_cast<int>(x + 0.5f)
   (static_cast<int> truncates toward zero; a negative value is shifted down by one first) *)
Definition cround (x : Q) : Z := ctrunc ((if Qltb x 0 then x - 1 else x) + (1 # 2)).

(* _emit_nearest_int on a float literal, at transpile time:  int(v - 0.5) if v < 0 else int(v + 0.5) *)
Definition pyround (v : Q) : Z := if Qltb v 0 then ctrunc (v - (1 # 2)) else ctrunc (v + (1 # 2)).

(* ---- the declaration  x = Servo(pin, min_angle=, max_angle=, min_pulse_us=, max_pulse_us=)  with literal
   arguments.  None = the parser raises ValueError (bounds not strictly ordered).
   globals:  min/max angle = float(value); min/max pulse = float(value); angle = min angle; pulse = min pulse
   setup:    attach(pin, nearest int of min pulse, nearest int of max pulse); writeMicroseconds(nearest int of min pulse) *)
Definition ds_decl (a : servo_args) : option (dservo * list sdev) :=
  let pin := ctrunc (qval (dflt servo_default_pin (a_pin a))) in
  let mina := qval (dflt servo_default_min_angle (a_min_a a)) in
  let maxa := qval (dflt servo_default_max_angle (a_max_a a)) in
  let minp := qval (dflt servo_default_min_pulse (a_min_p a)) in
  let maxp := qval (dflt servo_default_max_pulse (a_max_p a)) in
  if Qleb maxa mina then None
  else if Qleb maxp minp then None
  else Some (mkDS pin mina maxa minp maxp mina minp,
             [SAttach pin (pyround minp) (pyround maxp); SWriteMicros pin (pyround minp)]).

(* if (x < lo) x = lo;   if (x > hi) x = hi; *)
Definition c_lo (lo x : Q) : Q := if Qltb x lo then lo else x.
Definition c_hi (hi x : Q) : Q := if Qltb hi x then hi else x.
(* float span = hi - lo; if (span == 0.0f) span = 1.0f; *)
Definition span_of (lo hi : Q) : Q := let s := hi - lo in if Qeqb s 0 then 1 else s.

Definition ds_set (s : dservo) (a p : Q) : dservo :=
  mkDS (ds_pin s) (ds_min_a s) (ds_max_a s) (ds_min_p s) (ds_max_p s) a p.

(* ServoWrite: angle clamped to the configured bounds and stored; pulse = linear map, clamped, stored;
   if (angle < 0.0f) angle -= 1.0f;  write(static_cast<int>(angle + 0.5f))  -  the nearest integer *)
Definition d_write (s : dservo) (v : Q) : dservo * list sdev :=
  let a := c_hi (ds_max_a s) (c_lo (ds_min_a s) v) in
  let span := span_of (ds_min_a s) (ds_max_a s) in
  let p0 := ds_min_p s + ((a - ds_min_a s) / span) * (ds_max_p s - ds_min_p s) in
  let p := c_hi (ds_max_p s) (c_lo (ds_min_p s) p0) in
  (ds_set s a p, [SWriteDeg (ds_pin s) (cround a)]).

(* ServoWriteMicroseconds: pulse clamped and stored; angle = linear map (not clamped), stored;
   if (pulse < 0.0f) pulse -= 1.0f;  writeMicroseconds(static_cast<int>(pulse + 0.5f)) *)
Definition d_write_us (s : dservo) (v : Q) : dservo * list sdev :=
  let p := c_hi (ds_max_p s) (c_lo (ds_min_p s) v) in
  let span := span_of (ds_min_p s) (ds_max_p s) in
  let a := ds_min_a s + ((p - ds_min_p s) / span) * (ds_max_a s - ds_min_a s) in
  (ds_set s a p, [SWriteMicros (ds_pin s) (cround p)]).

(* getters as printed expressions; values normalised so that equal rationals are equal terms *)
Inductive sget : Type := SGNone | SGFloat (q : Q).

Definition dsstep (s : dservo) (o : sop) : dservo * list sdev * sget :=
  match o with
  | SWrite v => let '(s1, e) := d_write s (qval v) in (s1, e, SGNone)
  | SWriteUs v => let '(s1, e) := d_write_us s (qval v) in (s1, e, SGNone)
  | SRead => (s, [], SGFloat (Qred (ds_angle s)))
  | SReadUs => (s, [], SGFloat (Qred (ds_pulse s)))
  end.

Fixpoint dsrun (s : dservo) (ops : list sop) : list sdev * list sget :=
  match ops with
  | [] => ([], [])
  | o :: r =>
      let '(s1, e1, g1) := dsstep s o in
      let '(e2, g2) := dsrun s1 r in
      (e1 ++ e2, g1 :: g2)
  end.

Fixpoint dsfinal (s : dservo) (ops : list sop) : dservo :=
  match ops with
  | [] => s
  | o :: r => dsfinal (fst (fst (dsstep s o))) r
  end.

(* ---- the host's events as commands to the Servo library ----
   a completed write(a) is the angle level a, a completed write_us(p) the pulse level p; the library takes
   integers: the level is commanded as its nearest integer (halves away from zero) *)
Definition rnear (q : Q) : Z := if Qltb q 0 then (- Qfloor (- q + (1 # 2)))%Z else Qfloor (q + (1 # 2)).

Definition hsconv (pin : Z) (o : sop) (e : sev) : sdev :=
  match o, e with
  | SWriteUs _, SLvl _ p => SWriteMicros pin (rnear p)
  | _, SLvl a _ => SWriteDeg pin (rnear a)
  end.

Definition hsget_of (r : result sret) : sget :=
  match r with
  | Ok (SFloat q) => SGFloat (Qred q)
  | _ => SGNone
  end.

Fixpoint hsrun (pin : Z) (h : servo) (ops : list sop) : list sdev * list sget * bool :=
  match ops with
  | [] => ([], [], true)
  | o :: r =>
      let '(h1, e1, r1) := sstep h o in
      let '(e2, g2, ok2) := hsrun pin h1 r in
      (map (hsconv pin o) e1 ++ e2, hsget_of r1 :: g2, match r1 with Ok _ => ok2 | Raised _ => false end)
  end.

(* ---- the guards ---- *)
Definition snum_ok (v : pynum) : bool := match qof v with Some _ => true | None => false end.

(* in range: a number within the configured bounds (the host does not raise) *)
Definition servo_in_range (h : servo) (o : sop) : bool :=
  match o with
  | SWrite v => snum_ok v && Qleb (min_a h) (qval v) && Qleb (qval v) (max_a h)
  | SWriteUs v => snum_ok v && Qleb (min_p h) (qval v) && Qleb (qval v) (max_p h)
  | _ => true
  end.

Fixpoint servo_range_flags (h : servo) (ops : list sop) : list bool :=
  match ops with
  | [] => []
  | o :: r => servo_in_range h o :: servo_range_flags (sstate (sstep h o)) r
  end.

(* declaration guard: every argument is a number (the literals of the modelled declarations) *)
Definition decl_ok (a : servo_args) : bool :=
  snum_ok (dflt servo_default_pin (a_pin a)) &&
  snum_ok (dflt servo_default_min_angle (a_min_a a)) && snum_ok (dflt servo_default_max_angle (a_max_a a)) &&
  snum_ok (dflt servo_default_min_pulse (a_min_p a)) && snum_ok (dflt servo_default_max_pulse (a_max_p a)).

(* device = host on the state *)
Definition srel (h : servo) (d : dservo) : Prop :=
  min_a h == ds_min_a d /\ max_a h == ds_max_a d /\ min_p h == ds_min_p d /\ max_p h == ds_max_p d /\
  cur_a h == ds_angle d /\ cur_p h == ds_pulse d.

Definition hsinv (h : servo) : Prop := min_a h < max_a h /\ min_p h < max_p h.

(* device invariant: bounds ordered, shadow angle and pulse within them *)
Definition dsinv (d : dservo) : Prop :=
  ds_min_a d < ds_max_a d /\ ds_min_p d < ds_max_p d /\
  ds_min_a d <= ds_angle d <= ds_max_a d /\ ds_min_p d <= ds_pulse d <= ds_max_p d.

(* what the clamp clause says of one event: the integer handed to the library is the rounding
   (nearest integer, halves away from zero) of a value x within the configured bounds *)
Definition sdev_ok (d : dservo) (e : sdev) : Prop :=
  match e with
  | SAttach _ _ _ => True
  | SWriteDeg _ z => exists a, ds_min_a d <= a <= ds_max_a d /\ z = cround a
  | SWriteMicros _ z => exists p, ds_min_p d <= p <= ds_max_p d /\ z = cround p
  end.

Definition same_bounds (d d' : dservo) : Prop :=
  ds_pin d' = ds_pin d /\ ds_min_a d' = ds_min_a d /\ ds_max_a d' = ds_max_a d /\
  ds_min_p d' = ds_min_p d /\ ds_max_p d' = ds_max_p d.
