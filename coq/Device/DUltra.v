(* Device model of the generated ultrasonic helper  float __redu_ultrasonic_measure_<u>()
   (emitter.py, "ultrasonic_sections"), transcribed line by line (C15).  Model only.

   The outside world is explicit:
     clock   a record: virtual time in microseconds + number of delay() calls made so far
     drift   oracle  nat -> Z : the k-th delay(n) of the run advances the clock by n + drift k ms
             (drift k >= 0 is a hypothesis of the theorems: a delay never returns early)
     echo    oracle  nat -> Z : the k-th pulseIn of this sensor sees an echo of [echo k] us
             (<= 0 or above the 30000 us time-out: pulseIn returns 0 after the time-out)
   The clock record holds the *true* time since an arbitrary origin (unbounded Z, monotone).  What the
   program sees is  millis() = (microseconds / 1000) mod 2^W : an unsigned long of W bits that rolls
   over (W = 32 on an AVR, W = 64 for the hosted mock core; W is a parameter of every definition and
   the theorems quantify over it).  All arithmetic of the helper on unsigned long values is modulo
   2^W as well:  now - last_trigger  wraps, which is what makes the elapsed-time test roll-over safe. *)
From Coq Require Import ZArith QArith List Bool.
Import ListNotations.
Open Scope Z_scope.

Record clock := { now_us : Z; ndelay : nat }.

(* the unsigned long modulus *)
Definition modulus (W : Z) : Z := 2 ^ W.
Definition wrap (W : Z) (z : Z) : Z := z mod modulus W.

(* the true millisecond count, and what millis() returns *)
Definition true_ms (c : clock) : Z := now_us c / 1000.
Definition millis (W : Z) (c : clock) : Z := wrap W (true_ms c).

(* delay(n) *)
Definition do_delay (drift : nat -> Z) (c : clock) (n : Z) : clock :=
  {| now_us := now_us c + (n + drift (ndelay c)) * 1000; ndelay := S (ndelay c) |}.

(* delayMicroseconds(k) and any other passage of time that is not a delay() call *)
Definition tick_us (c : clock) (k : Z) : clock :=
  {| now_us := now_us c + k; ndelay := ndelay c |}.

(* pulseIn(echo, HIGH, 30000UL): value returned for an echo of e microseconds ... *)
Definition pulse_timeout : Z := 30000.
Definition pulse_result (e : Z) : Z :=
  if (e <? 0) || (pulse_timeout <? e) then 0 else e.
(* ... and the time it takes: the echo, or the whole time-out *)
Definition pulse_cost (r : Z) : Z := if 0 <? r then r else pulse_timeout.

(* the four function statics *)
Record ustate := { last_trig : Z; has_trig : bool; last_dist : Q; has_dist : bool }.   (* last_trig: an unsigned long, 0 <= . < 2^W *)

(*  static unsigned long __redu_last_trigger_ms = 0UL;
    static bool __redu_has_triggered = false;
    static float __redu_last_distance = 400.0f;
    static bool __redu_has_distance = false;            *)
Definition u_init : ustate := {| last_trig := 0; has_trig := false; last_dist := 400 # 1; has_dist := false |}.

Definition min_interval : Z := 60.      (* const unsigned long __redu_min_interval_ms = 60UL; *)
Definition max_attempts : nat := 3.     (* const unsigned int  __redu_max_attempts   = 3U;   *)

(*  (static_cast<float>(duration) * 0.0343f) / 2.0f   on exact rationals *)
Definition dist_of (dur : Z) : Q := (inject_Z dur * (343 # 10000)) / (2 # 1).

Inductive uev :=
| UDelay (ms : Z)                          (* delay(ms) issued by the helper (back-off) *)
| UTrig (t : Z) (dur : Z) (stamp : Z).     (* trigger pulse: HIGH edge at true time t (us), pulseIn returned dur,
                                              millis() then stored in __redu_last_trigger_ms = stamp (wrapped) *)

(*  unsigned long now = millis();
    if (has_triggered) {
      unsigned long elapsed = now - last_trigger;
      if (elapsed < min_interval) { delay(min_interval - elapsed); now = millis(); } }   *)
Definition backoff_delay (W : Z) (st : ustate) (c : clock) : option Z :=
  let now := millis W c in
  if negb (has_trig st) then None
  else let elapsed := wrap W (now - last_trig st) in            (* unsigned subtraction *)
       if elapsed <? min_interval then Some (min_interval - elapsed) else None.

Definition after_backoff (W : Z) (drift : nat -> Z) (st : ustate) (c : clock) : clock :=
  match backoff_delay W st c with
  | Some n => do_delay drift c n
  | None => c
  end.

Record attempt := { a_delay : option Z; a_t : Z; a_dur : Z; a_stamp : Z; a_clk : clock }.

(* one iteration of the for loop up to and including  last_trigger = millis(); has_triggered = true; *)
Definition u_attempt (W : Z) (drift echo : nat -> Z) (st : ustate) (c : clock) (np : nat) : attempt :=
  let c1 := after_backoff W drift st c in
  let c2 := tick_us c1 2 in                   (* digitalWrite(trig, LOW); delayMicroseconds(2); *)
  let t := now_us c2 in                       (* digitalWrite(trig, HIGH);                      *)
  let c3 := tick_us c2 10 in                  (* delayMicroseconds(10); digitalWrite(trig, LOW); *)
  let dur := pulse_result (echo np) in        (* duration = pulseIn(echo, HIGH, 30000UL);       *)
  let c4 := tick_us c3 (pulse_cost dur) in
  {| a_delay := backoff_delay W st c; a_t := t; a_dur := dur;
     a_stamp := millis W c4;                    (* last_trigger = millis();                       *)
     a_clk := c4 |}.

Definition attempt_events (a : attempt) : list uev :=
  match a_delay a with Some d => [UDelay d] | None => [] end ++ [UTrig (a_t a) (a_dur a) (a_stamp a)].

Record ures := { r_val : Q; r_st : ustate; r_clk : clock; r_np : nat; r_evs : list uev }.

(*  for (attempt = 0; attempt < max_attempts; ++attempt) {
      ... one attempt ...
      if (duration > 0UL) { distance = ...; last_distance = distance; has_distance = true; return distance; }
    }
    if (has_distance) return last_distance;
    return 400.0f;                                                                          *)
Fixpoint u_loop (W : Z) (n : nat) (drift echo : nat -> Z) (st : ustate) (c : clock) (np : nat) : ures :=
  match n with
  | O =>
      {| r_val := if has_dist st then last_dist st else 400 # 1;
         r_st := st; r_clk := c; r_np := np; r_evs := [] |}
  | S k =>
      let a := u_attempt W drift echo st c np in
      if 0 <? a_dur a then
        {| r_val := dist_of (a_dur a);
           r_st := {| last_trig := a_stamp a; has_trig := true; last_dist := dist_of (a_dur a); has_dist := true |};
           r_clk := a_clk a; r_np := S np; r_evs := attempt_events a |}
      else
        let r := u_loop W k drift echo
                   {| last_trig := a_stamp a; has_trig := true; last_dist := last_dist st; has_dist := has_dist st |}
                   (a_clk a) (S np) in
        {| r_val := r_val r; r_st := r_st r; r_clk := r_clk r; r_np := r_np r;
           r_evs := attempt_events a ++ r_evs r |}
  end.

Definition u_measure (W : Z) := u_loop W max_attempts.

(* ---- histories: calls separated by arbitrary stretches of other activity *)
Record gap := { g_us : Z; g_delays : nat }.   (* time passed, delay() calls made by others in between *)

Definition pass_gap (c : clock) (g : gap) : clock :=
  {| now_us := now_us c + g_us g; ndelay := (ndelay c + g_delays g)%nat |}.

(* every call of the history: pulse index at entry, and the call's result record *)
Fixpoint u_calls (W : Z) (drift echo : nat -> Z) (st : ustate) (c : clock) (np : nat) (gs : list gap)
  : list (nat * ures) :=
  match gs with
  | [] => []
  | g :: r =>
      let res := u_measure W drift echo st (pass_gap c g) np in
      (np, res) :: u_calls W drift echo (r_st res) (r_clk res) (r_np res) r
  end.

Definition history_events (h : list (nat * ures)) : list uev := flat_map (fun x => r_evs (snd x)) h.

(* ---- observations / specification side *)
Definition trig_of (e : uev) : list (Z * Z * Z) :=
  match e with UTrig t d m => [(t, d, m)] | UDelay _ => [] end.
Definition trigs (evs : list uev) : list (Z * Z * Z) := flat_map trig_of evs.

(* two consecutive triggers are at least 60 ms of *true* time (whole milliseconds of the un-wrapped
   clock) apart - whatever unsigned long was stored after the first one *)
Definition spaced (a b : Z * Z * Z) : Prop :=
  let '(t1, _, _) := a in let '(t2, _, _) := b in
  t2 / 1000 - t1 / 1000 >= min_interval.

Fixpoint all_spaced (l : list (Z * Z * Z)) : Prop :=
  match l with
  | a :: ((b :: _) as r) => spaced a b /\ all_spaced r
  | _ => True
  end.

(* the last echo among pulses 0..n-1 that did not time out *)
Fixpoint last_good (echo : nat -> Z) (n : nat) : option Z :=
  match n with
  | O => None
  | S k => if 0 <? pulse_result (echo k) then Some (pulse_result (echo k)) else last_good echo k
  end.

Definition timed_out (echo : nat -> Z) (k : nat) : Prop := pulse_result (echo k) = 0.
