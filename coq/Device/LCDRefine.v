(* The refinement relation between the host LCD model and the firmware LCD model, and the
   executable guard of the C17 _partial theorems.  Definitions only. *)
From Coq Require Import ZArith List Bool.
From RV Require Import Base.LcdBase Host.LCD Device.DLCD.
Import ListNotations.
Open Scope Z_scope.

(* "the characters the firmware leaves on the display are exactly those in the host-side
   LCD's buffer" (block glyph identified), same declaration, and the backlight shadow
   state agrees *)
Definition shows (h : hlcd) (d : dlcd) : Prop :=
  h_g h = d_g d /\
  buf_wf (h_cols h) (h_rows h) (h_buf h) /\
  cells d = map (map canon) (h_buf h).

(* a call inside the quantifier of C17 on which host and firmware are meant to agree *)
Definition op_guard (g : geom) (op : lop) : bool :=
  match op with
  | OWrite col row text clear align => row_in g row && col_in g col && asciib text && align_ok align
  | OLine row text align clear => row_in g row && asciib text && align_ok align
  | OMessage top bottom ta ba clear =>
      opt_asciib top && opt_asciib bottom && align_ok ta && align_ok ba
  | OClear => true
  | OProgress row value maxv width style label =>
      row_in g row && style_ok style && asciib label
      && (hfilled value maxv (hwidth (g_cols g) width) =? dfilled value maxv (dwidth (g_cols g) width))
           (* the statement allows the two bars to differ by one cell otherwise *)
  | ODisplay _ | OBacklight _ => true
  | OBrightness level =>
      negb (g_i2c g) && negb (is_none (g_blpin g)) && (0 <=? level) && (level <=? 255)
  | OGlyph slot bitmap => (0 <=? slot) && (slot <=? 7) && (zlen bitmap =? 8)
  end.

(* ---------- vocabulary of the theorems ---------- *)

(* a cell write stays in [row] and inside the width *)
Definition ev_in_row (row cols : Z) (e : dev_ev) : Prop :=
  match e with EvW r c _ => r = row /\ 0 <= c < cols | _ => True end.
(* cell writes of a message call: row 0 / row 1 *)
Definition ev_in_rows01 (cols : Z) (e : dev_ev) : Prop :=
  match e with EvW r c _ => (r = 0 \/ r = 1) /\ 0 <= c < cols | _ => True end.
(* events a text call may produce: cursor moves, cell writes, clear *)
Definition text_ev (e : dev_ev) : Prop :=
  match e with EvSC _ _ | EvW _ _ _ | EvCLR => True | _ => False end.

(* rows a call may write cells of (message: row 0 for top, row 1 for bottom when the
   display has a second row - on a one-row display bottom is skipped by both sides) *)
Definition touched (g : geom) (op : lop) : list Z :=
  match op with
  | OWrite _ row _ _ _ => [row]
  | OLine row _ _ _ => [row]
  | OMessage top bottom _ _ _ =>
      (if is_none top then [] else [0]) ++ (if is_none bottom || (g_rows g <=? 1) then [] else [1])
  | OClear => zseq (g_rows g)
  | OProgress row _ _ _ _ _ => [row]
  | ODisplay _ | OBacklight _ | OBrightness _ | OGlyph _ _ => []
  end.
(* a cell write lands in one of [rows] and inside the width *)
Definition ev_in_rows (rows : list Z) (cols : Z) (e : dev_ev) : Prop :=
  match e with EvW r c _ => In r rows /\ 0 <= c < cols | _ => True end.
(* the geometric part of the guard only: row and column in range, argument codes valid;
   any text (also non-ASCII), any value / max_value / width *)
Definition geo_guard (g : geom) (op : lop) : bool :=
  match op with
  | OWrite col row _ _ align => row_in g row && col_in g col && align_ok align
  | OLine row _ align _ => row_in g row && align_ok align
  | OMessage _ _ ta ba _ => align_ok ta && align_ok ba
  | OProgress row _ _ _ style _ => row_in g row && style_ok style
  | OClear | ODisplay _ | OBacklight _ | OBrightness _ | OGlyph _ _ => true
  end.
(* row r of the host buffer *)
Definition hrow (h : hlcd) (r : Z) : list Z := znth r (h_buf h) [].

(* newest glyph upload into a CGRAM slot *)
Fixpoint last_cg (slot : Z) (l : list dev_ev) : option (list Z) :=
  match l with
  | [] => None
  | EvCG loc rows :: r => if loc =? slot then Some rows else last_cg slot r
  | _ :: r => last_cg slot r
  end.

(* backlight: what the pin / the backpack was last told, against the host flags *)
Definition bl_agree (h : hlcd) (d : dlcd) : Prop :=
  if g_i2c (d_g d) then last_bl (d_log d) = Some (h_backlight h)
  else match g_blpin (d_g d) with
       | Some p => last_aw p (d_log d) = Some (if h_backlight h then h_bright h else 0)
                   /\ d_blstate d = h_backlight h /\ d_bright d = h_bright h /\ 0 <= h_bright h <= 255
       | None => True
       end.

(* glyphs: every slot holds on the device what the host stores *)
Definition glyph_agree (h : hlcd) (d : dlcd) : Prop :=
  forall slot, 0 <= slot <= 7 -> gget slot (h_glyphs h) = last_cg slot (d_log d).

Definition agrees (h : hlcd) (d : dlcd) : Prop := shows h d /\ bl_agree h d /\ glyph_agree h d.

(* no call of the history raises on the host *)
Fixpoint hsteps_ok (h : hlcd) (ops : list lop) : Prop :=
  match ops with
  | [] => True
  | op :: r => snd (hstep h op) = HOk /\ hsteps_ok (fst (hstep h op)) r
  end.
