(* Pinned specification scores of the seven built-in melodies (property C16: "melody plays exactly
   the named tune's notes in order").  Data only.

   Source: derived ONCE from emitter._BUZZER_MELODIES of the pinned Reduino tree (/repo at bbb6407,
   src/Reduino/transpile/emitter.py lines 731-782) and the descriptions in
   src/Reduino/Actuators/Buzzer.py's docstring ("rising triad", "C-E-G-C arpeggio", "ascending
   C-major scale", "alternating high/low notes that repeat", "two-note siren", "double ping",
   "descending blip resolving to a low hold").  Frequencies are the equal-tempered pitches (A4 = 440 Hz)
   rounded to 0.01 Hz, as that table writes them; durations are in beats; the tempo is the tune's
   default in beats per minute.  This file is NOT regenerated: a later change of the emitter's table
   makes theorem C16_tables_agree fail. *)
From Coq Require Import ZArith QArith List.
From RV Require Import Base.Wire Base.Text Device.DBuzzer.
Import ListNotations.
Open Scope Z_scope.

(* frequency given in hundredths of a hertz, reduced *)
Definition hz100 (c : Z) : Q := Qred (Qmake c 100).

Definition rest : Q := hz100 0.
Definition C4 : Q := hz100 26163.
Definition D4 : Q := hz100 29366.
Definition E4 : Q := hz100 32963.
Definition F4 : Q := hz100 34923.
Definition G4 : Q := hz100 39200.
Definition A4 : Q := hz100 44000.
Definition B4 : Q := hz100 49388.
Definition C5 : Q := hz100 52325.
Definition E5 : Q := hz100 65925.
Definition G5 : Q := hz100 78399.

Definition whole : Q := Qmake 1 1.
Definition half : Q := Qmake 1 2.
Definition quarter : Q := Qmake 1 4.
Definition three_quarters : Q := Qmake 3 4.
Definition one_and_half : Q := Qmake 3 2.
Definition bpm (t : Z) : Q := Qmake t 1.

(* "success" *)  Definition n_success : text := [115;117;99;99;101;115;115].
(* "error" *)    Definition n_error : text := [101;114;114;111;114].
(* "startup" *)  Definition n_startup : text := [115;116;97;114;116;117;112].
(* "notify" *)   Definition n_notify : text := [110;111;116;105;102;121].
(* "alarm" *)    Definition n_alarm : text := [97;108;97;114;109].
(* "scale_c" *)  Definition n_scale_c : text := [115;99;97;108;101;95;99].
(* "siren" *)    Definition n_siren : text := [115;105;114;101;110].

Definition spec_melodies : list (text * score) := [
  (n_success, (bpm 240, [(C5, half); (E5, half); (G5, whole)]));
  (n_error,   (bpm 200, [(E4, half); (C4, one_and_half)]));
  (n_startup, (bpm 200, [(C4, half); (E4, half); (G4, half); (C5, whole)]));
  (n_notify,  (bpm 240, [(G5, quarter); (rest, quarter); (G5, half)]));
  (n_alarm,   (bpm 200, [(C5, half); (G4, half); (C5, half); (G4, half);
                         (C5, half); (G4, half); (C5, half); (G4, half)]));
  (n_scale_c, (bpm 200, [(C4, half); (D4, half); (E4, half); (F4, half);
                         (G4, half); (A4, half); (B4, half); (C5, whole)]));
  (n_siren,   (bpm 180, [(E5, three_quarters); (C5, three_quarters); (E5, three_quarters);
                         (C5, three_quarters); (E5, three_quarters); (C5, three_quarters)]))
].

Definition spec_names : list text :=
  [n_success; n_error; n_startup; n_notify; n_alarm; n_scale_c; n_siren].
