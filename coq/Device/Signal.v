(* Per-pin level signals (DESIGN.md section 1, "Events / traces"; property C04).

   A trace is a list of [tev]: a level written to a channel (a pin; digitalWrite HIGH = 255,
   LOW = 0, analogWrite v = v, Servo.write a = a on the servo's channel ...) or a delay in
   whole milliseconds.  [canon] turns it into the timed signal the property talks about:
   writes that do not change the level of their channel are dropped, delays are accumulated
   into time stamps; the result is the list of (time, channel, new level) plus the total
   duration.  Every channel starts at level 0 (an OUTPUT pin after reset is LOW).

   The same function (extracted) canonicalises the REAL firmware traces and the REAL host
   traces in harness/props/c04*.py, so model and check cannot disagree on it.
   Definitions only; lemmas are in Proofs/SignalP.v. *)
From Coq Require Import ZArith List Bool.
Import ListNotations.
Open Scope Z_scope.

Inductive tev : Type :=
| TL (ch v : Z)        (* level v written to channel ch *)
| TD (ms : Z).         (* delay(ms) *)

Definition lmap : Type := list (Z * Z).

Fixpoint lookup (m : lmap) (c : Z) : Z :=
  match m with
  | [] => 0
  | (k, v) :: r => if k =? c then v else lookup r c
  end.

(* canonicaliser state: current level of every channel, elapsed time *)
Definition cst : Type := (lmap * Z)%type.
Definition citem : Type := (Z * Z * Z)%type.      (* time, channel, level *)

Definition cstep (s : cst) (e : tev) : cst * list citem :=
  let '(m, t) := s in
  match e with
  | TL c v => if lookup m c =? v then (s, []) else (((c, v) :: m, t), [(t, c, v)])
  | TD d => ((m, t + d), [])
  end.

Fixpoint crun (s : cst) (tr : list tev) : cst * list citem :=
  match tr with
  | [] => (s, [])
  | e :: r =>
      let '(s1, o1) := cstep s e in
      let '(s2, o2) := crun s1 r in
      (s2, o1 ++ o2)
  end.

Definition cinit : cst := ([], 0).

(* the canonical signal: level changes with their time stamps, and the total duration *)
Definition canon (tr : list tev) : list citem * Z :=
  let '((_, t), o) := crun cinit tr in (o, t).

(* the last level written to channel [c] in a trace ([d] if none) *)
Fixpoint last_lv (c : Z) (tr : list tev) (d : Z) : Z :=
  match tr with
  | [] => d
  | TL c' v :: r => last_lv c r (if c' =? c then v else d)
  | TD _ :: r => last_lv c r d
  end.

(* the signal of one channel *)
Definition on_channel (c : Z) (o : list citem) : list (Z * Z) :=
  map (fun i => (fst (fst i), snd i)) (filter (fun i => snd (fst i) =? c) o).
