(* The validations of Servo.py and DCMotor.py that face IEEE specials, modelled over floats WITH
   specials (Base/XFloat.v).  These are the places that used to let NaN / infinities through
   (findings F-C19-servo-nonfinite-bound, F-C19-motor-nan-speed, F-C19-motor-nonfinite-duration,
   repaired in the project; the text below is the repaired code).  Everything else about the
   two classes is modelled over finite floats in Host/Servo.v and Host/DCMotor.v.

     Servo.__init__      if not min_angle < max_angle: raise ValueError
                         if not min_pulse_us < max_pulse_us: raise ValueError
                         if not all(math.isfinite(b) for b in (the four bounds)): raise ValueError
     DCMotor._clamp_speed  speed = float(value)                       (TypeError)
                           if math.isnan(speed): raise ValueError
                           if speed > 1.0: return 1.0
                           if speed < -1.0: return -1.0; return speed
     DCMotor._check_duration  if duration_ms < 0: raise ValueError
                              if not math.isfinite(duration_ms): raise ValueError
                              (an int beyond the float range counts as not finite)
     DCMotor.set_speed   speed = self._clamp_speed(value); self._speed = speed; self._apply_speed(speed)
     DCMotor.backward    magnitude = abs(self._clamp_speed(speed)); self.set_speed(-magnitude)
     DCMotor.run_for     self._check_duration(duration_ms)
                         self.set_speed(speed); _sleep(duration_ms); self.stop()
     DCMotor.ramp        self._check_duration(duration_ms); target = clamp(...)
                         delay_ms = duration_ms / 20
                         for step in 1..20: self.set_speed(...); if delay_ms > 0: _sleep(delay_ms)
     Reduino.Utils.sleep if duration < 0: raise ValueError; time.sleep(float(duration) / 1000.0)
     time.sleep          ValueError for NaN ("Invalid value NaN"), OverflowError for +inf
                         ("timestamp out of range"), ValueError for negatives

   [sleep_rejects] is a LOWER bound of what the real sleep rejects (huge finite durations are
   rejected too by the platform's time.sleep; they are outside this model).  The calls below keep the
   raise points inside _sleep, as the code does; Proofs/ActuatorsXP.v shows that no duration that
   passes _check_duration reaches them.
   No proofs in this file. *)
From Coq Require Import ZArith QArith List Bool.
From RV Require Import Base.Wire Base.NumM Base.XFloat Gen.C19Motor Host.DCMotor.
Import ListNotations.
Open Scope Q_scope.

(* ---- Servo.__init__ : the three bound checks ---- *)
Definition servo_bounds_accepted (mina maxa minp maxp : xfloat) : bool :=
  xlt mina maxa && xlt minp maxp && forallb xfinite [mina; maxa; minp; maxp].

(* ---- DCMotor._clamp_speed on a float; None = raises ValueError ---- *)
Definition xclamp (x : xfloat) : option xfloat :=
  if xnan x then None
  else if xgt x (XFin 1) then Some (XFin 1) else if xlt x (XFin (-(1))) then Some (XFin (-(1))) else Some x.

Definition in_unit (x : xfloat) : Prop :=
  match x with XFin q => -(1) <= q /\ q <= 1 | _ => False end.

(* ---- durations ---- *)
Inductive xexn : Type := XValueError | XTypeError | XOverflowError.
Inductive xresult : Type := XOk | XRaised (k : xexn).

(* DCMotor._check_duration on a float: true = raises ValueError *)
Definition dur_rejected (d : xfloat) : bool := xlt d (XFin 0) || negb (xfinite d).

(* what Reduino.Utils.sleep + time.sleep do with a duration (lower bound of the rejections) *)
Definition sleep_rejects (d : xfloat) : option xexn :=
  match d with
  | XNaN => Some XValueError
  | XPInf => Some XOverflowError
  | XNInf => Some XValueError
  | XFin q => if Qltb q 0 then Some XValueError else None
  end.

(* duration_ms / 20 *)
Definition xdiv20 (d : xfloat) : xfloat :=
  match d with XFin q => XFin (q / 20) | other => other end.

(* a speed argument: an int / finite float / bool / non-number, or a float that may be special *)
Inductive xarg : Type := XNum (v : pynum) | XSpec (x : xfloat).

(* _clamp_speed on any scalar argument: the clamped speed or the exception kind *)
Definition clamp_speed_x (a : xarg) : Q + xexn :=
  match a with
  | XNum v => match clamp_speed v with Some q => inl q | None => inr XTypeError end
  | XSpec x =>
      match xclamp x with
      | None => inr XValueError
      | Some (XFin q) => inl q
      | Some _ => inr XOverflowError     (* never: xclamp returns finite floats (xclamp_result) *)
      end
  end.

Definition raised_x (m : motor) (k : xexn) : motor * list mev * xresult := (m, [], XRaised k).
Definition ok_x (g : lastcmd) (r : motor * list mev) : motor * list mev * xresult :=
  (with_ghost (fst r) g, snd r, XOk).

(* the calls of DCMotor that take a speed and/or a duration, with arguments that may be special *)
Inductive mopx : Type :=
| XSetSpeed (a : xarg)
| XBackward (a : xarg)
| XRamp (t : xarg) (d : xfloat)
| XRunFor (d : xfloat) (v : xarg).

Definition set_speed_x (m : motor) (a : xarg) : motor * list mev * xresult :=
  match clamp_speed_x a with
  | inr k => raised_x m k
  | inl q => ok_x LastOther (set_speed_q m q)
  end.

Definition backward_x (m : motor) (a : xarg) : motor * list mev * xresult :=
  match clamp_speed_x a with
  | inr k => raised_x m k
  | inl q => ok_x LastOther (set_speed_q m (- qabs q))
  end.

(* run_for(duration_ms, speed).  Finite accepted durations behave exactly as [mstep m (MRunFor ..)]. *)
Definition run_for_x (m : motor) (d : xfloat) (v : xarg) : motor * list mev * xresult :=
  if dur_rejected d then raised_x m XValueError
  else match clamp_speed_x v with
       | inr k => raised_x m k
       | inl q =>
           let '(m1, e1) := set_speed_q m q in
           match sleep_rejects d with
           | Some k => (m1, e1, XRaised k)            (* raised inside _sleep: stop() never runs *)
           | None =>
               let '(m2, e2) := halt m1 Brake in
               (with_ghost m2 LastStop, e1 ++ [MSleep (match d with XFin q' => q' | _ => 0 end)] ++ e2, XOk)
           end
       end.

(* ramp(target, duration_ms) *)
Definition ramp_x (m : motor) (t : xarg) (d : xfloat) : motor * list mev * xresult :=
  if dur_rejected d then raised_x m XValueError
  else match clamp_speed_x t with
       | inr k => raised_x m k
       | inl target =>
           let delay := xdiv20 d in
           if xgt delay (XFin 0) then
             match sleep_rejects delay with
             | Some k =>
                 (* the first set_speed is applied, then _sleep raises *)
                 let start := speed m in
                 let sv := (target - start) / inject_Z dc_ramp_steps in
                 let '(m1, e1) := set_speed_q m (start + sv * 1) in
                 (m1, e1, XRaised k)
             | None =>
                 let r := ramp_run m target (match d with XFin q' => q' | _ => 0 end) in
                 (with_ghost (fst r) LastOther, snd r, XOk)
             end
           else
             (* delay_ms > 0 is False: no sleep at all *)
             let r := ramp_run m target 0 in
             (with_ghost (fst r) LastOther, snd r, XOk)
       end.

Definition mstep_x (m : motor) (o : mopx) : motor * list mev * xresult :=
  match o with
  | XSetSpeed a => set_speed_x m a
  | XBackward a => backward_x m a
  | XRamp t d => ramp_x m t d
  | XRunFor d v => run_for_x m d v
  end.

(* histories that mix ordinary calls (Host/DCMotor.v) and calls with special arguments *)
Definition xstate (r : motor * list mev * xresult) : motor := fst (fst r).
Definition xevents (r : motor * list mev * xresult) : list mev := snd (fst r).
Definition xres (r : motor * list mev * xresult) : xresult := snd r.

Definition anyop : Type := (mop + mopx)%type.

Definition step_any (m : motor) (o : anyop) : motor :=
  match o with inl op => mstate (mstep m op) | inr ox => xstate (mstep_x m ox) end.

Definition mrun_any (ops : list anyop) (m : motor) : motor := fold_left step_any ops m.

(* the ordinary call a call with special arguments amounts to, when it is not rejected outright:
   a finite float is itself, +inf / -inf as a speed clamp like 2 / -2; None = the call raises ValueError
   whatever its other argument is (NaN speed, NaN or infinite duration) *)
Definition arg_lower (a : xarg) : option pynum :=
  match a with
  | XNum v => Some v
  | XSpec (XFin q) => Some (PF q)
  | XSpec XPInf => Some (PI 2)
  | XSpec XNInf => Some (PI (-2))
  | XSpec XNaN => None
  end.

Definition dur_lower (d : xfloat) : option pynum :=
  match d with XFin q => Some (PF q) | _ => None end.

Definition lower (o : mopx) : option mop :=
  match o with
  | XSetSpeed a => match arg_lower a with Some v => Some (MSetSpeed v) | None => None end
  | XBackward a => match arg_lower a with Some v => Some (MBackward (Some v)) | None => None end
  | XRamp t d =>
      match arg_lower t, dur_lower d with Some t', Some d' => Some (MRamp t' d') | _, _ => None end
  | XRunFor d v =>
      match dur_lower d, arg_lower v with Some d', Some v' => Some (MRunFor d' v') | _, _ => None end
  end.
