(* The validations of Servo.py and DCMotor.py that let IEEE specials through, modelled over
   floats WITH specials (Base/XFloat.v).  These are the three places behind the listed
   findings of C19_servo / C19_motor; everything else about the two classes is modelled over
   finite floats in Host/Servo.v and Host/DCMotor.v.

     Servo.__init__      if min_angle >= max_angle: raise ValueError
                         if min_pulse_us >= max_pulse_us: raise ValueError
     DCMotor._clamp_speed  speed = float(value); if speed > 1.0: return 1.0
                           if speed < -1.0: return -1.0; return speed
     DCMotor.run_for     if duration_ms < 0: raise ValueError
                         self.set_speed(speed); _sleep(duration_ms); self.stop()
     DCMotor.ramp        if duration_ms < 0: raise ValueError; target = clamp(...)
                         delay_ms = duration_ms / 20
                         for step in 1..20: self.set_speed(...); if delay_ms > 0: _sleep(delay_ms)
     Reduino.Utils.sleep if duration < 0: raise ValueError; time.sleep(float(duration) / 1000.0)
     time.sleep          ValueError for NaN ("Invalid value NaN"), OverflowError for +inf
                         ("timestamp out of range"), ValueError for negatives

   [sleep_rejects] is a LOWER bound of what the real sleep rejects (huge finite durations are
   rejected too; they are outside this model and outside the guard of the finding).
   No proofs in this file. *)
From Coq Require Import ZArith QArith List Bool.
From RV Require Import Base.Wire Base.NumM Base.XFloat Gen.C19Motor Host.DCMotor.
Import ListNotations.
Open Scope Q_scope.

(* ---- Servo.__init__ : the two bound checks ---- *)
Definition servo_bounds_accepted (mina maxa minp maxp : xfloat) : bool :=
  negb (xge mina maxa) && negb (xge minp maxp).

(* ---- DCMotor._clamp_speed on a float ---- *)
Definition xclamp (x : xfloat) : xfloat :=
  if xgt x (XFin 1) then XFin 1 else if xlt x (XFin (-(1))) then XFin (-(1)) else x.

Definition in_unit (x : xfloat) : Prop :=
  match x with XFin q => -(1) <= q /\ q <= 1 | _ => False end.

(* ---- durations ---- *)
Inductive xexn : Type := XValueError | XTypeError | XOverflowError.
Inductive xresult : Type := XOk | XRaised (k : xexn).

(* the check  duration_ms < 0  of run_for / ramp *)
Definition dur_rejected (d : xfloat) : bool := xlt d (XFin 0).

(* what Reduino.Utils.sleep + time.sleep do with a duration (lower bound of the rejections) *)
Definition sleep_rejects (d : xfloat) : option xexn :=
  match d with
  | XNaN => Some XValueError
  | XPInf => Some XOverflowError
  | XNInf => Some XValueError
  | XFin q => if Qltb q 0 then Some XValueError else None
  end.

(* duration_ms / 20 *)
Definition xdiv20 (d : xfloat) : xfloat :=
  match d with XFin q => XFin (q / 20) | other => other end.

(* run_for(duration_ms, speed) with a float duration that may be special; the speed is a
   finite scalar.  Finite accepted durations behave exactly as [mstep m (MRunFor ..)]. *)
Definition run_for_x (m : motor) (d : xfloat) (v : pynum) : motor * list mev * xresult :=
  if dur_rejected d then (m, [], XRaised XValueError)
  else match clamp_speed v with
       | None => (m, [], XRaised XTypeError)
       | Some q =>
           let '(m1, e1) := set_speed_q m q in
           match sleep_rejects d with
           | Some k => (m1, e1, XRaised k)            (* raised inside _sleep: stop() never runs *)
           | None =>
               let '(m2, e2) := halt m1 Brake in
               (with_ghost m2 LastStop, e1 ++ [MSleep (match d with XFin q' => q' | _ => 0 end)] ++ e2, XOk)
           end
       end.

(* ramp(target, duration_ms) with a float duration that may be special *)
Definition ramp_x (m : motor) (t : pynum) (d : xfloat) : motor * list mev * xresult :=
  if dur_rejected d then (m, [], XRaised XValueError)
  else match clamp_speed t with
       | None => (m, [], XRaised XTypeError)
       | Some target =>
           let delay := xdiv20 d in
           if xgt delay (XFin 0) then
             match sleep_rejects delay with
             | Some k =>
                 (* the first set_speed is applied, then _sleep raises *)
                 let start := speed m in
                 let sv := (target - start) / inject_Z dc_ramp_steps in
                 let '(m1, e1) := set_speed_q m (start + sv * 1) in
                 (m1, e1, XRaised k)
             | None =>
                 let r := ramp_run m target (match d with XFin q' => q' | _ => 0 end) in
                 (with_ghost (fst r) LastOther, snd r, XOk)
             end
           else
             (* delay_ms > 0 is False (0, -0.0 or NaN): no sleep at all *)
             let r := ramp_run m target 0 in
             (with_ghost (fst r) LastOther, snd r, XOk)
       end.
