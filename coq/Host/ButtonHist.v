(* Host Button (src/Reduino/Sensors/Button.py) as a state machine over whole call histories, for C15's clause
   "the same click count the host-side Button produces for the same signal".  Model only: no proofs here.

   Transcribed from Button.py:
     __init__      self._on_click = on_click; self._state_provider = state_provider
                   self._pressed = False; self._was_pressed = False
     set_pressed   self._pressed = bool(pressed)                           -- nothing else: _was_pressed is NOT touched
     is_pressed    pressed = self._pressed  if self._state_provider is None  else bool(self._state_provider())
                   if pressed and not self._was_pressed and self._on_click is not None: self._on_click()
                   self._was_pressed = pressed
                   return 1 if pressed else 0
   The host takes one SAMPLE per is_pressed() call; set_pressed only changes the level the next sample will see.  Any
   number of set_pressed calls may lie between two samples (contact bounce, a short release, a fixture replaying a finer
   trace): levels that were never sampled must not matter.

   The on_click handler is the user's function.  As on the device (DButton.v: [Some n] = a handler that evaluates
   is_pressed() of its own button n times) the handler may itself call is_pressed().  On the host that call is a full
   is_pressed(): it runs BEFORE the outer call stores _was_pressed, so it sees "pressed and not was" again and enters the
   handler again - Python recursion, bounded only by the interpreter's recursion limit.  The model makes the limit an
   explicit [depth]; running out of depth is RecursionError (ok = false), the state is left as Python leaves it (the
   assignment to _was_pressed of every unfinished call is skipped).

   The provider is the outside world: an oracle [prov : nat -> bool] (the truth value of the k-th value the provider
   callable returns) and a counter of provider calls in the state. *)
From Coq Require Import ZArith List Bool Arith.
From RV Require Import Base.NumC.
Import ListNotations.

Record hcfg := { hc_click : option nat;      (* None: no on_click; Some n: a handler that calls is_pressed() n times *)
                 hc_provider : bool }.       (* a state_provider was given *)

Record hstate := { hs_pressed : bool;        (* _pressed *)
                   hs_was : bool;            (* _was_pressed *)
                   hs_np : nat }.            (* provider calls made so far *)

Definition hs_init : hstate := {| hs_pressed := false; hs_was := false; hs_np := 0 |}.

Inductive hev :=
| HClick                 (* on_click entered *)
| HRet (v : bool).       (* an is_pressed() call returned v (1 / 0) *)

Definition hres := (hstate * list hev * bool)%type.     (* state, events, ok (false = RecursionError) *)

(* n calls in sequence (the body of the handler); stops at the first call that does not return *)
Fixpoint iter_calls (call : hstate -> hres) (n : nat) (s : hstate) : hres :=
  match n with
  | O => (s, [], true)
  | S m =>
      match call s with
      | (s1, e1, true) =>
          match iter_calls call m s1 with (s2, e2, ok2) => (s2, e1 ++ e2, ok2) end
      | (s1, e1, false) => (s1, e1, false)
      end
  end.

Definition set_was (s : hstate) (w : bool) : hstate :=
  {| hs_pressed := hs_pressed s; hs_was := w; hs_np := hs_np s |}.

(* is_pressed() *)
Fixpoint h_poll (depth : nat) (cfg : hcfg) (prov : nat -> bool) (s : hstate) : hres :=
  match depth with
  | O => (s, [], false)
  | S d =>
      let pressed := if hc_provider cfg then prov (hs_np s) else hs_pressed s in
      let s1 := if hc_provider cfg
                then {| hs_pressed := hs_pressed s; hs_was := hs_was s; hs_np := S (hs_np s) |} else s in
      match hc_click cfg with
      | Some n =>
          if pressed && negb (hs_was s1)
          then match iter_calls (h_poll d cfg prov) n s1 with       (* self._on_click() *)
               | (s2, ev, true) => (set_was s2 pressed, HClick :: ev ++ [HRet pressed], true)
               | (s2, ev, false) => (s2, HClick :: ev, false)
               end
          else (set_was s1 pressed, [HRet pressed], true)
      | None => (set_was s1 pressed, [HRet pressed], true)
      end
  end.

(* set_pressed(v) *)
Definition h_set (s : hstate) (v : pynum) : hstate :=
  {| hs_pressed := truthy v; hs_was := hs_was s; hs_np := hs_np s |}.

Inductive hop :=
| HSet (v : pynum)       (* b.set_pressed(v) *)
| HPoll.                 (* b.is_pressed() *)

Definition is_hset (o : hop) : bool := match o with HSet _ => true | HPoll => false end.

(* one event list per call (empty for set_pressed); a history ends at the first call that raises *)
Fixpoint h_hist (depth : nat) (cfg : hcfg) (prov : nat -> bool) (s : hstate) (ops : list hop) : list (list hev) * bool :=
  match ops with
  | [] => ([], true)
  | HSet v :: r => let '(l, ok) := h_hist depth cfg prov (h_set s v) r in ([] :: l, ok)
  | HPoll :: r =>
      match h_poll depth cfg prov s with
      | (s1, ev, true) => let '(l, ok) := h_hist depth cfg prov s1 r in (ev :: l, ok)
      | (_, ev, false) => ([ev], false)
      end
  end.

(* ---- observations *)
Definition is_hclick (e : hev) : bool := match e with HClick => true | _ => false end.
Definition hclicks (evs : list hev) : nat := length (filter is_hclick evs).

(* the calls of a history that are is_pressed() calls, in order *)
Fixpoint poll_events (ops : list hop) (l : list (list hev)) : list (list hev) :=
  match ops, l with
  | HSet _ :: r, _ :: l' => poll_events r l'
  | HPoll :: r, e :: l' => e :: poll_events r l'
  | _, _ => []
  end.

(* ---- specification side: the SAMPLED signal of a history - the level in force at each is_pressed() call: the
   level last set (released before the first set_pressed), or what the provider returns at that call.  Valid for
   handlers that do not themselves sample (hc_click = None / Some 0): one provider call per is_pressed(). *)
Fixpoint sampled (provider : bool) (prov : nat -> bool) (cur : bool) (np : nat) (ops : list hop) : list bool :=
  match ops with
  | [] => []
  | HSet v :: r => sampled provider prov (truthy v) np r
  | HPoll :: r => (if provider then prov np else cur) :: sampled provider prov cur (if provider then S np else np) r
  end.

(* a drive: the levels applied with set_pressed since the previous sample (any number, also none), then one
   is_pressed() - what a fixture replaying a finer-grained contact trace does *)
Definition drive_ops (bursts : list (list pynum)) : list hop :=
  flat_map (fun b => map HSet b ++ [HPoll]) bursts.
