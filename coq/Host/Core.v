(* Model of src/Reduino/Core/__init__.py : the host-side pin simulation.
   Three module-level dicts keyed by the normalised pin.  Definitions only
   (proofs in Proofs/CoreP.v).  Faithful to the code including the stored
   pull-up level (pin_mode(p, INPUT_PULLUP) *stores* HIGH when p has no digital
   entry, and nothing ever removes it).

   Outside the model: pins that are neither int nor str (True/7.0 hash like 7,
   unhashable pins raise), str pins with non-ASCII isdigit() characters,
   ints too large for float() in analog_write. *)
From Coq Require Import ZArith QArith List Bool.
From RV Require Import Base.Wire Base.Text Base.NumC Base.TextC.
Import ListNotations.
Open Scope Z_scope.

Inductive pin : Type :=
| PinI (z : Z)
| PinS (t : text).

Definition pin_eqb (a b : pin) : bool :=
  match a, b with
  | PinI x, PinI y => x =? y
  | PinS s, PinS t => text_eqb s t
  | _, _ => false
  end.

(* _normalise_pin: a str of digits becomes the int it denotes *)
Definition normalise (p : pin) : pin :=
  match p with
  | PinI z => PinI z
  | PinS t => if all_digits t then PinI (dec t) else PinS t
  end.

(* mode values are arbitrary strings; only equality with "INPUT_PULLUP" matters *)
Definition INPUT : text := [73; 78; 80; 85; 84].
Definition OUTPUT : text := [79; 85; 84; 80; 85; 84].
Definition INPUT_PULLUP : text := [73; 78; 80; 85; 84; 95; 80; 85; 76; 76; 85; 80].
Definition is_pullup (m : text) : bool := text_eqb m INPUT_PULLUP.
Definition HIGH : Z := 1.
Definition LOW : Z := 0.

(* association lists with unique keys: dict lookup / dict store *)
Fixpoint lookup {A} (k : pin) (l : list (pin * A)) : option A :=
  match l with
  | [] => None
  | (k', v) :: r => if pin_eqb k k' then Some v else lookup k r
  end.

Fixpoint store {A} (k : pin) (v : A) (l : list (pin * A)) : list (pin * A) :=
  match l with
  | [] => [(k, v)]
  | (k', v') :: r => if pin_eqb k k' then (k, v) :: r else (k', v') :: store k v r
  end.

Record core : Type := mkCore {
  modes : list (pin * text);     (* _pin_modes *)
  dig : list (pin * Z);          (* _digital_values *)
  ana : list (pin * Z)           (* _analog_values *)
}.

Definition init : core := mkCore [] [] [].

Inductive op : Type :=
| PinMode (p : pin) (m : text)
| DWrite (p : pin) (v : pynum)
| AWrite (p : pin) (v : pynum)
| DRead (p : pin)
| ARead (p : pin).

Inductive res : Type :=
| RNone                 (* the call returned None *)
| RVal (z : Z)          (* the call returned the int z *)
| RRaise (e : exn).

(* int(round(float(v))) clamped to 0..255; None when float(v) raises TypeError *)
Definition analog_of (v : pynum) : option Z :=
  match qval v with
  | Some q => Some (clamp 0 255 (q_round q))
  | None => None
  end.

Definition dread (s : core) (p : pin) : Z :=
  let k := normalise p in
  match lookup k (dig s) with
  | Some v => v
  | None =>
      match lookup k (modes s) with
      | Some m => if is_pullup m then HIGH else LOW
      | None => LOW
      end
  end.

Definition aread (s : core) (p : pin) : Z :=
  match lookup (normalise p) (ana s) with Some v => v | None => 0 end.

Definition step (s : core) (o : op) : core * res :=
  match o with
  | PinMode p m =>
      let k := normalise p in
      let ms := store k m (modes s) in
      match lookup k (dig s) with
      | Some _ => (mkCore ms (dig s) (ana s), RNone)
      | None =>
          if is_pullup m then (mkCore ms (store k HIGH (dig s)) (ana s), RNone)
          else (mkCore ms (dig s) (ana s), RNone)
      end
  | DWrite p v =>
      (mkCore (modes s) (store (normalise p) (if truthy v then HIGH else LOW) (dig s)) (ana s), RNone)
  | AWrite p v =>
      match analog_of v with
      | Some z => (mkCore (modes s) (dig s) (store (normalise p) z (ana s)), RNone)
      | None => (s, RRaise TypeError)
      end
  | DRead p => (s, RVal (dread s p))
  | ARead p => (s, RVal (aread s p))
  end.

(* run a history from a state: final state and the result of every call *)
Fixpoint run_from (s : core) (ops : list op) : core * list res :=
  match ops with
  | [] => (s, [])
  | o :: r =>
      let '(s1, x) := step s o in
      let '(s2, xs) := run_from s1 r in
      (s2, x :: xs)
  end.

Definition exec_from (s : core) (ops : list op) : core :=
  fold_left (fun st o => fst (step st o)) ops s.
Definition exec (ops : list op) : core := exec_from init ops.

(* the pin an operation addresses, and the operation with its alias resolved *)
Definition op_pin (o : op) : pin :=
  match o with PinMode p _ | DWrite p _ | AWrite p _ | DRead p | ARead p => p end.

Definition norm_op (o : op) : op :=
  match o with
  | PinMode p m => PinMode (normalise p) m
  | DWrite p v => DWrite (normalise p) v
  | AWrite p v => AWrite (normalise p) v
  | DRead p => DRead (normalise p)
  | ARead p => ARead (normalise p)
  end.

(* ------------------------------------------------------------------ *)
(* Reference memory semantics of the property, computed from the history
   alone (never from the dicts), for one normalised pin k.             *)

Record hist : Type := mkHist {
  h_dw : option bool;      (* last digital_write to k (as bool(value)) *)
  h_aw : option Z;         (* last successful analog_write to k, clamped/rounded *)
  h_mode : option text;    (* current mode of k *)
  h_stale : bool           (* k was put in INPUT_PULLUP while it had never been written *)
}.

Definition hist0 : hist := mkHist None None None false.

Definition hstep (k : pin) (h : hist) (o : op) : hist :=
  if pin_eqb (normalise (op_pin o)) k then
    match o with
    | PinMode _ m =>
        mkHist (h_dw h) (h_aw h) (Some m)
               (match h_dw h with Some _ => h_stale h | None => h_stale h || is_pullup m end)
    | DWrite _ v => mkHist (Some (truthy v)) (h_aw h) (h_mode h) (h_stale h)
    | AWrite _ v =>
        match analog_of v with
        | Some z => mkHist (h_dw h) (Some z) (h_mode h) (h_stale h)
        | None => h
        end
    | DRead _ | ARead _ => h
    end
  else h.

Definition history (k : pin) (ops : list op) : hist := fold_left (hstep k) ops hist0.

Definition mode_is_pullup (m : option text) : bool :=
  match m with Some t => is_pullup t | None => false end.

(* what the property says digital_read / analog_read must return *)
Definition ref_dread (h : hist) : Z :=
  match h_dw h with
  | Some b => b2z b
  | None => if mode_is_pullup (h_mode h) then HIGH else LOW
  end.

Definition ref_aread (h : hist) : Z :=
  match h_aw h with Some z => z | None => 0 end.

(* guard of the partial theorem: the pin has been written, or it was never put in
   INPUT_PULLUP (while unwritten) before its current non-pull-up mode *)
Definition guard (h : hist) : bool :=
  match h_dw h with
  | Some _ => true
  | None => negb (h_stale h) || mode_is_pullup (h_mode h)
  end.
