(* Core pins that are neither int nor str.  Reduino.Core keys its three dicts by
   _normalise_pin(pin):

       def _normalise_pin(pin):
           if isinstance(pin, str) and pin.isdigit():
               return int(pin)
           return pin

   so any hashable object is a pin, and two pins are the same pin exactly when the
   normalised objects are equal as dict keys (hash + ==): True is the pin 1, False the pin 0,
   7.0 the pin 7, 7.5 a pin of its own, None a pin of its own; an unhashable pin (a list)
   makes every one of the five functions raise TypeError and leaves the dicts alone.

   [xkey] maps such a pin to the key of Host/Core.v it denotes.  Keys that are neither an
   int nor a real string (non-integral floats, None) are embedded into [PinS] with a negative
   first "code point", which no Python string contains, so they can collide with nothing.
   Definitions only (lemmas: Proofs/CoreKeysP.v). *)
From Coq Require Import ZArith QArith List Bool.
From RV Require Import Base.Wire Base.Text Base.NumC Base.TextC Host.Core.
Import ListNotations.
Open Scope Z_scope.

Inductive xpin : Type :=
| XI (z : Z)
| XS (t : text)
| XB (b : bool)
| XF (q : Q)              (* a finite float, as its exact rational *)
| XNone
| XUnhashable.            (* a list, a dict, ... *)

(* is the rational an integer? (decided on the reduced fraction) *)
Definition q_integral (q : Q) : bool := (Zpos (Qden (Qred q)) =? 1).

Definition float_key (q : Q) : pin :=
  let r := Qred q in
  if q_integral q then PinI (Qnum r) else PinS [-1; Qnum r; Zpos (Qden r)].

Definition none_key : pin := PinS [-2].

(* the dict key a pin argument denotes; None = unhashable *)
Definition xkey (p : xpin) : option pin :=
  match p with
  | XI z => Some (PinI z)
  | XS t => Some (normalise (PinS t))
  | XB b => Some (PinI (b2z b))
  | XF q => Some (float_key q)
  | XNone => Some none_key
  | XUnhashable => None
  end.

Inductive xop : Type :=
| XPinMode (p : xpin) (m : text)
| XDWrite (p : xpin) (v : pynum)
| XAWrite (p : xpin) (v : pynum)
| XDRead (p : xpin)
| XARead (p : xpin).

Definition xop_pin (o : xop) : xpin :=
  match o with XPinMode p _ | XDWrite p _ | XAWrite p _ | XDRead p | XARead p => p end.

(* the same call on the key *)
Definition lower_with (k : pin) (o : xop) : op :=
  match o with
  | XPinMode _ m => PinMode k m
  | XDWrite _ v => DWrite k v
  | XAWrite _ v => AWrite k v
  | XDRead _ => DRead k
  | XARead _ => ARead k
  end.

Definition lower (o : xop) : option op :=
  match xkey (xop_pin o) with Some k => Some (lower_with k o) | None => None end.

(* one call: an unhashable pin raises TypeError (from the dict operation) and changes nothing *)
Definition xstep (s : core) (o : xop) : core * res :=
  match lower o with
  | Some o' => step s o'
  | None => (s, RRaise TypeError)
  end.

Fixpoint xrun_from (s : core) (ops : list xop) : core * list res :=
  match ops with
  | [] => (s, [])
  | o :: r =>
      let '(s1, x) := xstep s o in
      let '(s2, xs) := xrun_from s1 r in
      (s2, x :: xs)
  end.

Fixpoint lower_all (ops : list xop) : option (list op) :=
  match ops with
  | [] => Some []
  | o :: r =>
      match lower o, lower_all r with
      | Some a, Some l => Some (a :: l)
      | _, _ => None
      end
  end.

(* --------------------------------------------------------------------------
   What Python does, stated independently of the embedding: the numeric value of a
   normalised pin (ints, bools, floats, all-digit strings), and the dict-key relation. *)

Definition xnum (p : xpin) : option Q :=
  match p with
  | XI z => Some (inject_Z z)
  | XB b => Some (inject_Z (b2z b))
  | XF q => Some q
  | XS t => if all_digits t then Some (inject_Z (dec t)) else None
  | XNone | XUnhashable => None
  end.

Definition same_key (a b : xpin) : bool :=
  match a, b with
  | XUnhashable, _ | _, XUnhashable => false
  | XNone, XNone => true
  | XNone, _ | _, XNone => false
  | _, _ =>
      match xnum a, xnum b with
      | Some x, Some y => Qeq_bool x y
      | None, None =>
          match a, b with
          | XS s, XS t => text_eqb s t
          | _, _ => false
          end
      | _, _ => false
      end
  end.

(* a real Python string: no negative code point *)
Definition wf_text (t : text) : bool := forallb (fun c => 0 <=? c) t.
Definition wf_xpin (p : xpin) : bool :=
  match p with XS t => wf_text t | _ => true end.
