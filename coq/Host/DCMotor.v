(* Host model of /repo/src/Reduino/Actuators/DCMotor.py  (class DCMotor).

   Floats are exact rationals; the stored speed is kept in lowest terms ([Qred], which
   denotes the same rational) so that long histories of ramps do not blow up the
   representation.  Order of checks and raise points follow the Python text:

     __init__(in1,in2,enable): all isinstance(pin,int) (bools count) else TypeError;
                then the three must be pairwise different as integers (True == 1)
                else ValueError.  speed 0.0, not inverted, mode coast, applied 0.0.
     _clamp_speed v : float(v) (TypeError for a non-number), ValueError for NaN (never here: the
                numbers of this model are finite; specials: Host/ActuatorsX.v), then >1 -> 1, <-1 -> -1.
     _check_duration d : d < 0 (TypeError for a non-number d; ValueError if negative), then
                ValueError unless math.isfinite(d) (never here, as above).
     set_speed v    : clamp (may raise, nothing written yet); _speed := it; _apply_speed.
     _apply_speed x : effective := -x if inverted else x; mode := coast if
                effective == 0 else drive; applied := effective.
     backward [v]   : magnitude := abs(clamp v) (may raise); set_speed(-magnitude).
     stop / coast   : speed, applied := 0; mode := brake / coast.
     invert         : inverted := not inverted; _apply_speed(_speed).
     ramp t d       : _check_duration d (may raise);
                target := clamp t (may raise); start := _speed;
                step := (target-start)/STEPS; delay := d/STEPS;
                for k = 1..STEPS: set_speed(start + step*k); if delay > 0: sleep(delay).
     run_for d v    : _check_duration d (may raise); set_speed v (may raise before any write);
                sleep(d) (always, also for d = 0); stop().
     getters return the stored field.

   STEPS = DCMotor._RAMP_STEPS is regenerated from the source (Gen/C19Motor.v).

   Events (Appendix A.2): [MLvl speed applied mode] per completed _apply_speed / stop /
   coast, [MSleep q] per call of the package-level sleep.

   Ghost field [ghost] (Appendix A.4): LastStop after a successful stop / run_for,
   LastOther after every other successful mutating call; getters and failing calls
   leave it alone.  It is not part of the Python object.  No proofs in this file. *)
From Coq Require Import ZArith QArith List Bool.
From RV Require Import Base.Wire Base.NumM Gen.C19Motor.
Import ListNotations.
Open Scope Q_scope.

Inductive mode : Type := Coast | Drive | Brake.
Inductive lastcmd : Type := LastStop | LastOther.

Record motor : Type := mkMotor {
  pins : pynum * pynum * pynum;   (* self.pins, stored as given *)
  speed : Q;                      (* _speed *)
  inverted : bool;                (* _inverted *)
  mmode : mode;                   (* _mode *)
  applied : Q;                    (* _applied_speed *)
  ghost : lastcmd
}.

Definition motor_ctor (i1 i2 en : pynum) : motor + exn :=
  match zof i1, zof i2, zof en with
  | Some a, Some b, Some c =>
      if ((a =? b) || (a =? c) || (b =? c))%Z then inr ValueError
      else inl (mkMotor (i1, i2, en) 0 false Coast 0 LastOther)
  | _, _, _ => inr TypeError
  end.

Inductive mev : Type :=
| MLvl (sp ap : Q) (md : mode)
| MSleep (q : Q).

Definition clampq (q : Q) : Q := qclamp (-(1)) 1 q.

(* _clamp_speed *)
Definition clamp_speed (v : pynum) : option Q :=
  match qof v with Some q => Some (clampq q) | None => None end.

Definition with_ghost (m : motor) (g : lastcmd) : motor :=
  mkMotor (pins m) (speed m) (inverted m) (mmode m) (applied m) g.

(* _apply_speed *)
Definition apply_speed (m : motor) (x : Q) : motor * list mev :=
  let eff := if inverted m then - x else x in
  let md := if Qeqb eff 0 then Coast else Drive in
  (mkMotor (pins m) (speed m) (inverted m) md eff (ghost m), [MLvl (speed m) eff md]).

(* set_speed on an already-float argument (clamps again, as the code does) *)
Definition set_speed_q (m : motor) (q : Q) : motor * list mev :=
  let sp := Qred (clampq q) in
  apply_speed (mkMotor (pins m) sp (inverted m) (mmode m) (applied m) (ghost m)) sp.

Definition halt (m : motor) (md : mode) : motor * list mev :=
  (mkMotor (pins m) 0 (inverted m) md 0 (ghost m), [MLvl 0 0 md]).

(* 1..n *)
Definition zsteps (n : Z) : list Z := map Z.of_nat (seq 1 (Z.to_nat n)).

Fixpoint ramp_loop (ks : list Z) (m : motor) (start sv delay : Q) : motor * list mev :=
  match ks with
  | [] => (m, [])
  | k :: r =>
      let '(m1, e1) := set_speed_q m (start + sv * inject_Z k) in
      let e2 := if Qltb 0 delay then [MSleep delay] else [] in
      let '(m2, e3) := ramp_loop r m1 start sv delay in
      (m2, e1 ++ e2 ++ e3)
  end.

(* the body of ramp() once its arguments are validated: target is clamped, d = duration_ms *)
Definition ramp_run (m : motor) (target d : Q) : motor * list mev :=
  if (dc_ramp_steps <=? 0)%Z then set_speed_q m target
  else
    let start := speed m in
    let sv := (target - start) / inject_Z dc_ramp_steps in
    let delay := d / inject_Z dc_ramp_steps in
    ramp_loop (zsteps dc_ramp_steps) m start sv delay.

Inductive mop : Type :=
| MSetSpeed (v : pynum)
| MBackward (v : option pynum)        (* None: argument omitted *)
| MStop
| MCoast
| MInvert
| MRamp (target dur : pynum)
| MRunFor (dur sp : pynum)
| MGetSpeed
| MGetApplied
| MIsInverted
| MGetMode.

Definition dflt_back (o : option pynum) : pynum :=
  match o with Some v => v | None => dc_backward_default end.

Inductive mret : Type := MNone | MFloat (q : Q) | MBool (b : bool) | MMode (md : mode).

Definition ok_with (g : lastcmd) (r : motor * list mev) : motor * list mev * result mret :=
  (with_ghost (fst r) g, snd r, Ok MNone).

Definition mstep (m : motor) (op : mop) : motor * list mev * result mret :=
  match op with
  | MSetSpeed v =>
      match clamp_speed v with
      | None => (m, [], Raised TypeError)
      | Some q => ok_with LastOther (set_speed_q m q)
      end
  | MBackward ov =>
      match clamp_speed (dflt_back ov) with
      | None => (m, [], Raised TypeError)
      | Some q => ok_with LastOther (set_speed_q m (- qabs q))
      end
  | MStop => ok_with LastStop (halt m Brake)
  | MCoast => ok_with LastOther (halt m Coast)
  | MInvert =>
      ok_with LastOther
        (apply_speed (mkMotor (pins m) (speed m) (negb (inverted m)) (mmode m) (applied m) (ghost m))
                     (speed m))
  | MRamp t d =>
      match py_lt d (PI 0) with
      | None => (m, [], Raised TypeError)
      | Some true => (m, [], Raised ValueError)
      | Some false =>
          match clamp_speed t with
          | None => (m, [], Raised TypeError)
          | Some target =>
              ok_with LastOther (ramp_run m target (qval d))
          end
      end
  | MRunFor d v =>
      match py_lt d (PI 0) with
      | None => (m, [], Raised TypeError)
      | Some true => (m, [], Raised ValueError)
      | Some false =>
          match clamp_speed v with
          | None => (m, [], Raised TypeError)
          | Some q =>
              let '(m1, e1) := set_speed_q m q in
              let '(m2, e2) := halt m1 Brake in
              ok_with LastStop (m2, e1 ++ [MSleep (qval d)] ++ e2)
          end
      end
  | MGetSpeed => (m, [], Ok (MFloat (speed m)))
  | MGetApplied => (m, [], Ok (MFloat (applied m)))
  | MIsInverted => (m, [], Ok (MBool (inverted m)))
  | MGetMode => (m, [], Ok (MMode (mmode m)))
  end.

Definition mstate (r : motor * list mev * result mret) : motor := fst (fst r).
Definition mevents (r : motor * list mev * result mret) : list mev := snd (fst r).
Definition mresult (r : motor * list mev * result mret) : result mret := snd r.

Definition mrun (ops : list mop) (m : motor) : motor :=
  fold_left (fun st op => mstate (mstep st op)) ops m.

(* everything a history emits, in order *)
Fixpoint mtrace (ops : list mop) (m : motor) : list mev :=
  match ops with
  | [] => []
  | op :: r => mevents (mstep m op) ++ mtrace r (mstate (mstep m op))
  end.

(* observers of an event list *)
Fixpoint sleeps (l : list mev) : list Q :=
  match l with
  | [] => []
  | MSleep q :: r => q :: sleeps r
  | MLvl _ _ _ :: r => sleeps r
  end.

Fixpoint lvl_speeds (l : list mev) : list Q :=
  match l with
  | [] => []
  | MLvl sp _ _ :: r => sp :: lvl_speeds r
  | MSleep _ :: r => lvl_speeds r
  end.

Fixpoint lvl_applied (l : list mev) : list Q :=
  match l with
  | [] => []
  | MLvl _ ap _ :: r => ap :: lvl_applied r
  | MSleep _ :: r => lvl_applied r
  end.
