(* The binary64 arithmetic of DCMotor.ramp(), as CPython executes it:

       target     = self._clamp_speed(target_speed)          # a binary64 number in [-1, 1]
       start      = self._speed                              # a binary64 number in [-1, 1]
       step_value = (target - start) / self._RAMP_STEPS      # two roundings
       delay_ms   = duration_ms / self._RAMP_STEPS           # one rounding
       for step in 1..STEPS:
           self.set_speed(start + step_value * step)         # two roundings, THEN _clamp_speed

   Every operation is rounded to the nearest binary64 number, ties to even ([fl53] of
   Host/LCDFloat.v: unbounded exponent, i.e. IEEE-754 binary64 wherever no overflow and no
   subnormal occurs - for speeds in [-1,1] that is every difference that is 0 or at least
   2^-1000 in magnitude).  ((target-start)/20)*20 is NOT target-start in this arithmetic: the raw
   20th point can be 1.0000000000000002.  What is stored is the raw point after _clamp_speed
   ([set_speed_q] of Host/DCMotor.v), so |speed| <= 1 holds because of the clamp, not because the
   arithmetic is exact (Proofs/DCMotorFloatP.v).

   [mstep_fl] is [mstep] of Host/DCMotor.v with ramp() computed this way; every other call of
   DCMotor performs no rounding on binary64 arguments (clamp, negation, abs, copies).
   Definitions only. *)
From Coq Require Import ZArith QArith List Bool.
From RV Require Import Base.Wire Base.NumM Gen.C19Motor Host.DCMotor.
From RV Require Host.LCDFloat.
Import ListNotations.
Open Scope Q_scope.

Definition fl (q : Q) : Q := LCDFloat.fl53 q.

(* step_value = (target - start) / STEPS *)
Definition ramp_sv_fl (start target : Q) : Q := fl (fl (target - start) / inject_Z dc_ramp_steps).

(* the argument ramp() hands to set_speed at step k: start + step_value * k *)
Definition ramp_raw_fl (start sv : Q) (k : Z) : Q := fl (start + fl (sv * inject_Z k)).

(* what set_speed stores for it *)
Definition ramp_point_fl (start sv : Q) (k : Z) : Q := Qred (clampq (ramp_raw_fl start sv k)).

(* the twenty raw / stored values of one ramp *)
Definition ramp_raws_fl (start target : Q) : list Q :=
  map (ramp_raw_fl start (ramp_sv_fl start target)) (zsteps dc_ramp_steps).
Definition ramp_points_fl (start target : Q) : list Q :=
  map (ramp_point_fl start (ramp_sv_fl start target)) (zsteps dc_ramp_steps).

Fixpoint ramp_loop_fl (ks : list Z) (m : motor) (start sv delay : Q) : motor * list mev :=
  match ks with
  | [] => (m, [])
  | k :: r =>
      let '(m1, e1) := set_speed_q m (ramp_raw_fl start sv k) in
      let e2 := if Qltb 0 delay then [MSleep delay] else [] in
      let '(m2, e3) := ramp_loop_fl r m1 start sv delay in
      (m2, e1 ++ e2 ++ e3)
  end.

Definition ramp_run_fl (m : motor) (target d : Q) : motor * list mev :=
  if (dc_ramp_steps <=? 0)%Z then set_speed_q m target
  else
    let start := speed m in
    let sv := ramp_sv_fl start target in
    let delay := fl (d / inject_Z dc_ramp_steps) in
    ramp_loop_fl (zsteps dc_ramp_steps) m start sv delay.

(* the class as CPython runs it *)
Definition mstep_fl (m : motor) (op : mop) : motor * list mev * result mret :=
  match op with
  | MRamp t d =>
      match py_lt d (PI 0) with
      | None => (m, [], Raised TypeError)
      | Some true => (m, [], Raised ValueError)
      | Some false =>
          match clamp_speed t with
          | None => (m, [], Raised TypeError)
          | Some target => ok_with LastOther (ramp_run_fl m target (qval d))
          end
      end
  | _ => mstep m op
  end.

Definition mrun_fl (ops : list mop) (m : motor) : motor :=
  fold_left (fun st op => mstate (mstep_fl st op)) ops m.

(* every speed a history stores, in order (one per completed _apply_speed / stop / coast) *)
Fixpoint mtrace_fl (ops : list mop) (m : motor) : list mev :=
  match ops with
  | [] => []
  | op :: r => mevents (mstep_fl m op) ++ mtrace_fl r (mstate (mstep_fl m op))
  end.

(* THE SEEDED REGRESSION, as a model: the loop writes the raw point without the clamp *)
Definition ramp_unclamped_end (start target : Q) : Q :=
  ramp_raw_fl start (ramp_sv_fl start target) dc_ramp_steps.

(* x is a binary64 number (of the unbounded-exponent format) *)
Definition is_b64 (x : Q) : bool := Qeq_bool (fl x) x.
