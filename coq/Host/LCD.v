(* Host-side LCD: model of /repo/src/Reduino/Displays/LCD.py (everything except
   animate/tick, which is property C18).  Written method by method from the source,
   including the order of validation and mutation (a call that raises may already have
   cleared its row).  Python ints are Z; the one float computation (progress ratio) is
   done on exact rationals Q and rounded with Python 3's round(): half to even.
   Definitions only. *)
From Coq Require Import ZArith QArith List Bool.
From RV Require Import Base.LcdBase.
Import ListNotations.
Open Scope Z_scope.

Record hlcd : Type := {
  h_g : geom;
  h_buf : list (list Z);            (* self.buffer: rows strings of cols code points *)
  h_display : bool;                 (* self.display_on *)
  h_backlight : bool;               (* self.backlight_on *)
  h_bright : Z;                     (* self.brightness_level *)
  h_glyphs : list (Z * list Z)      (* self.glyphs: slot -> 8 rows *)
}.

Inductive hres : Type := HOk | HRaise (kind : Z).   (* 1 ValueError, 2 RuntimeError *)
Definition VALUE_ERROR : Z := 1.
Definition RUNTIME_ERROR : Z := 2.

Definition h_cols (h : hlcd) : Z := g_cols (h_g h).
Definition h_rows (h : hlcd) : Z := g_rows (h_g h).

Definition set_buf (h : hlcd) (b : list (list Z)) : hlcd :=
  {| h_g := h_g h; h_buf := b; h_display := h_display h; h_backlight := h_backlight h;
     h_bright := h_bright h; h_glyphs := h_glyphs h |}.

Definition blank_row (cols : Z) : list Z := zrepeat SP cols.
Definition blank_buf (cols rows : Z) : list (list Z) := zrepeat (blank_row cols) rows.

(* __init__ (+ begin): cols/rows must be positive *)
Definition hinit (g : geom) : option hlcd :=
  if (g_cols g <=? 0) || (g_rows g <=? 0) then None
  else Some {| h_g := g; h_buf := blank_buf (g_cols g) (g_rows g); h_display := true;
               h_backlight := true; h_bright := 255; h_glyphs := [] |}.

(* _validate_row *)
Definition row_ok (h : hlcd) (row : Z) : bool := (0 <=? row) && (row <? h_rows h).

(* the enumerate loop of _place_text: line[col+offset] = char when 0 <= col+offset < cols *)
Fixpoint place (line : list Z) (col : Z) (content : list Z) (cols : Z) : list Z :=
  match content with
  | [] => line
  | ch :: rest =>
      place (if (0 <=? col) && (col <? cols) then zupd col ch line else line) (col + 1) rest cols
  end.

(* column chosen by _place_text for [len] characters starting at [start_col] *)
Definition place_col (cols start_col avail len align : Z) : Z :=
  let col :=
    if align =? 0 then start_col
    else if align =? 2 then start_col + (avail - len)
    else start_col + (avail - len) / 2 in
  Z.max start_col (Z.min (cols - len) col).

(* _place_text(row, text, align, start_col) *)
Definition hplace (h : hlcd) (row : Z) (text : list Z) (align : Z) (start_col : Z) : hlcd * hres :=
  if negb (row_ok h row) then (h, HRaise VALUE_ERROR) else
  if negb (align_ok align) then (h, HRaise VALUE_ERROR) else
  let cols := h_cols h in
  let avail := Z.max 0 (cols - Z.max 0 start_col) in
  if avail <=? 0 then (h, HOk) else
  let content := if zlen text >? avail then ztake avail text else text in
  let col := place_col cols start_col avail (zlen content) align in
  let line := place (znth row (h_buf h) []) col content cols in
  (set_buf h (zupd row line (h_buf h)), HOk).

(* clear() *)
Definition hclear (h : hlcd) : hlcd * hres :=
  (set_buf h (blank_buf (h_cols h) (h_rows h)), HOk).

(* line(row, text, align=, clear_row=) *)
Definition hline (h : hlcd) (row : Z) (text : list Z) (align : Z) (clear : bool) : hlcd * hres :=
  if negb (row_ok h row) then (h, HRaise VALUE_ERROR) else
  let h1 := if clear then set_buf h (zupd row (blank_row (h_cols h)) (h_buf h)) else h in
  hplace h1 row text align 0.

(* write(col, row, text, clear_row=, align=) *)
Definition hwrite (h : hlcd) (col row : Z) (text : list Z) (clear : bool) (align : Z) : hlcd * hres :=
  if negb (row_ok h row) then (h, HRaise VALUE_ERROR) else
  let h1 := if clear then set_buf h (zupd row (blank_row (h_cols h)) (h_buf h)) else h in
  hplace h1 row text align col.

(* message(top, bottom, top_align=, bottom_align=, clear_rows=) *)
Definition hmessage (h : hlcd) (top bottom : option (list Z)) (ta ba : Z) (clear : bool) : hlcd * hres :=
  let '(h1, r1) := match top with
                   | Some t => hline h 0 t ta clear
                   | None => (h, HOk)
                   end in
  match r1 with
  | HRaise k => (h1, HRaise k)
  | HOk =>
      match bottom with
      | Some b => if h_rows h1 >? 1 then hline h1 1 b ba clear else (h1, HOk)
      | None => (h1, HOk)
      end
  end.

(* display(on), backlight(on) *)
Definition hdisplay (h : hlcd) (on : bool) : hlcd * hres :=
  ({| h_g := h_g h; h_buf := h_buf h; h_display := on; h_backlight := on;
      h_bright := h_bright h; h_glyphs := h_glyphs h |}, HOk).
Definition hbacklight (h : hlcd) (on : bool) : hlcd * hres :=
  ({| h_g := h_g h; h_buf := h_buf h; h_display := h_display h; h_backlight := on;
      h_bright := h_bright h; h_glyphs := h_glyphs h |}, HOk).

(* brightness(level) *)
Definition hbrightness (h : hlcd) (level : Z) : hlcd * hres :=
  if g_i2c (h_g h) then (h, HRaise RUNTIME_ERROR) else
  match g_blpin (h_g h) with
  | None => (h, HRaise RUNTIME_ERROR)
  | Some _ =>
      if negb ((0 <=? level) && (level <=? 255)) then (h, HRaise VALUE_ERROR) else
      ({| h_g := h_g h; h_buf := h_buf h; h_display := h_display h; h_backlight := h_backlight h;
          h_bright := level; h_glyphs := h_glyphs h |}, HOk)
  end.

(* glyph(slot, bitmap): values = [int(v) & 0x1F for v in bitmap][:8] *)
Definition glyph_rows (bitmap : list Z) : list Z := ztake 8 (map (fun v => Z.land v 31) bitmap).
Definition gset (slot : Z) (v : list Z) (l : list (Z * list Z)) : list (Z * list Z) :=
  (slot, v) :: filter (fun p => negb (fst p =? slot)) l.
Fixpoint gget (slot : Z) (l : list (Z * list Z)) : option (list Z) :=
  match l with
  | [] => None
  | (k, v) :: r => if k =? slot then Some v else gget slot r
  end.
Definition hglyph (h : hlcd) (slot : Z) (bitmap : list Z) : hlcd * hres :=
  if negb ((0 <=? slot) && (slot <=? 7)) then (h, HRaise VALUE_ERROR) else
  let values := glyph_rows bitmap in
  if negb (zlen values =? 8) then (h, HRaise VALUE_ERROR) else
  ({| h_g := h_g h; h_buf := h_buf h; h_display := h_display h; h_backlight := h_backlight h;
      h_bright := h_bright h; h_glyphs := gset slot values (h_glyphs h) |}, HOk).

(* ---------- progress ---------- *)
(* Python 3 round(): nearest integer, ties to the even one; on the exact rational *)
Definition round_half_even (q : Q) : Z :=
  let n := Qnum q in
  let d := Zpos (Qden q) in
  let fl := n / d in
  let r2 := 2 * (n mod d) in
  if r2 <? d then fl else if d <? r2 then fl + 1 else if Z.even fl then fl else fl + 1.

(* max(0.0, min(1.0, x)) *)
Definition qclamp01 (x : Q) : Q :=
  let m := if Qle_bool 1 x then 1%Q else x in      (* min(1.0, x): x only when x < 1.0 *)
  if Qle_bool m 0 then 0%Q else m.                   (* max(0.0, m): m only when m > 0.0 *)

(* ratio = 0 if max_value <= 0 else max(0.0, min(1.0, float(value) / float(max_value))) *)
Definition hratio (value maxv : Z) : Q :=
  if maxv <=? 0 then 0%Q else qclamp01 (inject_Z value / inject_Z maxv)%Q.

(* total_width = cols if width is None else max(1, min(cols, int(width))) *)
Definition hwidth (cols : Z) (width : option Z) : Z :=
  match width with None => cols | Some w => Z.max 1 (Z.min cols w) end.

(* filled = int(round(ratio * total_width)) *)
Definition hfilled (value maxv total_width : Z) : Z :=
  round_half_even (hratio value maxv * inject_Z total_width)%Q.

(* text.ljust(cols) *)
Definition ljust (t : list Z) (cols : Z) : list Z := t ++ zrepeat SP (cols - zlen t).

Definition hprogress_row (cols value maxv : Z) (width : option Z) (style : Z) (label : list Z) : list Z :=
  let total := hwidth cols width in
  let filled := hfilled value maxv total in
  let empty := Z.max 0 (total - filled) in
  let bar := zrepeat (host_glyph style) filled ++ zrepeat SP empty in
  let text := match label with
              | [] => ztake cols bar
              | _ => ztake cols (label ++ [SP] ++ bar)
              end in
  ljust text cols.

(* progress(row, value, max_value, width=, style=, label=) *)
Definition hprogress (h : hlcd) (row value maxv : Z) (width : option Z) (style : Z) (label : list Z) : hlcd * hres :=
  if negb (style_ok style) then (h, HRaise VALUE_ERROR) else
  if negb (row_ok h row) then (h, HRaise VALUE_ERROR) else
  (set_buf h (zupd row (hprogress_row (h_cols h) value maxv width style label) (h_buf h)), HOk).

Definition hstep (h : hlcd) (op : lop) : hlcd * hres :=
  match op with
  | OWrite col row text clear align => hwrite h col row text clear align
  | OLine row text align clear => hline h row text align clear
  | OMessage top bottom ta ba clear => hmessage h top bottom ta ba clear
  | OClear => hclear h
  | OProgress row value maxv width style label => hprogress h row value maxv width style label
  | ODisplay on => hdisplay h on
  | OBacklight on => hbacklight h on
  | OBrightness level => hbrightness h level
  | OGlyph slot bitmap => hglyph h slot bitmap
  end.

(* a history: failed calls keep whatever state they left behind, the script goes on
   (the harness catches the exception) *)
Fixpoint hrun (h : hlcd) (ops : list lop) : hlcd :=
  match ops with
  | [] => h
  | op :: r => hrun (fst (hstep h op)) r
  end.

(* shape invariant of the buffer *)
Definition buf_wf (cols rows : Z) (b : list (list Z)) : Prop :=
  zlen b = rows /\ Forall (fun r => zlen r = cols) b.
