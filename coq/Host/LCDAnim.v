(* Host model of Reduino.Displays.LCD animations (LCD.animate / LCD.tick / _AnimationState),
   transcribed from /repo/src/Reduino/Displays/LCD.py lines 11-27, 110-164, 277-430.
   Model only: no proofs here (coq/Proofs/LCDAnimP.v).

   Text = list of code points.  The buffer is a list of rows, each a list of cells.
   Every Python assignment [self.buffer[r] = s] is recorded as the event [HRow r s]
   (the harness observes exactly these assignments on the real object through a
   recording list).  The code contains no call of a sleep function: [HDelay] is in the
   event type so that "no delay" is a statement about what the model produces. *)
From Coq Require Import ZArith List Bool.
Import ListNotations.
Open Scope Z_scope.

Inductive style := Scroll | Blink | Typewriter | Bounce.

(* the names str(animation).lower() is looked up under (LCD._ANIMATION_OPTIONS; the same four literals
   in parser._resolve_animation_arg and as keys of the emitter's helper tables) *)
Definition style_name (s : style) : list Z :=
  match s with
  | Scroll => [115; 99; 114; 111; 108; 108]
  | Blink => [98; 108; 105; 110; 107]
  | Typewriter => [116; 121; 112; 101; 119; 114; 105; 116; 101; 114]
  | Bounce => [98; 111; 117; 110; 99; 101]
  end.

(* ---- small row helpers (own copies; the static LCD text model lives elsewhere) *)
Definition zlen {A} (l : list A) : Z := Z.of_nat (length l).
Definition spaces (n : Z) : list Z := repeat 32 (Z.to_nat n).
Definition zrange (a n : Z) : list Z := map (fun k => a + Z.of_nat k) (seq 0 (Z.to_nat n)).
(* Python slice t[a:b] for 0 <= a *)
Definition slice (t : list Z) (a b : Z) : list Z := firstn (Z.to_nat (b - a)) (skipn (Z.to_nat a) t).

Fixpoint set_nth {A} (n : nat) (x : A) (l : list A) : list A :=
  match l, n with
  | [], _ => []
  | _ :: t, O => x :: t
  | h :: t, S k => h :: set_nth k x t
  end.

Definition buffer := list (list Z).
Definition set_row (r : Z) (s : list Z) (buf : buffer) : buffer := set_nth (Z.to_nat r) s buf.
Definition get_row (r : Z) (buf : buffer) : list Z := nth (Z.to_nat r) buf [].

Inductive hev := HRow (r : Z) (s : list Z) | HDelay (ms : Z).

(* _AnimationState (dataclass, LCD.py:11-27) *)
Record hstate := mkH {
  h_style : style; h_row : Z; h_text : list Z; h_speed : Z; h_loop : bool;
  h_last : Z; h_offset : Z; h_active : bool; h_dir : Z; h_visible : Z; h_show : bool; h_cycles : Z }.

Definition hset_last s v := mkH (h_style s) (h_row s) (h_text s) (h_speed s) (h_loop s) v (h_offset s) (h_active s) (h_dir s) (h_visible s) (h_show s) (h_cycles s).
Definition hset_offset s v := mkH (h_style s) (h_row s) (h_text s) (h_speed s) (h_loop s) (h_last s) v (h_active s) (h_dir s) (h_visible s) (h_show s) (h_cycles s).
Definition hset_active s v := mkH (h_style s) (h_row s) (h_text s) (h_speed s) (h_loop s) (h_last s) (h_offset s) v (h_dir s) (h_visible s) (h_show s) (h_cycles s).
Definition hset_dir s v := mkH (h_style s) (h_row s) (h_text s) (h_speed s) (h_loop s) (h_last s) (h_offset s) (h_active s) v (h_visible s) (h_show s) (h_cycles s).
Definition hset_visible s v := mkH (h_style s) (h_row s) (h_text s) (h_speed s) (h_loop s) (h_last s) (h_offset s) (h_active s) (h_dir s) v (h_show s) (h_cycles s).
Definition hset_show s v := mkH (h_style s) (h_row s) (h_text s) (h_speed s) (h_loop s) (h_last s) (h_offset s) (h_active s) (h_dir s) (h_visible s) v (h_cycles s).
Definition hset_cycles s v := mkH (h_style s) (h_row s) (h_text s) (h_speed s) (h_loop s) (h_last s) (h_offset s) (h_active s) (h_dir s) (h_visible s) (h_show s) v.

(* _validate_row: 0 <= row < rows, else ValueError *)
Definition validate_row (rows row : Z) : bool := (0 <=? row) && (row <? rows).

(* for offset, char in enumerate(content): if 0 <= col+offset < cols: line[col+offset] = char *)
Fixpoint put (col cols : Z) (content line : list Z) : list Z :=
  match content with
  | [] => line
  | ch :: rest =>
      put (col + 1) cols rest
          (if (0 <=? col) && (col <? cols) then set_nth (Z.to_nat col) ch line else line)
  end.

(* LCD.line(row, text, align="left", clear_row=True)  (LCD.py:151-164 + _place_text 123-143);
   None = ValueError("row out of bounds") *)
Definition hline (cols rows : Z) (buf : buffer) (row : Z) (text : list Z) : option (buffer * list hev) :=
  if validate_row rows row then
    let blank := spaces cols in
    let buf1 := set_row row blank buf in                        (* self.buffer[row_idx] = " " * self.cols *)
    let available := Z.max 0 (cols - Z.max 0 0) in               (* start_col = 0 *)
    if available <=? 0 then Some (buf1, [HRow row blank]) else
    let content := if zlen text >? available then slice text 0 available else text in
    let col := Z.max 0 (Z.min (cols - zlen content) 0) in        (* align == "left": col = 0, then clamped *)
    let line' := put col cols content (get_row row buf1) in
    Some (set_row row line' buf1, [HRow row blank; HRow row line'])
  else None.

(* row_chars = [" "] * cols; for index, char in enumerate(text): position = offset + index;
   if position >= cols: break; row_chars[position] = char *)
Fixpoint bput (pos cols : Z) (text line : list Z) : list Z :=
  match text with
  | [] => line
  | ch :: rest => if pos >=? cols then line else bput (pos + 1) cols rest (set_nth (Z.to_nat pos) ch line)
  end.

Record hlcd := mkL { l_cols : Z; l_rows : Z; l_buf : buffer; l_anims : list hstate }.

(* LCD(cols, rows, ...): ValueError unless both positive; begin() blanks the buffer *)
Definition hnew (cols rows : Z) : option hlcd :=
  if (cols <=? 0) || (rows <=? 0) then None
  else Some (mkL cols rows (repeat (spaces cols) (Z.to_nat rows)) []).

(* LCD.animate (LCD.py:277-335); the style name is already resolved (unknown names raise
   ValueError before anything else; the wire layer does that).  None = ValueError. *)
Definition hanimate (l : hlcd) (sty : style) (row : Z) (text : list Z) (speed : Z) (loop : bool)
  : option (hlcd * list hev) :=
  let cols := l_cols l in
  let rows := l_rows l in
  if validate_row rows row then
    let st := mkH sty row text (Z.max 0 speed) loop 0 0 true 1 0 true 0 in
    match sty with
    | Scroll =>
        match hline cols rows (l_buf l) row (slice text 0 cols) with
        | None => None
        | Some (b, ev) => Some (mkL cols rows b (l_anims l ++ [st]), ev)
        end
    | Blink =>
        let st := hset_show st true in
        match hline cols rows (l_buf l) row (slice text 0 cols) with
        | None => None
        | Some (b, ev) => Some (mkL cols rows b (l_anims l ++ [st]), ev)
        end
    | Typewriter =>
        let length := zlen text in
        let st := hset_visible st (Z.min length 1) in
        let snippet := slice (slice text 0 (h_visible st)) 0 cols in
        match hline cols rows (l_buf l) row snippet with
        | None => None
        | Some (b, ev) => Some (mkL cols rows b (l_anims l ++ [st]), ev)
        end
    | Bounce =>
        let st := hset_show (hset_offset (hset_dir st 1) 0) false in
        let row_chars := bput 0 cols text (spaces cols) in
        Some (mkL cols rows (set_row row row_chars (l_buf l)) (l_anims l ++ [st]), [HRow row row_chars])
    end
  else None.

(* the rate limiter of LCD.tick (LCD.py:343-352): true = this tick performs a step *)
Definition hgate (st : hstate) (now : Z) : bool :=
  h_active st &&
  (if h_speed st <=? 0 then true
   else negb (negb (h_last st =? 0) && (now - h_last st <? h_speed st))).

(* one animation's step once the gate is passed and last_tick = now is stored (LCD.py:354-430);
   None = the call raised *)
Definition hbody (cols rows : Z) (st : hstate) (buf : buffer) : option (hstate * buffer * list hev) :=
  match h_style st with
  | Scroll =>
      let padded := h_text st ++ spaces cols in
      match padded with
      | [] => Some (st, buf, [])                                  (* if not padded: continue *)
      | _ =>
        let view := slice (padded ++ padded) (h_offset st) (h_offset st + cols) in
        match hline cols rows buf (h_row st) view with
        | None => None
        | Some (b, ev) =>
            let st := hset_offset st (h_offset st + 1) in
            if h_offset st >=? zlen padded then
              (if h_loop st then Some (hset_offset st 0, b, ev) else Some (hset_active st false, b, ev))
            else Some (st, b, ev)
        end
      end
  | Blink =>
      let st := hset_show st (negb (h_show st)) in
      if h_show st then
        match hline cols rows buf (h_row st) (slice (h_text st) 0 cols) with
        | None => None
        | Some (b, ev) => Some (st, b, ev)
        end
      else
        match hline cols rows buf (h_row st) [] with
        | None => None
        | Some (b, ev) =>
            let st := hset_cycles st (h_cycles st + 1) in
            if negb (h_loop st) then Some (hset_active st false, b, ev) else Some (st, b, ev)
        end
  | Typewriter =>
      let length := zlen (h_text st) in
      if length =? 0 then
        match hline cols rows buf (h_row st) [] with
        | None => None
        | Some (b, ev) => Some (hset_active st (h_loop st), b, ev)
        end
      else if h_visible st <? length then
        let st := hset_visible st (h_visible st + 1) in
        let snippet := slice (slice (h_text st) 0 (h_visible st)) 0 cols in
        match hline cols rows buf (h_row st) snippet with
        | None => None
        | Some (b, ev) =>
            if (h_visible st >=? length) && negb (h_loop st)
            then Some (hset_active st false, b, ev) else Some (st, b, ev)
        end
      else if h_loop st then
        let st := hset_visible st 0 in
        match hline cols rows buf (h_row st) [] with
        | None => None
        | Some (b, ev) => Some (st, b, ev)
        end
      else Some (hset_active st false, buf, [])
  | Bounce =>
      let text := h_text st in
      match text with
      | [] =>
        match hline cols rows buf (h_row st) [] with
        | None => None
        | Some (b, ev) => Some (hset_active st (h_loop st), b, ev)
        end
      | _ =>
        if zlen text >=? cols then
          match hline cols rows buf (h_row st) (slice text 0 cols) with
          | None => None
          | Some (b, ev) => Some (hset_active st (h_loop st), b, ev)
          end
        else
          let max_offset := Z.max 0 (cols - zlen text) in
          if max_offset =? 0 then Some (hset_active st (h_loop st), buf, []) else
          let st := hset_offset st (h_offset st + h_dir st) in
          let st :=
            if h_offset st >=? max_offset then hset_show (hset_dir (hset_offset st max_offset) (-1)) true
            else if h_offset st <=? 0 then
              let st := hset_dir (hset_offset st 0) 1 in
              if h_show st then
                let st := hset_show (hset_cycles st (h_cycles st + 1)) false in
                if negb (h_loop st) && (h_cycles st >=? 1) then hset_active st false else st
              else st
            else st in
          let row_chars := bput (h_offset st) cols text (spaces cols) in
          (* self.buffer[state.row] = ...  (plain list indexing: IndexError outside the list) *)
          if validate_row rows (h_row st)
          then Some (st, set_row (h_row st) row_chars buf, [HRow (h_row st) row_chars])
          else None
      end
  end.

Definition htick1 (cols rows now : Z) (st : hstate) (buf : buffer) : option (hstate * buffer * list hev) :=
  if hgate st now then hbody cols rows (hset_last st now) buf else Some (st, buf, []).

(* for state in list(self.animations.values()): ... *)
Fixpoint htick_list (cols rows now : Z) (sts : list hstate) (buf : buffer)
  : option (list hstate * buffer * list hev) :=
  match sts with
  | [] => Some ([], buf, [])
  | st :: rest =>
      match htick1 cols rows now st buf with
      | None => None
      | Some (st', b, ev) =>
          match htick_list cols rows now rest b with
          | None => None
          | Some (rest', b', ev') => Some (st' :: rest', b', ev ++ ev')
          end
      end
  end.

(* LCD.tick(now_ms)  (now_ms=None is 0: the wire layer passes 0) *)
Definition htick (l : hlcd) (now : Z) : option (hlcd * list hev) :=
  match htick_list (l_cols l) (l_rows l) now (l_anims l) (l_buf l) with
  | None => None
  | Some (sts, b, ev) => Some (mkL (l_cols l) (l_rows l) b sts, ev)
  end.

(* a whole tick history; the events are kept per tick *)
Fixpoint hticks (l : hlcd) (nows : list Z) : option (hlcd * list (list hev)) :=
  match nows with
  | [] => Some (l, [])
  | now :: rest =>
      match htick l now with
      | None => None
      | Some (l', ev) =>
          match hticks l' rest with
          | None => None
          | Some (l'', evs) => Some (l'', ev :: evs)
          end
      end
  end.

(* single-animation run used by the theorems: states after each tick and the step flags *)
Fixpoint hrun1 (cols rows : Z) (st : hstate) (buf : buffer) (nows : list Z)
  : option (hstate * buffer * list (Z * bool * list hev)) :=
  match nows with
  | [] => Some (st, buf, [])
  | now :: rest =>
      match htick1 cols rows now st buf with
      | None => None
      | Some (st', b, ev) =>
          match hrun1 cols rows st' b rest with
          | None => None
          | Some (st'', b', tr) => Some (st'', b', (now, hgate st now, ev) :: tr)
          end
      end
  end.

(* ---- specification vocabulary used by the statements in Props/C18.v *)
(* tick timestamps: positive and non-decreasing *)
Fixpoint nondecr (prev : Z) (l : list Z) : Prop :=
  match l with [] => True | t :: r => prev <= t /\ nondecr t r end.
Definition tick_times_ok (nows : list Z) : Prop := nondecr 1 nows.

(* the times of the ticks that performed a step, in order *)
Definition step_times {E} (tr : list (Z * bool * E)) : list Z :=
  map (fun x => fst (fst x)) (filter (fun x => snd (fst x)) tr).
Definition step_count {E} (tr : list (Z * bool * E)) : Z := zlen (step_times tr).

(* any two steps, the earlier one at t1 (clock running: t1 > 0), are at least [speed] apart *)
Definition rate_limited (speed : Z) (times : list Z) : Prop :=
  forall l1 t1 l2 t2, times = l1 ++ t1 :: l2 -> In t2 l2 -> 0 < t1 -> speed <= t2 - t1.

(* the property's own schedule, written without any reference to the frame code: which ticks of a
   history are steps.  [last] = time of the latest step so far (0: none yet), [budget] = steps left
   ([endless] = looping: the budget is never spent).  A tick is a step iff steps are left and the
   tick is not early: speed <= 0, or the clock was not running at the latest step (last <= 0), or
   now - last >= speed.  A LATE tick moves [last] to its own time, not to last + speed: the ticks
   that follow it are measured from the late one (no catching up). *)
Fixpoint due_flags (speed : Z) (endless : bool) (last budget : Z) (nows : list Z) : list bool :=
  match nows with
  | [] => []
  | now :: rest =>
      let due := (0 <? budget) && negb ((0 <? speed) && (0 <? last) && (now - last <? speed)) in
      due :: due_flags speed endless (if due then now else last)
                       (if due && negb endless then budget - 1 else budget) rest
  end.

(* the step flags of a run *)
Definition step_flags {E} (tr : list (Z * bool * E)) : list bool := map (fun x => snd (fst x)) tr.

(* the time of the latest step of a run ([d]: none) *)
Definition last_step_time {E} (d : Z) (tr : list (Z * bool * E)) : Z := last (step_times tr) d.

(* a never-ending animation skips a tick only because it is early: every tick that is not a step
   is closer than [speed] to the latest step before it, which happened with the clock running
   ([last] = time of that step) *)
Fixpoint no_step_lost {E} (speed last : Z) (tr : list (Z * bool * E)) : Prop :=
  match tr with
  | [] => True
  | (now, b, _) :: rest =>
      (b = false -> 0 < speed /\ 0 < last /\ now - last < speed) /\
      no_step_lost speed (if b then now else last) rest
  end.

Definition hno_delay (evs : list hev) : Prop := forall ms, ~ In (HDelay ms) evs.
(* every buffer assignment replaces the animation's row by exactly [cols] cells *)
Definition hin_row (cols row : Z) (evs : list hev) : Prop :=
  forall r s, In (HRow r s) evs -> r = row /\ zlen s = cols.
Definition buf_wf (cols rows : Z) (buf : buffer) : Prop :=
  zlen buf = rows /\ forall row, In row buf -> zlen row = cols.
Definition hwf (l : hlcd) : Prop :=
  1 <= l_cols l /\ buf_wf (l_cols l) (l_rows l) (l_buf l) /\
  forall st, In st (l_anims l) -> 0 <= h_row st < l_rows l.

(* the number of steps a non-looping animation performs before it is inactive *)
Definition hsteps_total (sty : style) (cols : Z) (text : list Z) : Z :=
  let n := zlen text in
  match sty with
  | Scroll => n + cols
  | Blink => 1
  | Typewriter => if n <=? 1 then 1 else n - 1
  | Bounce => if (n <=? 0) || (n >=? cols) then 1 else 2 * (cols - n)
  end.

(* one animation ticked through a history; the buffer it meets at each tick is arbitrary
   (other animations and other LCD calls may have rewritten it in between) *)
Inductive hsteps (cols rows : Z) : hstate -> list Z -> hstate -> list (Z * bool * list hev) -> Prop :=
| hs_nil st : hsteps cols rows st [] st []
| hs_cons st now buf st' buf' ev rest stn tr :
    buf_wf cols rows buf ->
    htick1 cols rows now st buf = Some (st', buf', ev) ->
    hsteps cols rows st' rest stn tr ->
    hsteps cols rows st (now :: rest) stn ((now, hgate st now, ev) :: tr).

(* states of the real object: constructor, successful animate calls, ticks *)
Inductive hreach : hlcd -> Prop :=
| hr_new cols rows l : hnew cols rows = Some l -> hreach l
| hr_animate l sty row text speed loop l' ev :
    hreach l -> hanimate l sty row text speed loop = Some (l', ev) -> hreach l'
| hr_tick l now l' ev : hreach l -> htick l now = Some (l', ev) -> hreach l'.

(* what a host step does to the buffer: nothing, or the animation's row is replaced by a frame *)
Definition hframe_drawn (cols row : Z) (buf : buffer) (ev : list hev) (buf' : buffer) : Prop :=
  (ev = [] /\ buf' = buf) \/
  exists fr pre, zlen fr = cols /\ ev = pre ++ [HRow row fr] /\ buf' = set_row row fr buf.

