(* The binary64 arithmetic of LCD.progress(), as CPython executes it:

       ratio  = 0 if max_value <= 0 else max(0.0, min(1.0, float(value) / float(max_value)))
       filled = int(round(ratio * total_width))

   float(value), float(max_value) and the conversion of total_width are exact for integers
   below 2^53 (the domain of this model); the quotient and the product are each rounded to
   the nearest binary64 number, ties to even ([fl53]); round() then takes the nearest
   integer of that binary64 number, ties to even.  [fl53] has an unbounded exponent: it is
   IEEE-754 binary64 wherever no overflow / subnormal occurs, which covers every quotient
   of integers below 2^53 and every product with a width <= 40.

   Host/LCD.v keeps the same computation on the exact rational ([hfilled]); Proofs/LCDFloatP.v
   shows where the two coincide and that the four progress-bar laws hold for this one.
   Definitions only. *)
From Coq Require Import ZArith QArith Qpower List Bool.
From RV Require Import Base.LcdBase Host.LCD.
Open Scope Z_scope.

(* 2^e as a rational, any integer e *)
Definition pow2 (e : Z) : Q := (2 # 1) ^ e.

(* nearest binary64 number of a positive rational q = n/d:
     E    = floor(log2 q)           (found from the bit lengths of n and d, one comparison)
     mant = round_half_even (q / 2^(E-52))     (53 significant bits)
     result = mant * 2^(E-52) *)
Definition fl_exp (q : Q) : Z :=
  let e0 := Z.log2 (Qnum q) - Z.log2 (Zpos (Qden q)) in
  if Qle_bool (pow2 e0) q then e0 else e0 - 1.

Definition fl_pos (q : Q) : Q :=
  let s := fl_exp q - 52 in
  Qred (inject_Z (round_half_even (q / pow2 s)) * pow2 s).

(* round to nearest, ties to even, is symmetric in the sign *)
Definition fl53 (q : Q) : Q :=
  if Qnum q =? 0 then 0%Q
  else if Qnum q <? 0 then (- fl_pos (- q))%Q
  else fl_pos q.

(* ratio: the int 0 when max_value <= 0 *)
Definition hratio_fl (value maxv : Z) : Q :=
  if maxv <=? 0 then 0%Q else qclamp01 (fl53 (inject_Z value / inject_Z maxv)).

(* filled = int(round(ratio * total_width)) *)
Definition hfilled_fl (value maxv total_width : Z) : Z :=
  round_half_even (fl53 (hratio_fl value maxv * inject_Z total_width)).

(* an exact .5 tie of the exact quotient clamp(value)*width/max_value: the only inputs on
   which the binary64 result may differ from rounding the exact rational *)
Definition ptie (value maxv w : Z) : bool :=
  (0 <? maxv) && ((2 * (Z.max 0 (Z.min maxv value) * w)) mod (2 * maxv) =? maxv).

(* LCD.progress() with the binary64 arithmetic: hprogress of Host/LCD.v with [hfilled_fl] *)
Definition hprogress_row_fl (cols value maxv : Z) (width : option Z) (style : Z) (label : list Z) : list Z :=
  let total := hwidth cols width in
  let filled := hfilled_fl value maxv total in
  let empty := Z.max 0 (total - filled) in
  let bar := zrepeat (host_glyph style) filled ++ zrepeat SP empty in
  let text := match label with
              | nil => ztake cols bar
              | _ => ztake cols (label ++ (SP :: nil) ++ bar)
              end in
  ljust text cols.

Definition hprogress_fl (h : hlcd) (row value maxv : Z) (width : option Z) (style : Z) (label : list Z) : hlcd * hres :=
  if negb (style_ok style) then (h, HRaise VALUE_ERROR) else
  if negb (row_ok h row) then (h, HRaise VALUE_ERROR) else
  (set_buf h (zupd row (hprogress_row_fl (h_cols h) value maxv width style label) (h_buf h)), HOk).

(* the host LCD as CPython runs it: every call as in Host/LCD.v, progress with binary64 *)
Definition hstep_fl (h : hlcd) (op : lop) : hlcd * hres :=
  match op with
  | OProgress row value maxv width style label => hprogress_fl h row value maxv width style label
  | _ => hstep h op
  end.

Fixpoint hrun_fl (h : hlcd) (ops : list lop) : hlcd :=
  match ops with
  | nil => h
  | op :: r => hrun_fl (fst (hstep_fl h op)) r
  end.

(* the executable domain on which the binary64 model is IEEE-754 and float() is exact *)
Definition fl_dom (value maxv w : Z) : bool :=
  (Z.abs value <? 2 ^ 53) && (maxv <? 2 ^ 53) && (1 <=? w) && (w <=? 40).
