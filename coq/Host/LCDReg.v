(* Host model of the animation REGISTRY of Reduino.Displays.LCD over whole call histories
   (/repo/src/Reduino/Displays/LCD.py: self.animations, a dict str -> _AnimationState).
   Model only: no proofs here (coq/Proofs/LCDRegP.v).

   Host/LCDAnim.v keeps the animations of a display as a plain list that animate appends to; that
   abstracts the bookkeeping away.  Here the registry is what the code has: an insertion-ordered
   dictionary.  LCD.animate computes

       key = f"{animation_name}:{row_idx}:{len(self.animations)}"
       self.animations[key] = state

   i.e. (style, row, number of entries registered so far), and a dict assignment REPLACES the value
   under an existing key (keeping its position) and appends otherwise.  LCD.tick walks
   list(self.animations.values()) and mutates the state objects in place (keys and order stay);
   LCD.begin() clears the registry; nothing else in the class touches it (line / write / message /
   clear / progress only rewrite the buffer).

   A key is kept as the triple the string is rendered from (style name, decimal row, decimal count,
   joined by ':'; the style names contain neither digits nor ':' so the rendering is injective); the
   harness renders the triples and compares them with the real key strings. *)
From Coq Require Import ZArith List Bool.
From RV Require Import Host.LCDAnim.
Import ListNotations.
Open Scope Z_scope.

Definition hkey := (style * Z * Z)%type.

Definition style_eqb (a b : style) : bool :=
  match a, b with
  | Scroll, Scroll | Blink, Blink | Typewriter, Typewriter | Bounce, Bounce => true
  | _, _ => false
  end.

Definition key_eqb (a b : hkey) : bool :=
  let '(s1, r1, n1) := a in let '(s2, r2, n2) := b in style_eqb s1 s2 && (r1 =? r2) && (n1 =? n2).

Definition hreg := list (hkey * hstate).

(* d[k] = v on an insertion-ordered dict *)
Fixpoint reg_set (k : hkey) (v : hstate) (r : hreg) : hreg :=
  match r with
  | [] => [(k, v)]
  | (k', v') :: t => if key_eqb k k' then (k', v) :: t else (k', v') :: reg_set k v t
  end.

Record rlcd := mkR { r_cols : Z; r_rows : Z; r_buf : buffer; r_reg : hreg }.

(* the view Host/LCDAnim.v has of the object: the registered states in dict order *)
Definition r_lcd (l : rlcd) : hlcd := mkL (r_cols l) (r_rows l) (r_buf l) (map snd (r_reg l)).

Definition rnew (cols rows : Z) : option rlcd :=
  match hnew cols rows with
  | None => None
  | Some l => Some (mkR (l_cols l) (l_rows l) (l_buf l) [])
  end.

(* the _AnimationState object LCD.animate constructs and then adjusts per style (LCD.py:294-333) *)
Definition rstart (sty : style) (row : Z) (text : list Z) (speed : Z) (loop : bool) : hstate :=
  let st := mkH sty row text (Z.max 0 speed) loop 0 0 true 1 0 true 0 in
  match sty with
  | Scroll => st
  | Blink => hset_show st true
  | Typewriter => hset_visible st (Z.min (zlen text) 1)
  | Bounce => hset_show (hset_offset (hset_dir st 1) 0) false
  end.

(* LCD.animate: row validated first (ValueError = None, nothing changed), then the state is stored under the
   count-derived key, then the first frame is drawn (the drawing is that of Host/LCDAnim.hanimate) *)
Definition ranimate (l : rlcd) (sty : style) (row : Z) (text : list Z) (speed : Z) (loop : bool)
  : option (rlcd * list hev) :=
  match hanimate (r_lcd l) sty row text speed loop with
  | None => None
  | Some (l', ev) =>
      let key := (sty, row, zlen (r_reg l)) in
      Some (mkR (r_cols l) (r_rows l) (l_buf l') (reg_set key (rstart sty row text speed loop) (r_reg l)), ev)
  end.

(* LCD.tick(now): every registered state, in dict order, through the rate limiter and its step; keys stay *)
Definition rtick (l : rlcd) (now : Z) : option (rlcd * list hev) :=
  match htick_list (r_cols l) (r_rows l) now (map snd (r_reg l)) (r_buf l) with
  | None => None
  | Some (sts, b, ev) => Some (mkR (r_cols l) (r_rows l) b (combine (map fst (r_reg l)) sts), ev)
  end.

Definition blank_buffer (cols rows : Z) : buffer := repeat (spaces cols) (Z.to_nat rows).

(* the calls of a history.  OLine = lcd.line(row, text) (left aligned, clear_row=True); OClear = lcd.clear();
   OBegin = lcd.begin() (blank buffer, registry cleared) *)
Inductive rop :=
| OAnimate (sty : style) (row : Z) (text : list Z) (speed : Z) (loop : bool)
| OTick (now : Z)
| OLine (row : Z) (text : list Z)
| OClear
| OBegin.

(* one call; a call that raises leaves the object as it was (animate and line validate the row before they
   change anything).  The flag says whether the call returned normally. *)
Definition rstep (l : rlcd) (o : rop) : rlcd * bool :=
  match o with
  | OAnimate sty row text speed loop =>
      match ranimate l sty row text speed loop with Some (l', _) => (l', true) | None => (l, false) end
  | OTick now =>
      match rtick l now with Some (l', _) => (l', true) | None => (l, false) end
  | OLine row text =>
      match hline (r_cols l) (r_rows l) (r_buf l) row text with
      | Some (b, _) => (mkR (r_cols l) (r_rows l) b (r_reg l), true)
      | None => (l, false)
      end
  | OClear => (mkR (r_cols l) (r_rows l) (blank_buffer (r_cols l) (r_rows l)) (r_reg l), true)
  | OBegin => (mkR (r_cols l) (r_rows l) (blank_buffer (r_cols l) (r_rows l)) [], true)
  end.

Fixpoint rrun (l : rlcd) (ops : list rop) : rlcd :=
  match ops with
  | [] => l
  | o :: rest => rrun (fst (rstep l o)) rest
  end.

(* ---- specification vocabulary *)
(* the tick times of a history, in order *)
Fixpoint ticks_of (ops : list rop) : list Z :=
  match ops with
  | [] => []
  | OTick now :: rest => now :: ticks_of rest
  | _ :: rest => ticks_of rest
  end.

Definition is_begin (o : rop) : bool := match o with OBegin => true | _ => false end.
(* a history in which begin() is not called *)
Definition no_begin (ops : list rop) : Prop := forallb (fun o => negb (is_begin o)) ops = true.

(* the registry invariant: the entry at position i sits under the key (its style, its row, i) *)
Definition reg_keys_ok (r : hreg) : Prop :=
  forall i k st, nth_error r i = Some (k, st) -> k = (h_style st, h_row st, Z.of_nat i).

(* objects of the real class: constructor, then any history *)
Definition rreach (l : rlcd) : Prop :=
  exists cols rows l0 ops, rnew cols rows = Some l0 /\ l = rrun l0 ops.

(* ---- the alternative bookkeeping "forget finished animations before computing the key" (what a tidy-up of
   animate would do); only used to show that the count-derived key is sound BECAUSE nothing is ever removed *)
Definition reg_prune (r : hreg) : hreg := filter (fun e => h_active (snd e)) r.

Definition ranimate_pruning (l : rlcd) (sty : style) (row : Z) (text : list Z) (speed : Z) (loop : bool)
  : option (rlcd * list hev) :=
  ranimate (mkR (r_cols l) (r_rows l) (r_buf l) (reg_prune (r_reg l))) sty row text speed loop.
