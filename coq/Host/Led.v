(* Model of /repo/src/Reduino/Actuators/Led.py (class Led), written line by line.

   State = the three instance attributes (pin, state, brightness).  [step] covers every
   public method; the order of the validation checks and every raise point is the
   code's.  Events (DESIGN.md Appendix A.2): one [Sleep q] per call of the package-level
   sleep (q = the numeric value of the argument passed), one [Lvl [b]] per COMPLETED
   call of set_brightness (b = the brightness stored).  No proofs in this file. *)
From Coq Require Import ZArith QArith Qround List Bool.
From RV Require Import Base.Wire Base.Num.
Import ListNotations.
Import Num.
Local Open Scope Q_scope.

(* shared with Host/RGBLed.v *)
Inductive kind : Type := ValueError | TypeError.
Inductive ev : Type := Sleep (q : Q) | Lvl (l : list Z).
Inductive ret : Type :=
| RNone
| RBool (b : bool)
| RInt (z : Z)
| RTup (l : list pynum).
Inductive result : Type := Ok (r : ret) | Raised (k : kind).

Record led : Type := mkLed { pin : pynum; lit : bool; bright : Z }.

Definition outcome : Type := (led * list ev * result)%type.

(* Led(pin=13): no validation at all, the pin is stored as given *)
Definition default_pin : pynum := PI 13.
Definition init (p : pynum) : led := mkLed p false 0.

Inductive op : Type :=
| On
| Off
| GetState
| GetBrightness
| SetBrightness (v : pynum)
| Toggle
| Blink (duration times : pynum)
| FadeIn (stp delay : pynum)
| FadeOut (stp delay : pynum)
| FlashPattern (pattern : list pynum) (delay : pynum).

(* defaults of the signatures *)
Definition default_blink_times : pynum := PI 1.
Definition default_fade_step : pynum := PI 5.
Definition default_fade_delay : pynum := PI 10.
Definition default_flash_delay : pynum := PI 200.

Definition raise (s : led) (k : kind) : outcome := (s, [], Raised k).
Definition done (s : led) : outcome := (s, [], Ok RNone).
Definition sleep (q : Q) (s : led) : outcome := (s, [Sleep q], Ok RNone).

(* statement sequencing: an exception stops the method, keeping what was done so far *)
Definition andthen (a : outcome) (k : led -> outcome) : outcome :=
  match a with
  | (s, e, Ok _) => let '(s', e', r) := k s in (s', e ++ e', r)
  | (s, e, Raised x) => (s, e, Raised x)
  end.

(* "if <cond>: raise ValueError" where evaluating <cond> itself raises TypeError on an object *)
Definition reject_if (s : led) (c : option bool) (k : led -> outcome) : outcome :=
  match c with
  | None => raise s TypeError
  | Some true => raise s ValueError
  | Some false => k s
  end.

(* def set_brightness(self, value):
       if not 0 <= value <= 255: raise ValueError
       self.brightness = int(value); self.state = self.brightness > 0 *)
Definition set_brightness (s : led) (v : pynum) : outcome :=
  match num_between 0 255 v with
  | None => raise s TypeError
  | Some false => raise s ValueError
  | Some true =>
      let b := zval v in
      (mkLed (pin s) (0 <? b)%Z b, [Lvl [b]], Ok RNone)
  end.

Definition on (s : led) : outcome := set_brightness s (PI 255).
Definition off (s : led) : outcome := set_brightness s (PI 0).
Definition toggle (s : led) : outcome := if lit s then off s else on s.

(* for _ in range(times): on(); sleep(d); off(); sleep(d) *)
Fixpoint blink_loop (n : nat) (d : Q) (s : led) : outcome :=
  match n with
  | O => done s
  | S n' =>
      andthen (on s) (fun s1 =>
      andthen (sleep d s1) (fun s2 =>
      andthen (off s2) (fun s3 =>
      andthen (sleep d s3) (blink_loop n' d))))
  end.

(* if duration_ms < 0: raise; if times <= 0: raise; for _ in range(times): ...
   range(times) raises TypeError for a float (even 2.0) - after both checks, before any change *)
Definition blink (s : led) (d t : pynum) : outcome :=
  reject_if s (num_lt d 0) (fun _ =>
  reject_if s (num_le t 0) (fun _ =>
  match range_count t with
  | None => raise s TypeError
  | Some n => blink_loop (Z.to_nat n) (qval d) s
  end)).

(* while current < 255: set_brightness(current); sleep(delay); current = min(255, current + step)
   [current] is an int or (fractional step) a float: only its value matters, set_brightness
   stores int(current).  Explicit fuel (Appendix A.3); an exhausted fuel leaves the loop,
   Proofs/LedP.v shows that [fade_in_fuel] is never exhausted. *)
Fixpoint fade_in_loop (fuel : nat) (cur stp d : Q) (s : led) : outcome :=
  match fuel with
  | O => done s
  | S f =>
      if Qltb cur 255 then
        andthen (set_brightness s (PF cur)) (fun s1 =>
        andthen (sleep d s1) (fade_in_loop f (qmin_c 255 (cur + stp)) stp d))
      else done s
  end.

Definition fade_in_fuel (cur stp : Q) : nat :=
  S (Z.to_nat (Qceiling ((255 - cur) / stp))).

(* current = max(0, min(255, int(self.brightness))) *)
Definition fade_start (s : led) : Q := inject_Z (clampZ 0 255 (bright s)).

Definition fade_in (s : led) (stp d : pynum) : outcome :=
  reject_if s (num_le stp 0) (fun _ =>
  reject_if s (num_lt d 0) (fun _ =>
  andthen (fade_in_loop (fade_in_fuel (fade_start s) (qval stp)) (fade_start s) (qval stp) (qval d) s)
          (fun s1 => set_brightness s1 (PI 255)))).

(* while current > 0: set_brightness(current); sleep(delay); current = max(0, current - step) *)
Fixpoint fade_out_loop (fuel : nat) (cur stp d : Q) (s : led) : outcome :=
  match fuel with
  | O => done s
  | S f =>
      if Qltb 0 cur then
        andthen (set_brightness s (PF cur)) (fun s1 =>
        andthen (sleep d s1) (fade_out_loop f (qmax_c 0 (cur - stp)) stp d))
      else done s
  end.

Definition fade_out_fuel (cur stp : Q) : nat :=
  S (Z.to_nat (Qceiling (cur / stp))).

Definition fade_out (s : led) (stp d : pynum) : outcome :=
  reject_if s (num_le stp 0) (fun _ =>
  reject_if s (num_lt d 0) (fun _ =>
  andthen (fade_out_loop (fade_out_fuel (fade_start s) (qval stp)) (fade_start s) (qval stp) (qval d) s)
          (fun s1 => set_brightness s1 (PI 0)))).

(* for index, entry in enumerate(pattern_list):
       if entry not in (0, 1) and not 0 <= entry <= 255: raise ValueError
         (an object is not "in (0, 1)", so the range test runs and raises TypeError;
          0 and 1 are inside 0..255, so the whole condition is "not 0 <= entry <= 255")
       if entry == 0: off()  elif entry == 1: on()  else: set_brightness(int(entry))
         (True and 1.0 are == 1: full brightness; 0.5 becomes set_brightness(0))
       if index != len - 1: sleep(delay)
   entries before a bad one have already been applied when the exception leaves *)
Fixpoint flash_loop (p : list pynum) (d : Q) (s : led) : outcome :=
  match p with
  | [] => done s
  | e :: rest =>
      reject_if s (option_map negb (num_between 0 255 e)) (fun _ =>
      andthen (if num_eq e 0 then off s
               else if num_eq e 1 then on s
               else set_brightness s (PI (zval e)))
              (fun s1 => match rest with
                         | [] => done s1
                         | _ => andthen (sleep d s1) (flash_loop rest d)
                         end))
  end.

Definition flash_pattern (s : led) (p : list pynum) (d : pynum) : outcome :=
  reject_if s (num_lt d 0) (fun _ => flash_loop p (qval d) s).

Definition step (s : led) (o : op) : outcome :=
  match o with
  | On => on s
  | Off => off s
  | GetState => (s, [], Ok (RBool (lit s)))
  | GetBrightness => (s, [], Ok (RInt (bright s)))
  | SetBrightness v => set_brightness s v
  | Toggle => toggle s
  | Blink d t => blink s d t
  | FadeIn a b => fade_in s a b
  | FadeOut a b => fade_out s a b
  | FlashPattern p d => flash_pattern s p d
  end.

Definition st (o : outcome) : led := fst (fst o).
Definition evs (o : outcome) : list ev := snd (fst o).
Definition res (o : outcome) : result := snd o.

Definition run (s : led) (ops : list op) : led :=
  fold_left (fun s o => st (step s o)) ops s.

(* observation helpers used by the statements *)
Fixpoint sleeps (e : list ev) : list Q :=
  match e with
  | [] => []
  | Sleep q :: r => q :: sleeps r
  | Lvl _ :: r => sleeps r
  end.

Fixpoint levels (e : list ev) : list (list Z) :=
  match e with
  | [] => []
  | Sleep _ :: r => levels r
  | Lvl l :: r => l :: levels r
  end.

Fixpoint qsum (l : list Q) : Q :=
  match l with [] => 0 | q :: r => q + qsum r end.

(* the op can only fail because of a scalar argument: every op but a flash_pattern
   whose pattern contains an entry that is itself rejected *)
Definition entry_ok (e : pynum) : bool :=
  match num_between 0 255 e with Some true => true | _ => false end.

Definition scalar_args (o : op) : bool :=
  match o with
  | FlashPattern p _ => forallb entry_ok p
  | _ => true
  end.

(* ---------------- specification vocabulary (used by Props/C19_led.v) ---------------- *)

(* 0 <= brightness <= 255, on exactly when brightness > 0 *)
Definition Inv_led (s : led) : Prop :=
  (0 <= bright s <= 255)%Z /\ lit s = (0 <? bright s)%Z.

(* the i-th channel of each recorded level *)
Definition chan (i : nat) (lv : list (list Z)) : list Z := map (fun l => nth i l 0%Z) lv.

Fixpoint mono_le (l : list Z) : Prop :=
  match l with
  | a :: ((b :: _) as t) => (a <= b)%Z /\ mono_le t
  | _ => True
  end.

Fixpoint mono_ge (l : list Z) : Prop :=
  match l with
  | a :: ((b :: _) as t) => (b <= a)%Z /\ mono_ge t
  | _ => True
  end.
