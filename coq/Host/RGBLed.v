(* Model of /repo/src/Reduino/Actuators/RGBLed.py (class RGBLed), written line by line.

   State = the three private attributes (_pins, _color, _state).  The constructor's
   validation is [create].  [step] covers every public method and the [pins] property.
   Events: one [Sleep q] per call of the package-level sleep, one [Lvl [r;g;b]] per
   COMPLETED call of set_color.  Types [kind ev ret result] are those of Host/Led.v.
   No proofs in this file. *)
From Coq Require Import ZArith QArith Qround List Bool.
From RV Require Import Base.Wire Base.Num Host.Led.
Import ListNotations.
Import Num.
Local Open Scope Q_scope.

Definition triple : Type := (Z * Z * Z)%type.

Record rgb : Type := mkRgb { pins : pynum * pynum * pynum; color : triple; lit : bool }.

Definition outcome : Type := (rgb * list ev * result)%type.

Inductive op : Type :=
| GetPins
| GetColor
| GetState
| SetColor (r g b : pynum)
| On (r g b : pynum)
| Off
| Fade (r g b duration steps : pynum)
| Blink (r g b times delay : pynum).

(* defaults of the signatures *)
Definition default_on : pynum := PI 255.
Definition default_fade_duration : pynum := PI 1000.
Definition default_fade_steps : pynum := PI 50.
Definition default_blink_times : pynum := PI 1.
Definition default_blink_delay : pynum := PI 200.

(* _validate_pin / _validate_component:
     if not isinstance(v, int): raise TypeError     (floats - even 1.0 - and objects; bools pass)
     if <out of range>: raise ValueError
   None = accepted *)
Definition validate_pin (p : pynum) : option kind :=
  if negb (is_intlike p) then Some TypeError
  else if Qltb (qval p) 0 then Some ValueError
  else None.

Definition validate_component (v : pynum) : option kind :=
  if negb (is_intlike v) then Some TypeError
  else if negb (Qle_bool 0 (qval v) && Qle_bool (qval v) 255) then Some ValueError
  else None.

(* the three validations run in order red, green, blue; the first failure is raised *)
Definition first_error (a b c : option kind) : option kind :=
  match a with
  | Some k => Some k
  | None => match b with Some k => Some k | None => c end
  end.

(* RGBLed(red_pin, green_pin, blue_pin): _validate_pin returns the pin unchanged
   (True stays True), colour black, state off *)
Definition create (r g b : pynum) : rgb + kind :=
  match first_error (validate_pin r) (validate_pin g) (validate_pin b) with
  | Some k => inr k
  | None => inl (mkRgb (r, g, b) (0, 0, 0)%Z false)
  end.

Definition raise (s : rgb) (k : kind) : outcome := (s, [], Raised k).
Definition done (s : rgb) : outcome := (s, [], Ok RNone).
Definition sleep (q : Q) (s : rgb) : outcome := (s, [Sleep q], Ok RNone).

Definition andthen (a : outcome) (k : rgb -> outcome) : outcome :=
  match a with
  | (s, e, Ok _) => let '(s', e', r) := k s in (s', e ++ e', r)
  | (s, e, Raised x) => (s, e, Raised x)
  end.

Definition reject_if (s : rgb) (c : option bool) (k : rgb -> outcome) : outcome :=
  match c with
  | None => raise s TypeError
  | Some true => raise s ValueError
  | Some false => k s
  end.

(* any(component > 0 for component in colour) *)
Definition any_on (c : triple) : bool :=
  let '(r, g, b) := c in ((0 <? r) || (0 <? g) || (0 <? b))%Z.

(* colour = (validate(red), validate(green), validate(blue)); self._color = colour;
   self._update_state(colour)      -- the components are stored as int(value) *)
Definition set_color (s : rgb) (r g b : pynum) : outcome :=
  match first_error (validate_component r) (validate_component g) (validate_component b) with
  | Some k => raise s k
  | None =>
      let c := (zval r, zval g, zval b) in
      (mkRgb (pins s) c (any_on c), [Lvl [zval r; zval g; zval b]], Ok RNone)
  end.

Definition set_triple (s : rgb) (c : triple) : outcome :=
  let '(r, g, b) := c in set_color s (PI r) (PI g) (PI b).

Definition off (s : rgb) : outcome := set_color s (PI 0) (PI 0) (PI 0).

Definition triple_eqb (a b : triple) : bool :=
  let '(a1, a2, a3) := a in
  let '(b1, b2, b3) := b in
  ((a1 =? b1) && (a2 =? b2) && (a3 =? b3))%Z.

(* value = current + (delta * index) / steps ; int(round(value)) *)
Definition interp (n : Q) (c g idx : Z) : Z :=
  py_round (inject_Z c + inject_Z ((g - c) * idx) / n).

Definition interp3 (n : Q) (start target : triple) (idx : Z) : triple :=
  let '(c1, c2, c3) := start in
  let '(g1, g2, g3) := target in
  (interp n c1 g1 idx, interp n c2 g2 idx, interp n c3 g3 idx).

(* for index in range(1, steps + 1):
       set_color( *interpolated(index)); if index != steps: sleep(step_delay)
   [k] iterations remain, the next index is [idx] *)
Fixpoint fade_loop (k : nat) (idx nz : Z) (nq : Q) (start target : triple) (delay : Q)
         (s : rgb) : outcome :=
  match k with
  | O => done s
  | S k' =>
      andthen (set_triple s (interp3 nq start target idx)) (fun s1 =>
      andthen (if (idx =? nz)%Z then done s1 else sleep delay s1)
              (fade_loop k' (idx + 1)%Z nz nq start target delay))
  end.

(* def fade(self, red, green, blue, duration_ms=1000, steps=50):
     if duration_ms < 0: raise;  if steps <= 0: raise;  target = (validate x3)
     if duration_ms == 0 or self._color == target: self.set_color( *target); return
     start = self._color; step_delay = float(duration_ms) / steps
     for index in range(1, steps + 1): ...          (TypeError here for a float [steps]) *)
Definition fade (s : rgb) (r g b d n : pynum) : outcome :=
  reject_if s (num_lt d 0) (fun _ =>
  reject_if s (num_le n 0) (fun _ =>
  match first_error (validate_component r) (validate_component g) (validate_component b) with
  | Some k => raise s k
  | None =>
      let target := (zval r, zval g, zval b) in
      if num_eq d 0 || triple_eqb (color s) target then set_triple s target
      else
        match range_count n with
        | None => raise s TypeError
        | Some nz =>
            fade_loop (Z.to_nat nz) 1%Z nz (qval n) (color s) target (qval d / qval n) s
        end
  end)).

(* for _ in range(times): set_color( *colour); sleep(d); off(); sleep(d) *)
Fixpoint blink_loop (k : nat) (c : triple) (d : Q) (s : rgb) : outcome :=
  match k with
  | O => done s
  | S k' =>
      andthen (set_triple s c) (fun s1 =>
      andthen (sleep d s1) (fun s2 =>
      andthen (off s2) (fun s3 =>
      andthen (sleep d s3) (blink_loop k' c d))))
  end.

(* def blink(self, red, green, blue, times=1, delay_ms=200):
     if times <= 0: raise;  if delay_ms < 0: raise;  colour = (validate x3)
     original = self._color
     for _ in range(times): ...                      (TypeError here for a float [times])
     self.set_color( *original) *)
Definition blink (s : rgb) (r g b t d : pynum) : outcome :=
  reject_if s (num_le t 0) (fun _ =>
  reject_if s (num_lt d 0) (fun _ =>
  match first_error (validate_component r) (validate_component g) (validate_component b) with
  | Some k => raise s k
  | None =>
      match range_count t with
      | None => raise s TypeError
      | Some tz =>
          andthen (blink_loop (Z.to_nat tz) (zval r, zval g, zval b) (qval d) s)
                  (fun s1 => set_triple s1 (color s))
      end
  end)).

Definition tup3 (c : triple) : list pynum :=
  let '(r, g, b) := c in [PI r; PI g; PI b].

Definition step (s : rgb) (o : op) : outcome :=
  match o with
  | GetPins => let '(p1, p2, p3) := pins s in (s, [], Ok (RTup [p1; p2; p3]))
  | GetColor => (s, [], Ok (RTup (tup3 (color s))))
  | GetState => (s, [], Ok (RBool (lit s)))
  | SetColor r g b => set_color s r g b
  | On r g b => set_color s r g b
  | Off => off s
  | Fade r g b d n => fade s r g b d n
  | Blink r g b t d => blink s r g b t d
  end.

Definition st (o : outcome) : rgb := fst (fst o).
Definition evs (o : outcome) : list ev := snd (fst o).
Definition res (o : outcome) : result := snd o.

Definition run (s : rgb) (ops : list op) : rgb :=
  fold_left (fun s o => st (step s o)) ops s.

(* ---------------- specification vocabulary (used by Props/C19_led.v) ---------------- *)

Definition chan_ok (z : Z) : Prop := (0 <= z <= 255)%Z.

(* every channel in 0..255, on exactly when some channel is non-zero *)
Definition Inv_rgb (s : rgb) : Prop :=
  let '(r, g, b) := color s in
  chan_ok r /\ chan_ok g /\ chan_ok b /\
  (lit s = true <-> (r <> 0 \/ g <> 0 \/ b <> 0)%Z).

(* the list moves monotonically from [c] towards [g]: never away, never past *)
Definition toward (c g : Z) (l : list Z) : Prop :=
  ((c <= g)%Z -> mono_le (c :: l) /\ Forall (fun z => (z <= g)%Z) l) /\
  ((g <= c)%Z -> mono_ge (c :: l) /\ Forall (fun z => (g <= z)%Z) l).

(* idx, idx+1, ..., idx+k-1 *)
Fixpoint zseq (idx : Z) (k : nat) : list Z :=
  match k with O => [] | S k' => idx :: zseq (idx + 1)%Z k' end.

Definition l3 (c : triple) : list Z := let '(r, g, b) := c in [r; g; b].

Definition ch (i : nat) (c : triple) : Z := nth i (l3 c) 0%Z.

Definition target_of (r g b : pynum) : triple := (zval r, zval g, zval b).

(* fade takes the one-step shortcut *)
Definition fade_shortcut (s : rgb) (r g b d : pynum) : bool :=
  num_eq d 0 || triple_eqb (color s) (target_of r g b).
