(* State-relative arguments of Led / RGBLed calls, and the closed-form behaviour of
   RGBLed.blink / RGBLed.fade as a function of (state, arguments).

   The property quantifies over every call "from every reachable object state"; a call
   whose argument is DERIVED from the state it is applied to (the colour currently shown,
   a neighbour of it, the same number spelled as a bool or a float, a channel of it in
   another position) is such a call.  [carg] names those arguments; [resolve_*] turns one
   into the concrete Python value against the object's state.  The wire runner
   (Wire/C19_ledW.v) resolves relative arguments against the MODEL state, the implementation
   runner against the getters of the REAL object; both report the concrete arguments they
   used, and the correspondence compares them.

   Model file: definitions only (the proofs are in Proofs/RelArgsP.v). *)
From Coq Require Import ZArith QArith List Bool.
From RV Require Import Base.Wire Base.Num Host.Led Host.RGBLed.
Import ListNotations.
Import Num.
Local Open Scope Q_scope.

(* how the number is written: 7 | True/False (only 0 and 1 have a bool spelling) | 7.0 *)
Inductive spelling : Type := SpInt | SpBool | SpFloat.

Definition spell (sp : spelling) (z : Z) : pynum :=
  match sp with
  | SpInt => PI z
  | SpBool => if (z =? 0)%Z then PB false else if (z =? 1)%Z then PB true else PI z
  | SpFloat => PF (inject_Z z)
  end.

(* an absolute value, or channel [i] of the current colour (for a Led: the current
   brightness, [i] ignored) plus [delta], written as [sp] *)
Inductive carg : Type :=
| CAbs (v : pynum)
| CCur (i : nat) (delta : Z) (sp : spelling).

Definition resolve_rgb (s : rgb) (a : carg) : pynum :=
  match a with
  | CAbs v => v
  | CCur i d sp => spell sp (ch i (color s) + d)
  end.

Definition resolve_led (s : led) (a : carg) : pynum :=
  match a with
  | CAbs v => v
  | CCur _ d sp => spell sp (Led.bright s + d)
  end.

(* channel [i] of the colour shown, as the int the getter returns *)
Definition cur (s : rgb) (i : nat) : pynum := PI (ch i (color s)).

(* ---------------- closed form of blink ---------------- *)

Definition components_ok (r g b : pynum) : bool :=
  match first_error (validate_component r) (validate_component g) (validate_component b) with
  | None => true
  | Some _ => false
  end.

(* a usable repeat count: an int or bool (range() refuses floats, even 2.0) that is >= 1 *)
Definition times_ok (t : pynum) : bool :=
  match range_count t with Some n => (0 <? n)%Z | None => false end.

(* a usable delay / duration: any number (int, float, bool) that is >= 0 *)
Definition nonneg_num (d : pynum) : bool := negb (is_obj d) && Qle_bool 0 (qval d).

(* blink(r, g, b, times, delay) is accepted or refused by its arguments ALONE: the state it
   is applied to plays no part *)
Definition blink_accepts (r g b t d : pynum) : bool :=
  times_ok t && nonneg_num d && components_ok r g b.

(* what an accepted blink does: [k] times (colour, sleep, black, sleep), then the colour
   that was shown before the call *)
Definition blink_trace (k : nat) (c : triple) (d : Q) (orig : triple) : list ev :=
  concat (repeat [Lvl (l3 c); Sleep d; Lvl [0; 0; 0]%Z; Sleep d] k) ++ [Lvl (l3 orig)].

(* ---------------- closed form of fade's acceptance ---------------- *)

(* fade DOES look at the state before deciding: with duration 0 or a target equal to the colour
   shown it returns before range(steps) is evaluated, so a float [steps] (2.5, even 2.0) is
   accepted exactly then *)
Definition fade_accepts (s : rgb) (r g b d n : pynum) : bool :=
  nonneg_num d
  && (negb (is_obj n) && negb (Qle_bool (qval n) 0))
  && components_ok r g b
  && (fade_shortcut s r g b d || match range_count n with Some _ => true | None => false end).
