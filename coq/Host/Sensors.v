(* Models of src/Reduino/Sensors/{Button,Potentiometer,Ultrasonic}.py.
   Definitions only (proofs in Proofs/SensorsP.v).  The provider callables are
   the external world: each poll/read consumes one provider sample given
   explicitly in the operation. *)
From Coq Require Import ZArith QArith List Bool.
From RV Require Import Base.Wire Base.Text Base.NumC Base.TextC Host.Utils.
Import ListNotations.
Open Scope Z_scope.

(* ------------------------------------------------------------------ Button *)

Record button : Type := mkButton {
  b_click : bool;        (* an on_click callback was given *)
  b_provider : bool;     (* a state_provider was given *)
  b_pressed : bool;      (* _pressed *)
  b_was : bool           (* _was_pressed *)
}.

(* Button(pin, on_click=..., state_provider=...): pin must be an int (bool is one) *)
Definition button_new (pin : pynum) (click provider : bool) : ures button :=
  if is_int pin then UOk (mkButton click provider false false) else URaise TypeError.

Inductive bop : Type :=
| BSet (v : pynum)       (* set_pressed(v) *)
| BPoll (sample : pynum) (* is_pressed(); sample = what the provider returns now (ignored without provider) *).

(* outcome of one call: None for set_pressed, (return value, on_click called) for is_pressed *)
Definition bstep (s : button) (o : bop) : button * option (Z * bool) :=
  match o with
  | BSet v => (mkButton (b_click s) (b_provider s) (truthy v) (b_was s), None)
  | BPoll sample =>
      let pressed := if b_provider s then truthy sample else b_pressed s in
      let fired := pressed && negb (b_was s) && b_click s in
      (mkButton (b_click s) (b_provider s) (b_pressed s) pressed, Some (b2z pressed, fired))
  end.

Fixpoint brun (s : button) (ops : list bop) : list (option (Z * bool)) :=
  match ops with
  | [] => []
  | o :: r => let '(s1, x) := bstep s o in x :: brun s1 r
  end.

(* the signal is_pressed actually sees at each poll (one entry per BPoll) *)
Fixpoint seen (provider cur : bool) (ops : list bop) : list bool :=
  match ops with
  | [] => []
  | BSet v :: r => seen provider (truthy v) r
  | BPoll sample :: r => (if provider then truthy sample else cur) :: seen provider cur r
  end.

(* the polls of a run, in order *)
Fixpoint polls (l : list (option (Z * bool))) : list (Z * bool) :=
  match l with
  | [] => []
  | Some x :: r => x :: polls r
  | None :: r => polls r
  end.

(* specification side: rising edges of a sampled signal, previous level given *)
Fixpoint rising (prev : bool) (l : list bool) : list bool :=
  match l with
  | [] => []
  | x :: r => (x && negb prev) :: rising x r
  end.

(* ----------------------------------------------------------- Potentiometer *)

(* Potentiometer(pin): None = pin is not a str *)
Definition pot_new (pin : option text) : ures text :=
  match pin with
  | None => URaise TypeError
  | Some t =>
      let s := strip t in
      match s with
      | [] => URaise ValueError
      | c :: r => if (c =? 65) && all_digits r then UOk s else URaise ValueError
      end
  end.

(* read(): provider = None when no value_provider was given *)
Definition pot_read (provider : option pynum) : ures Z :=
  match provider with
  | None => UOk 0
  | Some v =>
      match py_int v with
      | None => URaise TypeError
      | Some z => if (z <? 0) || (1023 <? z) then URaise ValueError else UOk z
      end
  end.

(* -------------------------------------------------------------- Ultrasonic *)

Definition HCSR04 : text := [72; 67; 45; 83; 82; 48; 52].

(* selected.strip().upper().replace("_", "-") *)
Definition canonical (t : text) : text := replace_char 95 45 (upper (strip t)).

(* Ultrasonic(trig, echo, sensor=, model=, default_distance=): returns the stored default *)
Definition ultra_new (sensor model : option text) (trig echo default : pynum) : ures Q :=
  let selected :=
    match sensor with
    | Some s => s
    | None => match model with Some m => m | None => HCSR04 end
    end in
  if negb (text_eqb (canonical selected) HCSR04) then URaise ValueError
  else if negb (is_int trig && is_int echo) then URaise TypeError
  else
    match py_int trig, py_int echo with
    | Some t, Some e =>
        if (t <? 0) || (e <? 0) then URaise ValueError
        else match qval default with
             | Some d => UOk d
             | None => URaise TypeError
             end
    | _, _ => URaise TypeError
    end.

(* measure_distance(): provider = None when no distance_provider was given *)
Definition ultra_measure (default : Q) (provider : option pynum) : ures Q :=
  let d := match provider with None => Some default | Some v => qval v end in
  match d with
  | None => URaise TypeError
  | Some q => if q_ltb q 0 then URaise ValueError else UOk q
  end.
