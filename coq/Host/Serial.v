(* Model of src/Reduino/Communication/SerialMonitor.py (write path, connect, close).
   Definitions only.  str() is modelled for int, bool and str values; floats and
   arbitrary objects, read(), and pyserial itself are outside the model.  Payloads
   are code-point texts (the harness decodes the UTF-8 bytes it recorded). *)
From Coq Require Import ZArith QArith List Bool.
From RV Require Import Base.Wire Base.Text Base.NumC Base.TextC Host.Utils.
Import ListNotations.
Open Scope Z_scope.

Inductive sval : Type :=
| SInt (z : Z)
| SBool (b : bool)
| SStr (t : text).

(* f"{value}" *)
Definition str_of (v : sval) : text :=
  match v with
  | SInt z => str_Z z
  | SBool b => str_bool b
  | SStr t => t
  end.

Record monitor : Type := mkMon {
  m_backend : bool;      (* the serial backend module is available *)
  m_newline : text;
  m_open : bool          (* _serial is not None and _serial.is_open *)
}.

Inductive sop : Type :=
| SWrite (v : sval)
| SClose
| SConnect.

Inductive sres : Type :=
| SRet (t : text)        (* write returned this str *)
| SNone
| SRaise (e : exn).

(* one call: new state, payloads handed to the backend's write(), result *)
Definition sstep (s : monitor) (o : sop) : monitor * list text * sres :=
  match o with
  | SWrite v =>
      let t := str_of v in
      (s, (if m_open s then [t ++ m_newline s] else []), SRet t)
  | SClose => (mkMon (m_backend s) (m_newline s) false, [], SNone)
  | SConnect =>
      if m_backend s then (mkMon true (m_newline s) true, [], SNone)
      else (s, [], SRaise RuntimeError)
  end.

Fixpoint srun (s : monitor) (ops : list sop) : list (list text * sres) :=
  match ops with
  | [] => []
  | o :: r => let '(s1, w, x) := sstep s o in (w, x) :: srun s1 r
  end.

(* SerialMonitor(baud, port=..., newline=...): port_given = a port was passed (connects at once) *)
Definition mon_new (backend : bool) (baud : Z) (port_given : bool) (newline : text) : ures monitor :=
  if baud <=? 0 then URaise ValueError
  else if port_given then
    (if backend then UOk (mkMon backend newline true) else URaise RuntimeError)
  else UOk (mkMon backend newline false).
