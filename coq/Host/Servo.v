(* Host model of /repo/src/Reduino/Actuators/Servo.py  (class Servo).

   Floats are exact rationals.  Every public method is an op of [sstep]; the
   constructor (with its own rejections) is [servo_ctor].  Order of checks and raise
   points follow the Python text:

     __init__ : not min_angle < max_angle    -> TypeError if either is a non-number,
                                               ValueError if true
                not min_pulse_us < max_pulse_us -> likewise
                not all(math.isfinite(b) for the four bounds) -> ValueError: never true here,
                the numbers of this model are finite (NaN / infinite bounds: Host/ActuatorsX.v,
                [servo_bounds_accepted]; ints beyond the float range are outside the models)
                then pin is stored unvalidated, the four bounds through float(),
                current angle/pulse := the minima.
     write a  : not (min_angle <= a <= max_angle) -> TypeError for a non-number
                (raised by the first comparison), ValueError if out of range;
                only then  angle := float(a); pulse := angle_to_pulse(angle).
     write_us : symmetric.
     read / read_us : return the stored float.

   Events (Appendix A.2): one [SLvl angle pulse] per completed write / write_us.
   No method sleeps.  No proofs in this file. *)
From Coq Require Import ZArith QArith List Bool.
From RV Require Import Base.Wire Base.NumM Gen.C19Motor.
Import ListNotations.
Open Scope Q_scope.

Record servo : Type := mkServo {
  sv_pin : pynum;        (* self.pin, stored as given *)
  min_a : Q;             (* _min_angle *)
  max_a : Q;             (* _max_angle *)
  min_p : Q;             (* _min_pulse *)
  max_p : Q;             (* _max_pulse *)
  cur_a : Q;             (* _current_angle *)
  cur_p : Q              (* _current_pulse *)
}.

(* constructor arguments; None = argument omitted (the default of the signature,
   regenerated from the source into Gen/C19Motor.v, applies) *)
Record servo_args : Type := mkServoArgs {
  a_pin : option pynum;
  a_min_a : option pynum;
  a_max_a : option pynum;
  a_min_p : option pynum;
  a_max_p : option pynum
}.

Definition dflt (d : pynum) (o : option pynum) : pynum :=
  match o with Some v => v | None => d end.

Definition servo_ctor (a : servo_args) : servo + exn :=
  let pin := dflt servo_default_pin (a_pin a) in
  let mina := dflt servo_default_min_angle (a_min_a a) in
  let maxa := dflt servo_default_max_angle (a_max_a a) in
  let minp := dflt servo_default_min_pulse (a_min_p a) in
  let maxp := dflt servo_default_max_pulse (a_max_p a) in
  match py_not_lt mina maxa with
  | None => inr TypeError
  | Some true => inr ValueError
  | Some false =>
      match py_not_lt minp maxp with
      | None => inr TypeError
      | Some true => inr ValueError
      | Some false =>
          inl (mkServo pin (qval mina) (qval maxa) (qval minp) (qval maxp) (qval mina) (qval minp))
      end
  end.

(* _angle_to_pulse / _pulse_to_angle, same association as the source *)
Definition a2p (s : servo) (a : Q) : Q :=
  min_p s + ((a - min_a s) / (max_a s - min_a s)) * (max_p s - min_p s).

Definition p2a (s : servo) (p : Q) : Q :=
  min_a s + ((p - min_p s) / (max_p s - min_p s)) * (max_a s - min_a s).

Inductive sop : Type :=
| SWrite (v : pynum)
| SWriteUs (v : pynum)
| SRead
| SReadUs.

Inductive sret : Type := SNone | SFloat (q : Q).

Inductive sev : Type := SLvl (angle pulse : Q).

Definition set_pos (s : servo) (a p : Q) : servo :=
  mkServo (sv_pin s) (min_a s) (max_a s) (min_p s) (max_p s) a p.

Definition sstep (s : servo) (op : sop) : servo * list sev * result sret :=
  match op with
  | SWrite v =>
      match py_between (min_a s) (max_a s) v with
      | None => (s, [], Raised TypeError)
      | Some false => (s, [], Raised ValueError)
      | Some true =>
          let a := qval v in
          let p := a2p s a in
          (set_pos s a p, [SLvl a p], Ok SNone)
      end
  | SWriteUs v =>
      match py_between (min_p s) (max_p s) v with
      | None => (s, [], Raised TypeError)
      | Some false => (s, [], Raised ValueError)
      | Some true =>
          let p := qval v in
          let a := p2a s p in
          (set_pos s a p, [SLvl a p], Ok SNone)
      end
  | SRead => (s, [], Ok (SFloat (cur_a s)))
  | SReadUs => (s, [], Ok (SFloat (cur_p s)))
  end.

Definition sstate (r : servo * list sev * result sret) : servo := fst (fst r).
Definition sevents (r : servo * list sev * result sret) : list sev := snd (fst r).
Definition sresult (r : servo * list sev * result sret) : result sret := snd r.

(* the object after a history of calls *)
Definition srun (ops : list sop) (s : servo) : servo :=
  fold_left (fun st op => sstate (sstep st op)) ops s.

(* everything a history emits, in order *)
Fixpoint strace (ops : list sop) (s : servo) : list sev :=
  match ops with
  | [] => []
  | op :: r => sevents (sstep s op) ++ strace r (sstate (sstep s op))
  end.

