(* The binary64 arithmetic of Servo.write() / write_us(), as CPython executes it (after the repair of
   F-C19-servo-bound-ulp: the interpolated value is clamped to the configured bounds):

       _angle_to_pulse(a): pulse = min_pulse + ((a - min_angle) / (max_angle - min_angle)) * (max_pulse - min_pulse)
                           return min(max(pulse, min_pulse), max_pulse)
       _pulse_to_angle(p): angle = min_angle + ((p - min_pulse) / (max_pulse - min_pulse)) * (max_angle - min_angle)
                           return min(max(angle, min_angle), max_angle)

   five operations each, every one rounded to the nearest binary64 number ([fl] = fl53 of Host/LCDFloat.v,
   unbounded exponent: IEEE-754 binary64 wherever no overflow / subnormal occurs), then the clamp (exact).
   At the top of the range the ratio is exactly 1 and the raw value [lin_fl] is fl (min + fl (max - min)), which is
   NOT max for unlucky bounds: the raw pulse (angle) exceeds the bound by an ulp - the clamp is what keeps the
   stored value within the bounds (Proofs/ServoFloatP.v).  [top_ok lo hi] says "fl (lo + fl (hi - lo)) <= hi"
   (the old guard of the finding: where it holds the clamp never bites).
   [sstep_fl] is [sstep] of Host/Servo.v with the two maps computed this way.  Definitions only. *)
From Coq Require Import ZArith QArith List Bool.
From RV Require Import Base.Wire Base.NumM Host.Servo.
From RV Require Host.LCDFloat.
Import ListNotations.
Open Scope Q_scope.

(* Qred first: [fl] then respects equality of rationals (p == q -> fl p = fl q); the value is the same *)
Definition fl (q : Q) : Q := LCDFloat.fl53 (Qred q).

Definition lin_fl (lo_in hi_in lo_out hi_out x : Q) : Q :=
  fl (lo_out + fl (fl (fl (x - lo_in) / fl (hi_in - lo_in)) * fl (hi_out - lo_out))).

(* min(max(v, lo), hi) *)
Definition lin_clamped_fl (lo_in hi_in lo_out hi_out x : Q) : Q :=
  qclamp lo_out hi_out (lin_fl lo_in hi_in lo_out hi_out x).

Definition a2p_fl (s : servo) (a : Q) : Q := Qred (lin_clamped_fl (min_a s) (max_a s) (min_p s) (max_p s) a).
Definition p2a_fl (s : servo) (p : Q) : Q := Qred (lin_clamped_fl (min_p s) (max_p s) (min_a s) (max_a s) p).
(* the raw (unclamped) interpolation: what the class stored before the repair *)
Definition a2p_raw_fl (s : servo) (a : Q) : Q := Qred (lin_fl (min_a s) (max_a s) (min_p s) (max_p s) a).
Definition p2a_raw_fl (s : servo) (p : Q) : Q := Qred (lin_fl (min_p s) (max_p s) (min_a s) (max_a s) p).

Definition top_exact (lo hi : Q) : bool := Qeq_bool (fl (lo + fl (hi - lo))) hi.
(* the form the bound theorem needs: the image of the top of the range is not above the bound.  [fl (fl x)]
   is [fl x] on binary64 numbers, so this is implied by [top_exact] *)
Definition top_ok (lo hi : Q) : bool := Qle_bool (fl (lo + fl (fl (hi - lo)))) hi.
Definition servo_top_ok (s : servo) : bool :=
  top_ok (min_a s) (max_a s) && top_ok (min_p s) (max_p s).
Definition servo_top_exact (s : servo) : bool :=
  top_exact (min_a s) (max_a s) && top_exact (min_p s) (max_p s).

Definition sstep_fl (s : servo) (op : sop) : servo * list sev * result sret :=
  match op with
  | SWrite v =>
      match py_between (min_a s) (max_a s) v with
      | None => (s, [], Raised TypeError)
      | Some false => (s, [], Raised ValueError)
      | Some true =>
          let a := qval v in
          let p := a2p_fl s a in
          (set_pos s a p, [SLvl a p], Ok SNone)
      end
  | SWriteUs v =>
      match py_between (min_p s) (max_p s) v with
      | None => (s, [], Raised TypeError)
      | Some false => (s, [], Raised ValueError)
      | Some true =>
          let p := qval v in
          let a := p2a_fl s p in
          (set_pos s a p, [SLvl a p], Ok SNone)
      end
  | _ => sstep s op
  end.

Definition srun_fl (ops : list sop) (s : servo) : servo :=
  fold_left (fun st op => sstate (sstep_fl st op)) ops s.

Definition is_b64 (x : Q) : bool := Qeq_bool (fl x) x.
