(* Model of src/Reduino/Utils/__init__.py : map and sleep.  Definitions only
   (proofs in Proofs/UtilsP.v).  Floats are exact rationals; the code's binary64
   rounding of the quotient/product/sum is outside the model (measured by the
   correspondence check to 1e-9 relative). *)
From Coq Require Import ZArith QArith List Bool.
From RV Require Import Base.Wire Base.NumC.
Import ListNotations.
Open Scope Q_scope.

Inductive ures (A : Type) : Type :=
| UOk (a : A)
| URaise (e : exn).
Arguments UOk {A} a.
Arguments URaise {A} e.

(* to_low + ((value - from_low) / (from_high - from_low)) * (to_high - to_low) *)
Definition map_val (x fl fh tl th : Q) : Q :=
  tl + ((x - fl) / (fh - fl)) * (th - tl).

(* Utils.map on rationals: refuses from_low == from_high *)
Definition umap (x fl fh tl th : Q) : ures Q :=
  if Qeq_bool fl fh then URaise ValueError else UOk (map_val x fl fh tl th).

(* Utils.map on Python numbers (int / float / bool); None arguments are not modelled *)
Definition umap_py (x fl fh tl th : pynum) : option (ures Q) :=
  match qval x, qval fl, qval fh, qval tl, qval th with
  | Some a, Some b, Some c, Some d, Some e => Some (umap a b c d e)
  | _, _, _, _, _ => None
  end.

(* Utils.sleep: the list is the sequence of calls made to the sleeper (seconds) *)
Definition usleep (d : pynum) : list Q * ures unit :=
  match qval d with
  | None => ([], URaise TypeError)                    (* None < 0 *)
  | Some ms =>
      if q_ltb ms 0 then ([], URaise ValueError)
      else ([ms / 1000], UOk tt)
  end.
