(* Bit-exact model of src/Reduino/Utils/__init__.py (map, sleep) as CPython executes it on
   binary64 floats, unbounded ints, bools and None.  Definitions only (lemmas:
   Proofs/UtilsFloatP.v, which ties the operations to Flocq's IEEE-754 formalisation).

       def map(value, from_low, from_high, to_low, to_high):
           if from_low == from_high:
               raise ValueError(...)
           ratio = (value - from_low) / (from_high - from_low)
           return to_low + ratio * (to_high - to_low)

       def sleep(duration, *, sleep_func=None):
           if duration < 0: raise ValueError(...)
           milliseconds = float(duration)
           seconds = milliseconds / 1000.0
           (sleep_func or time.sleep)(seconds)

   A float is a [spec_float] of the standard library (Coq.Floats.SpecFloat: pure Gallina over
   Z, no primitive, no axiom); the operations are SFadd / SFsub / SFmul / SFdiv at
   prec = 53, emax = 1024 (IEEE-754 binary64, round to nearest even, signed zeros, infinities,
   one NaN).  What CPython adds around them is modelled line by line:
     - int (op) int is exact, except  /  which is the CORRECTLY ROUNDED quotient
       (Objects/longobject.c long_true_divide), OverflowError when that is >= 2^1024, and the
       sign rule 0 / -5 = -0.0;
     - int (op) float converts the int first (PyLong_AsDouble: nearest even, OverflowError
       when the result would be >= 2^1024), whatever the float is (inf - 10**400 raises);
     - float / 0.0 raises ZeroDivisionError; + - * never raise (they produce inf / nan);
     - int == float compares the exact mathematical values (no conversion);
       nan == nan is False, -0.0 == 0.0 is True, None == None is True;
     - arithmetic with None raises TypeError; bool is an int;
     - the operations are evaluated in source order and the first exception wins. *)
From Coq Require Import ZArith List Bool SpecFloat.
Import ListNotations.
Open Scope Z_scope.

Definition prec : Z := 53.
Definition emax : Z := 1024.

Notation sf := spec_float.

Definition fadd : sf -> sf -> sf := SFadd prec emax.
Definition fsub : sf -> sf -> sf := SFsub prec emax.
Definition fmul : sf -> sf -> sf := SFmul prec emax.
Definition fdiv : sf -> sf -> sf := SFdiv prec emax.

(* Python scalars *)
Inductive fnum : Type :=
| NI (z : Z)
| NB (b : bool)
| NF (f : sf)
| NN.                       (* None *)

Inductive fexn : Type := EValue | EType | EOverflow | EZeroDiv.

Definition fexn_code (e : fexn) : Z :=
  match e with EValue => 1 | EType => 2 | EOverflow => 4 | EZeroDiv => 5 end.

Inductive fres (A : Type) : Type :=
| FOk (a : A)
| FRaise (e : fexn).
Arguments FOk {A} a.
Arguments FRaise {A} e.

Definition fbind {A B} (r : fres A) (k : A -> fres B) : fres B :=
  match r with FOk a => k a | FRaise e => FRaise e end.

(* a number once None is excluded: int (bools included) or float *)
Inductive pv : Type :=
| VI (z : Z)
| VF (f : sf).

Definition of_num (x : fnum) : option pv :=
  match x with
  | NI z => Some (VI z)
  | NB b => Some (VI (if b then 1 else 0))
  | NF f => Some (VF f)
  | NN => None
  end.

(* float(z) of an int (PyLong_AsDouble): nearest even; None = OverflowError.
   Every int of 1025 bits or more overflows (decided without rounding it). *)
Definition z2f (z : Z) : option sf :=
  if 1024 <=? Z.log2 (Z.abs z) then None
  else match binary_normalize prec emax z 0 false with
       | S754_infinity _ => None
       | f => Some f
       end.

(* a / b on ints, b <> 0 (long_true_divide): the correctly rounded quotient.
   The quotient of a*2^k by b is taken with at least 65 significant bits and one sticky bit
   below it, then rounded once.  None = OverflowError. *)
Definition int_truediv (a b : Z) : option sf :=
  if a =? 0 then Some (S754_zero (b <? 0))
  else
    let s := xorb (a <? 0) (b <? 0) in
    let a' := Z.abs a in
    let b' := Z.abs b in
    let d := Z.log2 a' - Z.log2 b' in
    if 1025 <? d then None
    else
      let k := 66 - d in
      let num := if 0 <=? k then a' * 2 ^ k else a' in
      let den := if 0 <=? k then b' else b' * 2 ^ (- k) in
      let q := num / den in
      let r := num mod den in
      let m := 2 * q + (if r =? 0 then 0 else 1) in
      match binary_normalize prec emax (if s then - m else m) (- k - 1) false with
      | S754_infinity _ => None
      | f => Some f
      end.

Definition is_fzero (f : sf) : bool :=
  match f with S754_zero _ => true | _ => false end.

(* the float operand of a mixed operation *)
Definition as_float (v : pv) : fres sf :=
  match v with
  | VF f => FOk f
  | VI z => match z2f z with Some f => FOk f | None => FRaise EOverflow end
  end.

(* a - b *)
Definition pv_sub (a b : pv) : fres pv :=
  match a, b with
  | VI x, VI y => FOk (VI (x - y))
  | _, _ => fbind (as_float a) (fun x => fbind (as_float b) (fun y => FOk (VF (fsub x y))))
  end.

(* a / b : always a float *)
Definition pv_div (a b : pv) : fres sf :=
  match a, b with
  | VI x, VI y =>
      if y =? 0 then FRaise EZeroDiv
      else match int_truediv x y with Some f => FOk f | None => FRaise EOverflow end
  | _, _ =>
      fbind (as_float a) (fun x => fbind (as_float b) (fun y =>
        if is_fzero y then FRaise EZeroDiv else FOk (fdiv x y)))
  end.

(* r * b, r a float *)
Definition pv_mulf (r : sf) (b : pv) : fres sf :=
  fbind (as_float b) (fun y => FOk (fmul r y)).

(* a + p, p a float *)
Definition pv_addf (a : pv) (p : sf) : fres sf :=
  fbind (as_float a) (fun x => FOk (fadd x p)).

(* z ? f on the exact values (float_richcompare with an int operand); None = unordered *)
Definition zf_compare (z : Z) (f : sf) : option comparison :=
  match f with
  | S754_nan => None
  | S754_infinity s => Some (if s then Gt else Lt)
  | S754_zero _ => Some (z ?= 0)
  | S754_finite s m e =>
      let v := if s then Zneg m else Zpos m in
      match e with
      | Zneg p => Some ((z * 2 ^ (Zpos p)) ?= v)
      | _ => Some (z ?= v * 2 ^ e)
      end
  end.

Definition is_Eq (c : option comparison) : bool :=
  match c with Some Eq => true | _ => false end.

Definition is_Lt (c : option comparison) : bool :=
  match c with Some Lt => true | _ => false end.

Definition pv_eq (a b : pv) : bool :=
  match a, b with
  | VI x, VI y => x =? y
  | VF x, VF y => SFeqb x y
  | VI x, VF y => is_Eq (zf_compare x y)
  | VF x, VI y => is_Eq (zf_compare y x)
  end.

(* a == b on Python scalars (None included) *)
Definition py_eq (a b : fnum) : bool :=
  match of_num a, of_num b with
  | Some x, Some y => pv_eq x y
  | None, None => true
  | _, _ => false
  end.

(* ------------------------------------------------------------------ map *)

Definition fmap (x fl fh tl th : fnum) : fres sf :=
  if py_eq fl fh then FRaise EValue else
  match of_num x, of_num fl with
  | Some vx, Some vfl =>
      fbind (pv_sub vx vfl) (fun n =>
      match of_num fh with
      | None => FRaise EType
      | Some vfh =>
          fbind (pv_sub vfh vfl) (fun d =>
          fbind (pv_div n d) (fun ratio =>
          match of_num th, of_num tl with
          | Some vth, Some vtl =>
              fbind (pv_sub vth vtl) (fun w =>
              fbind (pv_mulf ratio w) (fun p =>
              pv_addf vtl p))
          | _, _ => FRaise EType
          end))
      end)
  | _, _ => FRaise EType
  end.

(* the all-float path, written out: what fmap is on five floats *)
Definition fmap_ff (x fl fh tl th : sf) : fres sf :=
  if SFeqb fl fh then FRaise EValue else
  let n := fsub x fl in
  let d := fsub fh fl in
  if is_fzero d then FRaise EZeroDiv else
  FOk (fadd tl (fmul (fdiv n d) (fsub th tl))).

(* ---------------------------------------------------------------- sleep *)

Definition f1000 : sf := binary_normalize prec emax 1000 0 false.
Definition fzero : sf := S754_zero false.

(* v < 0 *)
Definition pv_ltz (v : pv) : bool :=
  match v with
  | VI z => z <? 0
  | VF f => SFltb f fzero
  end.

(* the seconds passed to the sleeper (one entry per call) and the outcome *)
Definition fsleep (d : fnum) : list sf * fres unit :=
  match of_num d with
  | None => ([], FRaise EType)
  | Some v =>
      if pv_ltz v then ([], FRaise EValue)
      else match as_float v with
           | FRaise e => ([], FRaise e)
           | FOk ms => ([fdiv ms f1000], FOk tt)
           end
  end.

(* --------------------------------------------------- values, for the statements *)

(* well-formed binary64 datum (what the wire decoder accepts) *)
Definition fvalid (f : sf) : bool := valid_binary prec emax f.

Definition fnum_valid (x : fnum) : bool :=
  match x with NF f => fvalid f | _ => true end.

Definition is_ffinite (f : sf) : bool :=
  match f with S754_zero _ | S754_finite _ _ _ => true | _ => false end.
