(* Witness programs for the signature-alias theorems of C02 (definitions only). *)
From Coq Require Import ZArith QArith List Bool.
From RV Require Import Base.Wire Base.Text Lang.PyAst Lang.PySem Lang.Infer Lang.InferGuard Lang.InferComp Lang.Decl Lang.FnSpec.
Import ListNotations.
Open Scope Z_scope.

Definition z_w : ident := [119].
Definition z_y : ident := [121].
Definition z_t : ident := [116].
Definition z_blend : ident := [98;108;101;110;100].
Definition z_L : ident := [76].

(* def blend(a, b): a = a + b ; return a *)
Definition blend_src : fsrc :=
  mk_fsrc [(z_a, None); (z_b, None)] None
    (block_of [SAssign z_a (EBin Add (EName z_a) (EName z_b)); SReturn (Some (EName z_a))]).

(* the tables after  def blend ; blend(x, y) with x, y float  : the (float, float) variant exists *)
Definition blend_after_final_first : option pstate :=
  run_items None [IDef z_blend blend_src;
                  IStmt (SAssign z_x (EFloat (3 # 4))); IStmt (SAssign z_y (EFloat (1 # 4)));
                  IStmt (SAssign z_p (ECall z_blend [EName z_x; EName z_y] []))].

(* def blend(a, b): w = a * 2 ; a = a + b ; return a + w
   x = 0.75 ; y = 0.25 ; p = blend(x, y) ; q = blend(1, y) *)
Definition blendw_src : fsrc :=
  mk_fsrc [(z_a, None); (z_b, None)] None
    (block_of [SAssign z_w (EBin Mult (EName z_a) (EInt 2));
               SAssign z_a (EBin Add (EName z_a) (EName z_b));
               SReturn (Some (EBin Add (EName z_a) (EName z_w)))]).
Definition overwritten_prog : list item :=
  [IDef z_blend blendw_src;
   IStmt (SAssign z_x (EFloat (3 # 4))); IStmt (SAssign z_y (EFloat (1 # 4)));
   IStmt (SAssign z_p (ECall z_blend [EName z_x; EName z_y] []));
   IStmt (SAssign z_q (ECall z_blend [EInt 1; EName z_y] []))].
Definition single_call_prog : list item := firstn 4 overwritten_prog.

(* t = 0.0 ; L = [t * 2 for t in range(4)] ; y = t * 2 *)
Definition shadow_prog : list item :=
  [IStmt (SAssign z_t (EFloat 0));
   IStmt (SAssignR z_L (RComp z_t (EInt 4) (RPlain (EBin Mult (EName z_t) (EInt 2)))));
   IStmt (SAssign z_y (EBin Mult (EName z_t) (EInt 2)))].

Definition demo_comp : rhs := RComp z_t (EInt 3) (RPlain (EBin Add (EBin Mult (EName z_t) (EFloat (1 # 2))) (EName z_x))).
