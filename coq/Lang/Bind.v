(* C08 - call-argument binding.  Model file: definitions only (proofs: Proofs/BindP.v).

   Two binders over the same abstract call shapes:
   - [py_bind]   Python's own binder (inspect.signature(...).bind / the call protocol) for
                 positional-or-keyword and keyword-only parameters with defaults;
   - [redu_bind] what src/Reduino/transpile/parser.py does: every constructor / method /
                 Core helper handler is a fixed pattern of [_extract_call_argument] lookups
                 (hand-written table below, one row per handler, validated exhaustively
                 against the real parser by harness/props/c08.py).

   Argument VALUES are abstract: the i-th positional argument carries the tag [TPos i],
   the keyword argument k carries [TKw k].  A binding says, per parameter, which tag it
   received or which default value it fell back to. *)
From Coq Require Import String Ascii ZArith List Bool Arith.
From RV Require Import Base.Wire Base.Text Lang.Sig Gen.Signatures.
Import ListNotations.
Local Open Scope nat_scope.

(* ------------------------------------------------------------------ names *)
(* hand-written names are typed as Coq strings and converted to code points *)
Definition T (s : string) : text :=
  map (fun a => Z.of_nat (nat_of_ascii a)) (list_ascii_of_string s).

(* ------------------------------------------------------------------ shapes, bindings *)
Record call_shape := mk_shape { npos : nat; kws : list text }.

Inductive tag := TPos (i : nat) | TKw (k : text).
Inductive slot := STag (t : tag) | SDefault (d : dval).
Definition binding := list (text * slot).     (* in signature order *)

(* ------------------------------------------------------------------ Python's binder *)
Definition is_pk (p : param) : bool := match p_kind p with PK => true | KO => false end.
Definition names (sg : signature) : list text := map p_name sg.
Definition pk_names (sg : signature) : list text := map p_name (filter is_pk sg).

Fixpoint has_dup (l : list text) : bool :=
  match l with [] => false | a :: r => tmem a r || has_dup r end.

(* parameters in signature order; [i] counts the positional-or-keyword parameters already
   seen; [n] positional arguments were passed; [mem k] = keyword k was passed *)
Fixpoint bind_params (n : nat) (mem : text -> bool) (sg : signature) (i : nat) : option binding :=
  match sg with
  | [] => Some []
  | p :: r =>
      let s :=
        if is_pk p && (i <? n) then Some (STag (TPos i))
        else if mem (p_name p) then Some (STag (TKw (p_name p)))
        else match p_default p with Some d => Some (SDefault d) | None => None end (* missing *)
      in
      match s, bind_params n mem r (if is_pk p then S i else i) with
      | Some s, Some b => Some ((p_name p, s) :: b)
      | _, _ => None
      end
  end.

(* None = TypeError (or the SyntaxError of a repeated keyword) *)
Definition py_bind (sg : signature) (sh : call_shape) : option binding :=
  let pks := pk_names sg in
  if length pks <? npos sh then None                                              (* too many positionals *)
  else if has_dup (kws sh) then None                                              (* keyword repeated *)
  else if negb (forallb (fun k => tmem k (names sg)) (kws sh)) then None          (* unexpected keyword *)
  else if existsb (fun k => tmem k (firstn (npos sh) pks)) (kws sh) then None     (* multiple values *)
  else bind_params (npos sh) (fun k => tmem k (kws sh)) sg 0.

(* ------------------------------------------------------------------ the parser's lookup *)
(* _extract_call_argument(args_src, *, position=0, keyword=None):
   when a keyword is named ONLY the keywords are searched (first match; the position is
   ignored); otherwise the positional argument at [position], if there is one. *)
Definition extract_arg (sh : call_shape) (position : nat) (keyword : option text) : option tag :=
  match keyword with
  | Some k => if tmem k (kws sh) then Some (TKw k) else None
  | None => if position <? npos sh then Some (TPos position) else None
  end.

Definition orelse {A} (a b : option A) : option A := match a with Some _ => a | None => b end.

(* x = extract(keyword=k1); if x is None: x = extract(keyword=k2); ... *)
Fixpoint try_kws (sh : call_shape) (ks : list text) : option tag :=
  match ks with [] => None | k :: r => orelse (extract_arg sh 0 (Some k)) (try_kws sh r) end.

(* the lookup patterns that occur in the handlers *)
Inductive lookup :=
| LKwPos (ks : list text) (i : nat)        (* keywords ks in turn, then position i *)
| LKw (ks : list text)                      (* keywords only *)
| LPos (i : nat)                            (* position only *)
| LKwPosAfter (ks : list text) (g : text) (i : nat)
    (* Buzzer.play_tone / beep: keywords ks, then position i - but i-1 when the first
       parameter was itself given by keyword g (freq_from_position = False) *)
| LStrict (k : text) (i : nat)              (* Core helpers: _call_argument, both given = error *)
| LWhole                                    (* SerialMonitor.write: the whole argument text is one expression *)
| LSole (k : text)                          (* SerialMonitor.read: one positional, or exactly the keyword k *)
| LNever.                                   (* not read at all (the IR field keeps its dataclass default) *)

Inductive lres := LFound (t : tag) | LMissing | LReject.
Definition of_opt (o : option tag) : lres := match o with Some t => LFound t | None => LMissing end.

Definition run_lookup (sh : call_shape) (l : lookup) : lres :=
  match l with
  | LKwPos ks i => of_opt (orelse (try_kws sh ks) (extract_arg sh i None))
  | LKw ks => of_opt (try_kws sh ks)
  | LPos i => of_opt (extract_arg sh i None)
  | LKwPosAfter ks g i =>
      of_opt (orelse (try_kws sh ks) (extract_arg sh (if tmem g (kws sh) then pred i else i) None))
  | LStrict k i =>
      let hp := i <? npos sh in
      let hk := tmem k (kws sh) in
      if hp && hk then LReject else if hp then LFound (TPos i) else if hk then LFound (TKw k) else LMissing
  | LWhole =>
      match kws sh, npos sh with
      | [], 0 => LMissing
      | [], 1 => LFound (TPos 0)
      | _, _ => LReject        (* "a, b" is a tuple, "k=v" is not an expression *)
      end
  | LSole k =>
      match npos sh, kws sh with
      | 0, [] => LMissing
      | 1, [] => LFound (TPos 0)
      | 0, [k'] => if text_eqb k' k then LFound (TKw k) else LReject
      | _, _ => LReject
      end
  | LNever => LMissing
  end.

(* one IR field of a handler: which parameter it stands for, how it is looked up, whether a
   missing value raises ValueError, and the value the handler falls back to otherwise *)
Record entry := mke { e_param : text; e_look : lookup; e_required : bool; e_default : dval }.

Inductive row :=
| Row (allowed : option (list text)) (es : list entry)
    (* allowed = Some ks: any keyword outside ks raises (_ensure_allowed_keywords) *)
| RowNoArgs
    (* handler pattern is literally `name()`; with arguments the line is not this handler's
       (it is dropped or raises elsewhere) - outside what Python accepts, reported as Rejected *)
| RowSwitch (k : text) (forbidden : list text) (present absent : list entry).
    (* LCD(...): different handler branch when keyword k is present; that branch raises ValueError when one of
       the keywords [forbidden] (or any positional argument: the other branch reads positions as pins) is passed *)

Inductive outcome := Rejected | Bound (b : binding).

Fixpoint run_entries (sh : call_shape) (es : list entry) : outcome :=
  match es with
  | [] => Bound []
  | e :: r =>
      let s :=
        match run_lookup sh (e_look e) with
        | LFound t => Some (STag t)
        | LMissing => if e_required e then None else Some (SDefault (e_default e))
        | LReject => None
        end in
      match s, run_entries sh r with
      | Some s, Bound b => Bound ((e_param e, s) :: b)
      | _, _ => Rejected
      end
  end.

Definition run_row (r : row) (sh : call_shape) : outcome :=
  match r with
  | Row allowed es =>
      match allowed with
      | Some ks => if forallb (fun k => tmem k ks) (kws sh) then run_entries sh es else Rejected
      | None => run_entries sh es
      end
  | RowNoArgs => match npos sh, kws sh with 0, [] => Bound [] | _, _ => Rejected end
  | RowSwitch k forbidden present absent =>
      if tmem k (kws sh)
      then if (0 <? npos sh) || existsb (fun f => tmem f (kws sh)) forbidden then Rejected else run_entries sh present
      else run_entries sh absent
  end.

Definition row_params (r : row) : list text :=
  match r with
  | Row _ es => map e_param es
  | RowNoArgs => []
  | RowSwitch _ _ present _ => map e_param present
  end.

(* ------------------------------------------------------------------ the binding table *)
Definition num (z : Z) : dval := DNum z 1.
Definition str (s : string) : dval := DStr (T s).

(* req: a missing value raises ValueError;  opt: falls back to the given default *)
Definition req (p : string) (l : lookup) : entry := mke (T p) l true DNone.
Definition opt (p : string) (l : lookup) (d : dval) : entry := mke (T p) l false d.
(* the common pattern: keyword named like the parameter, then position i *)
Definition kp (p : string) (i : nat) : lookup := LKwPos [T p] i.
Definition kw (p : string) : lookup := LKw [T p].

(* RGBLed.on: the handler at parser.py "m = RE_RGB_LED_ON.match(line)" looks each colour up by
   keyword first, then by position 0/1/2 (like set_color / fade / blink), and falls back to 255.
   (Before the repair "fix: RGBLed.on() honours red/green/blue passed by keyword" it read the
   positions only - recorded as F-C08-rgb-on-keywords, kind "fixed", in known_findings.d/C08.json;
   harness/props/c08.py replays that witness on every run.) *)
Definition row_rgb_on : row :=
  Row None [opt "red" (kp "red" 0) (num 255); opt "green" (kp "green" 1) (num 255); opt "blue" (kp "blue" 2) (num 255)].

Definition rgb3 : list entry := [req "red" (kp "red" 0); req "green" (kp "green" 1); req "blue" (kp "blue" 2)].
Definition core2 (a b : string) : row :=
  Row (Some [T a; T b]) [req a (LStrict (T a) 0); req b (LStrict (T b) 1)].
Definition core1 (a : string) : row := Row (Some [T a]) [req a (LStrict (T a) 0)].

Definition lcd_parallel : list entry :=
  [req "rs" (kp "rs" 0); req "en" (kp "en" 1); req "d4" (kp "d4" 2); req "d5" (kp "d5" 3);
   req "d6" (kp "d6" 4); req "d7" (kp "d7" 5);
   opt "cols" (kp "cols" 6) (num 16); opt "rows" (kp "rows" 7) (num 2);
   opt "rw" (kw "rw") DNone; opt "backlight_pin" (kw "backlight_pin") DNone;
   opt "i2c_addr" LNever DNone].
(* the I2C branch raises "LCD parallel pins are not supported in I2C mode" when one of these is passed
   (before the repair of F-C08-lcd-i2c-parallel-pins it never read them: LCD(i2c_addr=39, rs=31) was accepted and
   rs dropped) *)
Definition lcd_parallel_pins : list text := [T "rs"; T "en"; T "d4"; T "d5"; T "d6"; T "d7"; T "rw"].
Definition lcd_i2c : list entry :=
  [opt "rs" LNever DNone; opt "en" LNever DNone; opt "d4" LNever DNone; opt "d5" LNever DNone;
   opt "d6" LNever DNone; opt "d7" LNever DNone;
   opt "cols" (kw "cols") (num 16); opt "rows" (kw "rows") (num 2);
   opt "rw" LNever DNone; opt "backlight_pin" (kw "backlight_pin") DNone;
   req "i2c_addr" (kw "i2c_addr")].

(* one row per handler; the entries are the IR fields that carry a parameter, in signature
   order.  Host-signature parameters that have no entry have no device counterpart
   (simulation hooks such as state_provider, serial port/timeout/newline, sensor model). *)
(* [Eval vm_compute]: the stored table is the normal form (plain code points), so the
   extracted model does not depend on Coq strings *)
Definition table : list (text * row) := Eval vm_compute in [
  (* constructors *)
  (T "Led.__init__", Row None [opt "pin" (kp "pin" 0) (num 13)]);
  (T "RGBLed.__init__", Row None [req "red_pin" (kp "red_pin" 0); req "green_pin" (kp "green_pin" 1); req "blue_pin" (kp "blue_pin" 2)]);
  (T "Buzzer.__init__", Row None [opt "pin" (kp "pin" 0) (num 8); opt "default_frequency" (kw "default_frequency") (num 440)]);
  (T "Servo.__init__", Row None [opt "pin" (kp "pin" 0) (num 9); opt "min_angle" (kw "min_angle") (num 0);
                                 opt "max_angle" (kw "max_angle") (num 180); opt "min_pulse_us" (kw "min_pulse_us") (num 544);
                                 opt "max_pulse_us" (kw "max_pulse_us") (num 2400)]);
  (T "DCMotor.__init__", Row None [req "in1" (kp "in1" 0); req "in2" (kp "in2" 1); req "enable" (kp "enable" 2)]);
  (T "LCD.__init__", RowSwitch (T "i2c_addr") lcd_parallel_pins lcd_i2c lcd_parallel);
  (T "Button.__init__", Row None [req "pin" (kp "pin" 0); opt "on_click" (kp "on_click" 1) DNone]);
  (T "Potentiometer.__init__", Row None [req "pin" (kp "pin" 0)]);
  (T "Ultrasonic.__init__", Row None [req "trig" (kp "trig" 0); req "echo" (kp "echo" 1)]);
  (T "SerialMonitor.__init__", Row None [opt "baud_rate" (kp "baud_rate" 0) (num 9600)]);
  (* Led *)
  (T "Led.on", RowNoArgs); (T "Led.off", RowNoArgs); (T "Led.toggle", RowNoArgs);
  (T "Led.get_state", RowNoArgs); (T "Led.get_brightness", RowNoArgs);
  (T "Led.set_brightness", Row None [opt "value" (kp "value" 0) (num 0)]);
  (T "Led.blink", Row None [opt "duration_ms" (kp "duration_ms" 0) (num 0); opt "times" (kp "times" 1) (num 1)]);
  (T "Led.fade_in", Row None [opt "step" (kp "step" 0) (num 5); opt "delay_ms" (kp "delay_ms" 1) (num 10)]);
  (T "Led.fade_out", Row None [opt "step" (kp "step" 0) (num 5); opt "delay_ms" (kp "delay_ms" 1) (num 10)]);
  (T "Led.flash_pattern", Row None [opt "pattern" (kp "pattern" 0) DNone; opt "delay_ms" (kp "delay_ms" 1) (num 200)]);
  (* RGBLed *)
  (T "RGBLed.on", row_rgb_on);
  (T "RGBLed.off", RowNoArgs);
  (T "RGBLed.set_color", Row None rgb3);
  (T "RGBLed.fade", Row None (rgb3 ++ [opt "duration_ms" (kp "duration_ms" 3) (num 1000); opt "steps" (kp "steps" 4) (num 50)]));
  (T "RGBLed.blink", Row None (rgb3 ++ [opt "times" (kp "times" 3) (num 1); opt "delay_ms" (kp "delay_ms" 4) (num 200)]));
  (* Buzzer *)
  (T "Buzzer.play_tone", Row None [req "frequency" (kp "frequency" 0);
                                   opt "duration_ms" (LKwPosAfter [T "duration_ms"] (T "frequency") 1) DNone]);
  (T "Buzzer.stop", RowNoArgs);
  (T "Buzzer.beep", Row None [opt "frequency" (kp "frequency" 0) DNone;
                              opt "on_ms" (LKwPosAfter [T "on_ms"] (T "frequency") 1) (num 100);
                              opt "off_ms" (LKwPosAfter [T "off_ms"] (T "frequency") 2) (num 100);
                              opt "times" (LKwPosAfter [T "times"] (T "frequency") 3) (num 1)]);
  (T "Buzzer.sweep", Row None [req "start_hz" (kp "start_hz" 0); req "end_hz" (kp "end_hz" 1);
                               req "duration_ms" (kp "duration_ms" 2); opt "steps" (kp "steps" 3) (num 10)]);
  (T "Buzzer.melody", Row None [req "name" (kp "name" 0); opt "tempo" (kp "tempo" 1) DNone]);
  (* Servo *)
  (T "Servo.write", Row None [req "angle" (kp "angle" 0)]);
  (T "Servo.write_us", Row None [req "pulse" (LKwPos [T "pulse_us"; T "pulse"] 0)]);
  (T "Servo.read", RowNoArgs); (T "Servo.read_us", RowNoArgs);
  (* DCMotor *)
  (T "DCMotor.set_speed", Row None [req "value" (LKwPos [T "value"; T "speed"] 0)]);
  (T "DCMotor.backward", Row None [opt "speed" (kp "speed" 0) (num 1)]);
  (T "DCMotor.stop", RowNoArgs); (T "DCMotor.coast", RowNoArgs); (T "DCMotor.invert", RowNoArgs);
  (T "DCMotor.ramp", Row None [req "target_speed" (kp "target_speed" 0);
                               req "duration_ms" (LKwPos [T "duration"; T "duration_ms"] 1)]);
  (T "DCMotor.run_for", Row None [req "duration_ms" (LKwPos [T "duration"; T "duration_ms"] 0); req "speed" (kp "speed" 1)]);
  (T "DCMotor.get_speed", RowNoArgs); (T "DCMotor.get_applied_speed", RowNoArgs);
  (T "DCMotor.is_inverted", RowNoArgs); (T "DCMotor.get_mode", RowNoArgs);
  (* LCD *)
  (T "LCD.write", Row None [req "col" (LPos 0); req "row" (LPos 1); req "text" (LPos 2);
                            opt "clear_row" (kw "clear_row") (DBool true); opt "align" (kw "align") (str "left")]);
  (T "LCD.line", Row None [req "row" (LPos 0); req "text" (LPos 1);
                           opt "align" (kw "align") (str "left"); opt "clear_row" (kw "clear_row") (DBool true)]);
  (T "LCD.message", Row None [opt "top" (kp "top" 0) DNone; opt "bottom" (kp "bottom" 1) DNone;
                              opt "top_align" (kw "top_align") (str "left"); opt "bottom_align" (kw "bottom_align") (str "left");
                              opt "clear_rows" (kw "clear_rows") (DBool true)]);
  (T "LCD.clear", RowNoArgs);
  (T "LCD.display", Row None [req "on" (kp "on" 0)]);
  (T "LCD.backlight", Row None [req "on" (kp "on" 0)]);
  (T "LCD.brightness", Row None [req "level" (kp "level" 0)]);
  (T "LCD.glyph", Row None [req "slot" (kp "slot" 0); req "bitmap" (kp "bitmap" 1)]);
  (T "LCD.progress", Row None [req "row" (LPos 0); req "value" (LPos 1); opt "max_value" (kp "max_value" 2) (num 100);
                               opt "width" (kw "width") DNone; opt "style" (kw "style") (str "block");
                               opt "label" (kp "label" 3) DNone]);
  (T "LCD.animate", Row None [req "animation" (LKwPos [T "style"; T "animation"] 0); req "row" (kp "row" 1);
                              req "text" (kp "text" 2); opt "speed_ms" (kp "speed_ms" 3) (num 200);
                              opt "loop" (kw "loop") (DBool false)]);
  (* sensors *)
  (T "Button.is_pressed", RowNoArgs); (T "Potentiometer.read", RowNoArgs); (T "Ultrasonic.measure_distance", RowNoArgs);
  (* serial *)
  (T "SerialMonitor.write", Row None [opt "value" LWhole (str "")]);
  (T "SerialMonitor.read", Row None [opt "emit" (LSole (T "emit")) (str "both")]);
  (* Core helpers *)
  (T "Core.pin_mode", core2 "pin" "mode");
  (T "Core.digital_write", core2 "pin" "value");
  (T "Core.analog_write", core2 "pin" "value");
  (T "Core.digital_read", core1 "pin");
  (T "Core.analog_read", core1 "pin")
].

(* public host methods without any transpiler handler (simulation side only): no IR, no row *)
Definition host_only_methods : list text := Eval vm_compute in [
  T "RGBLed.get_color"; T "RGBLed.get_state"; T "LCD.begin"; T "LCD.dump"; T "LCD.tick";
  T "Button.set_pressed"; T "SerialMonitor.connect"; T "SerialMonitor.close"
].

Definition method := text.
Definition translated_methods : list method := map fst table.

Definition sig_of (m : method) : signature :=
  match tlookup m signatures with Some sg => sg | None => [] end.

Definition redu_bind (m : method) (sh : call_shape) : outcome :=
  match tlookup m table with Some r => run_row r sh | None => Rejected end.

Definition device_params (m : method) : list text :=
  match tlookup m table with Some r => row_params r | None => [] end.

(* Python's binding seen through the IR: only the parameters that have an IR field *)
Definition restrict (ps : list text) (b : binding) : binding :=
  filter (fun ns => tmem (fst ns) ps) b.

(* ------------------------------------------------------------------ guards *)
(* a guard excludes the call shapes on which a row is known to disagree with Python:
   (all, any) forbids shapes that pass every keyword of [all] and at least one of [any] *)
Definition guard := list (list text * list text).

Definition guard_ok (g : guard) (sh : call_shape) : bool :=
  forallb (fun c => negb (forallb (fun k => tmem k (kws sh)) (fst c) && existsb (fun k => tmem k (kws sh)) (snd c))) g.

(* no row carries a guard any more: the last one, LCD(i2c_addr=..., <parallel pin>=...) (the I2C branch never read
   the parallel pins), went with the repair of F-C08-lcd-i2c-parallel-pins - that combination is rejected now *)
Definition guards : list (text * guard) := [].

Definition guard_of (m : method) : guard :=
  match tlookup m guards with Some g => g | None => [] end.

Definition unguarded (m : method) : bool := match guard_of m with [] => true | _ => false end.

(* the methods whose row agrees with Python on every accepted call shape *)
Definition agreeing_methods : list method := filter unguarded translated_methods.

(* ------------------------------------------------------------------ decidable checks *)
Definition tag_eqb (a b : tag) : bool :=
  match a, b with
  | TPos i, TPos j => Nat.eqb i j
  | TKw k, TKw k' => text_eqb k k'
  | _, _ => false
  end.

Definition slot_eqb (a b : slot) : bool :=
  match a, b with
  | STag t, STag t' => tag_eqb t t'
  | SDefault d, SDefault d' => dval_eqb d d'
  | _, _ => false
  end.

Fixpoint binding_eqb (a b : binding) : bool :=
  match a, b with
  | [], [] => true
  | (n, s) :: a', (n', s') :: b' => text_eqb n n' && slot_eqb s s' && binding_eqb a' b'
  | _, _ => false
  end.

(* "rejected, or bound exactly like Python" *)
Definition outcome_ok (o : outcome) (b : binding) : bool :=
  match o with Rejected => true | Bound b' => binding_eqb b' b end.

Fixpoint sublists {A} (l : list A) : list (list A) :=
  match l with
  | [] => [[]]
  | a :: r => let s := sublists r in map (cons a) s ++ s
  end.

(* every (positional count <= arity, keyword subset in signature order) *)
Definition enum_shapes (sg : signature) : list call_shape :=
  flat_map (fun n => map (mk_shape n) (sublists (names sg))) (seq 0 (S (length (pk_names sg)))).

Definition check_shape (m : method) (sh : call_shape) : bool :=
  if guard_ok (guard_of m) sh
  then match py_bind (sig_of m) sh with
       | None => true
       | Some b => outcome_ok (redu_bind m sh) (restrict (device_params m) b)
       end
  else true.

Definition check_method (m : method) : bool :=
  negb (has_dup (names (sig_of m))) && forallb (check_shape m) (enum_shapes (sig_of m)).

(* canonical representative of a shape: same positionals, keywords in signature order *)
Definition canon_shape (sg : signature) (sh : call_shape) : call_shape :=
  mk_shape (npos sh) (filter (fun k => tmem k (kws sh)) (names sg)).
