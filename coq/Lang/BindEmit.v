(* C08, emitter stage - which IR field feeds which C++ argument, and what an omitted field means.
   Model file: definitions only (proofs: Proofs/BindEmitP.v).

   The parser stage (Lang/Bind.v) ends in IR node fields.  The firmware is written by the branch of
   transpile/emitter.py for the node kind: every field that carries a parameter is either written into the
   C++ text (an ARGUMENT of the device call, falsy or not) or, when the branch finds it "absent", replaced by
   the code for an omitted argument (beep: last frequency; play_tone: keep sounding; message: row skipped ...).
   The presence test of every field and the places its value is written to are REGENERATED from the current
   emitter by harness/gen/emitstage.py (coq/Gen/EmitStage.v); this file says what they must be for the
   firmware arguments to be Python's. *)
From Coq Require Import String Ascii ZArith List Bool Arith.
From RV Require Import Base.Wire Base.Text Lang.Sig Gen.Signatures Lang.Bind Lang.EmitTypes Gen.EmitStage.
Import ListNotations.
Local Open Scope Z_scope.

(* ------------------------------------------------------------------ values *)
(* what an IR field can hold: a constant the parser folded (None included) or run-time C expression text *)
Inductive cst := CNum (n d : Z) | CBool (b : bool) | CStr (t : text) | CNone.
Inductive fval := FConst (c : cst) | FExpr (e : text).

(* Python truthiness of a constant *)
Definition falsy (c : cst) : bool :=
  match c with
  | CNum n _ => n =? 0
  | CBool b => negb b
  | CStr t => match t with [] => true | _ => false end
  | CNone => true
  end.

(* what reaches the C++ slot of the field *)
Inductive sarg := AOmitted | AGiven (v : fval).

Definition reach (t : ptest) (v : fval) : sarg :=
  match t with
  | PAlways => AGiven v
  | PNotNone => match v with FConst CNone => AOmitted | _ => AGiven v end
  | PTruthy => match v with FConst c => if falsy c then AOmitted else AGiven v | FExpr _ => AGiven v end
  | PNoneAsZero => match v with FConst CNone => AGiven (FConst (CNum 0 1)) | _ => AGiven v end
  | PUnread => AOmitted
  end.

(* a presence test under which the firmware argument is the bound value *)
Definition test_sound (t : ptest) : bool := match t with PAlways | PNotNone => true | _ => false end.

(* ------------------------------------------------------------------ parameter -> IR node field *)
(* one row per handler (same rows as Bind.table): the IR node kind it builds and the field each device
   parameter is stored in (mirrors ROWS of harness/impl/c08_impl.py; compared with it on every run).
   Kind "expr": the call is an expression / Core helper, its arguments are spliced into C expression text
   by the expression translator (no emitter branch, no presence test). *)
Definition ir_table : list (text * (text * list (text * text))) := Eval vm_compute in [
  (T "Led.__init__", (T "LedDecl", [(T "pin", T "pin")]));
  (T "RGBLed.__init__", (T "RGBLedDecl", [(T "red_pin", T "red_pin"); (T "green_pin", T "green_pin"); (T "blue_pin", T "blue_pin")]));
  (T "Buzzer.__init__", (T "BuzzerDecl", [(T "pin", T "pin"); (T "default_frequency", T "default_frequency")]));
  (T "Servo.__init__", (T "ServoDecl", [(T "pin", T "pin"); (T "min_angle", T "min_angle"); (T "max_angle", T "max_angle"); (T "min_pulse_us", T "min_pulse_us"); (T "max_pulse_us", T "max_pulse_us")]));
  (T "DCMotor.__init__", (T "DCMotorDecl", [(T "in1", T "in1"); (T "in2", T "in2"); (T "enable", T "enable")]));
  (T "LCD.__init__", (T "LCDDecl", [(T "rs", T "rs"); (T "en", T "en"); (T "d4", T "d4"); (T "d5", T "d5"); (T "d6", T "d6"); (T "d7", T "d7"); (T "cols", T "cols"); (T "rows", T "rows"); (T "rw", T "rw"); (T "backlight_pin", T "backlight_pin"); (T "i2c_addr", T "i2c_addr")]));
  (T "Button.__init__", (T "ButtonDecl", [(T "pin", T "pin"); (T "on_click", T "on_click")]));
  (T "Potentiometer.__init__", (T "PotentiometerDecl", [(T "pin", T "pin")]));
  (T "Ultrasonic.__init__", (T "UltrasonicDecl", [(T "trig", T "trig"); (T "echo", T "echo")]));
  (T "SerialMonitor.__init__", (T "SerialMonitorDecl", [(T "baud_rate", T "baud")]));
  (T "Led.on", (T "LedOn", []));
  (T "Led.off", (T "LedOff", []));
  (T "Led.toggle", (T "LedToggle", []));
  (T "Led.get_state", (T "expr", []));
  (T "Led.get_brightness", (T "expr", []));
  (T "Led.set_brightness", (T "LedSetBrightness", [(T "value", T "value")]));
  (T "Led.blink", (T "LedBlink", [(T "duration_ms", T "duration_ms"); (T "times", T "times")]));
  (T "Led.fade_in", (T "LedFadeIn", [(T "step", T "step"); (T "delay_ms", T "delay_ms")]));
  (T "Led.fade_out", (T "LedFadeOut", [(T "step", T "step"); (T "delay_ms", T "delay_ms")]));
  (T "Led.flash_pattern", (T "LedFlashPattern", [(T "pattern", T "pattern"); (T "delay_ms", T "delay_ms")]));
  (T "RGBLed.on", (T "RGBLedOn", [(T "red", T "red"); (T "green", T "green"); (T "blue", T "blue")]));
  (T "RGBLed.off", (T "RGBLedOff", []));
  (T "RGBLed.set_color", (T "RGBLedSetColor", [(T "red", T "red"); (T "green", T "green"); (T "blue", T "blue")]));
  (T "RGBLed.fade", (T "RGBLedFade", [(T "red", T "red"); (T "green", T "green"); (T "blue", T "blue"); (T "duration_ms", T "duration_ms"); (T "steps", T "steps")]));
  (T "RGBLed.blink", (T "RGBLedBlink", [(T "red", T "red"); (T "green", T "green"); (T "blue", T "blue"); (T "times", T "times"); (T "delay_ms", T "delay_ms")]));
  (T "Buzzer.play_tone", (T "BuzzerPlayTone", [(T "frequency", T "frequency"); (T "duration_ms", T "duration_ms")]));
  (T "Buzzer.stop", (T "BuzzerStop", []));
  (T "Buzzer.beep", (T "BuzzerBeep", [(T "frequency", T "frequency"); (T "on_ms", T "on_ms"); (T "off_ms", T "off_ms"); (T "times", T "times")]));
  (T "Buzzer.sweep", (T "BuzzerSweep", [(T "start_hz", T "start_hz"); (T "end_hz", T "end_hz"); (T "duration_ms", T "duration_ms"); (T "steps", T "steps")]));
  (T "Buzzer.melody", (T "BuzzerMelody", [(T "name", T "melody"); (T "tempo", T "tempo")]));
  (T "Servo.write", (T "ServoWrite", [(T "angle", T "angle")]));
  (T "Servo.write_us", (T "ServoWriteMicroseconds", [(T "pulse", T "pulse_us")]));
  (T "Servo.read", (T "expr", []));
  (T "Servo.read_us", (T "expr", []));
  (T "DCMotor.set_speed", (T "DCMotorSetSpeed", [(T "value", T "speed")]));
  (T "DCMotor.backward", (T "DCMotorBackward", [(T "speed", T "speed")]));
  (T "DCMotor.stop", (T "DCMotorStop", []));
  (T "DCMotor.coast", (T "DCMotorCoast", []));
  (T "DCMotor.invert", (T "DCMotorInvert", []));
  (T "DCMotor.ramp", (T "DCMotorRamp", [(T "target_speed", T "target_speed"); (T "duration_ms", T "duration_ms")]));
  (T "DCMotor.run_for", (T "DCMotorRunFor", [(T "duration_ms", T "duration_ms"); (T "speed", T "speed")]));
  (T "DCMotor.get_speed", (T "expr", []));
  (T "DCMotor.get_applied_speed", (T "expr", []));
  (T "DCMotor.is_inverted", (T "expr", []));
  (T "DCMotor.get_mode", (T "expr", []));
  (T "LCD.write", (T "LCDWrite", [(T "col", T "col"); (T "row", T "row"); (T "text", T "text"); (T "clear_row", T "clear_row"); (T "align", T "align")]));
  (T "LCD.line", (T "LCDLine", [(T "row", T "row"); (T "text", T "text"); (T "align", T "align"); (T "clear_row", T "clear_row")]));
  (T "LCD.message", (T "LCDMessage", [(T "top", T "top"); (T "bottom", T "bottom"); (T "top_align", T "top_align"); (T "bottom_align", T "bottom_align"); (T "clear_rows", T "clear_rows")]));
  (T "LCD.clear", (T "LCDClear", []));
  (T "LCD.display", (T "LCDDisplay", [(T "on", T "on")]));
  (T "LCD.backlight", (T "LCDBacklight", [(T "on", T "on")]));
  (T "LCD.brightness", (T "LCDBrightness", [(T "level", T "level")]));
  (T "LCD.glyph", (T "LCDGlyph", [(T "slot", T "slot"); (T "bitmap", T "bitmap")]));
  (T "LCD.progress", (T "LCDProgress", [(T "row", T "row"); (T "value", T "value"); (T "max_value", T "max_value"); (T "width", T "width"); (T "style", T "style"); (T "label", T "label")]));
  (T "LCD.animate", (T "LCDAnimate", [(T "animation", T "animation"); (T "row", T "row"); (T "text", T "text"); (T "speed_ms", T "speed_ms"); (T "loop", T "loop")]));
  (T "Button.is_pressed", (T "expr", []));
  (T "Potentiometer.read", (T "expr", []));
  (T "Ultrasonic.measure_distance", (T "expr", []));
  (T "SerialMonitor.write", (T "SerialWrite", [(T "value", T "value")]));
  (T "SerialMonitor.read", (T "serial_read", [(T "emit", T "emit")]));
  (T "Core.pin_mode", (T "expr", [(T "pin", T "pin"); (T "mode", T "mode")]));
  (T "Core.digital_write", (T "expr", [(T "pin", T "pin"); (T "value", T "value")]));
  (T "Core.analog_write", (T "expr", [(T "pin", T "pin"); (T "value", T "value")]));
  (T "Core.digital_read", (T "expr", [(T "pin", T "pin")]));
  (T "Core.analog_read", (T "expr", [(T "pin", T "pin")]))
].


Definition expr_kinds : list text := Eval vm_compute in [T "expr"; T "serial_read"].
Definition expr_kind (k : text) : bool := tmem k expr_kinds.

Definition ir_kind (m : method) : option text :=
  match tlookup m ir_table with Some (k, _) => Some k | None => None end.
Definition ir_field (m : method) (p : text) : option (text * text) :=
  match tlookup m ir_table with
  | Some (k, fs) => match tlookup p fs with Some f => Some (k, f) | None => None end
  | None => None
  end.

Fixpoint find_field (f : text) (fs : list efield) : option efield :=
  match fs with [] => None | e :: r => if text_eqb f (ef_name e) then Some e else find_field f r end.
Definition field_of (k f : text) : option efield :=
  match tlookup k emit_table with Some fs => find_field f fs | None => None end.

(* ------------------------------------------------------------------ guards *)
(* fields outside the obligation "only None selects the omitted code", each with its reason:
   ButtonDecl.on_click  takes a function NAME (`if node.on_click:`): no falsy constant is a legal value;
   LCDDecl.rs .. d7     `x if x is not None else 0`: None is written as pin 0 - but the parallel branch of the
                        handler requires all six (a missing one raises), and the I2C branch ignores them (the
                        listed finding F-C08-lcd-i2c-parallel-pins);
   LCDDecl.i2c_addr     selects the interface; unread in the parallel configuration the probes use. *)
Definition emit_guard : list (text * text) := Eval vm_compute in [
  (T "ButtonDecl", T "on_click");
  (T "LCDDecl", T "rs"); (T "LCDDecl", T "en"); (T "LCDDecl", T "d4"); (T "LCDDecl", T "d5");
  (T "LCDDecl", T "d6"); (T "LCDDecl", T "d7"); (T "LCDDecl", T "i2c_addr")
].
Definition guarded (k f : text) : bool :=
  existsb (fun kf => text_eqb k (fst kf) && text_eqb f (snd kf)) emit_guard.

(* node kinds whose argument places legitimately depend on which other fields are present:
   LCDDecl - with rw the 7-argument LiquidCrystal constructor is used and every later pin moves one place *)
Definition place_guard : list text := Eval vm_compute in [T "LCDDecl"].

(* ------------------------------------------------------------------ the test of a parameter of a method *)
(* fail closed: a parameter whose field is not in the regenerated table counts as truthiness-tested *)
Definition test_of (m : method) (p : text) : ptest :=
  match ir_field m p with
  | Some (k, f) => if expr_kind k then PAlways
                   else match field_of k f with Some e => ef_test e | None => PTruthy end
  | None => PTruthy
  end.
Definition param_guarded (m : method) (p : text) : bool :=
  match ir_field m p with Some (k, f) => guarded k f | None => false end.

(* ------------------------------------------------------------------ firmware arguments of a bound call *)
Definition cst_of_dval (d : dval) : cst :=
  match d with DNone => CNone | DNum n dn => CNum n dn | DStr t => CStr t | DBool b => CBool b end.

(* the value a binding slot stands for, given the values of the call's arguments *)
Definition value (val : tag -> fval) (s : slot) : fval :=
  match s with STag t => val t | SDefault d => FConst (cst_of_dval d) end.

Definition fw_arg (m : method) (val : tag -> fval) (p : text) (s : slot) : sarg :=
  reach (test_of m p) (value val s).

Definition fw_args (m : method) (val : tag -> fval) (b : binding) : list (text * sarg) :=
  map (fun ps => (fst ps, fw_arg m val (fst ps) (snd ps))) b.

(* the vector the correspondence compares.  A parameter that only qualifies others has no effect when all of
   them are omitted (LCD.message: the alignment of a row that is not written; clear_rows when no row is written);
   an omitted argument whose omitted code is the same as a constant is that constant (LCD.progress: no label
   is the empty label). *)
Definition arg_dependencies : list (text * (text * list text)) := Eval vm_compute in [
  (T "LCD.message", (T "top_align", [T "top"]));
  (T "LCD.message", (T "bottom_align", [T "bottom"]));
  (T "LCD.message", (T "clear_rows", [T "top"; T "bottom"]))
].
Definition omitted_means : list (text * (text * cst)) := Eval vm_compute in [
  (T "LCD.progress", (T "label", CStr []))
].
Definition masters_of (m : method) (p : text) : list text :=
  match filter (fun d => text_eqb m (fst d) && text_eqb p (fst (snd d))) arg_dependencies with
  | d :: _ => snd (snd d)
  | [] => []
  end.
Definition omitted_const (m : method) (p : text) : option cst :=
  match filter (fun d => text_eqb m (fst d) && text_eqb p (fst (snd d))) omitted_means with
  | d :: _ => Some (snd (snd d))
  | [] => None
  end.
Definition is_omitted (a : sarg) : bool := match a with AOmitted => true | AGiven (FConst CNone) => true | _ => false end.
Definition fw_vector (m : method) (val : tag -> fval) (b : binding) : list (text * sarg) :=
  let args := fw_args m val b in
  map (fun pa =>
         let a := match masters_of m (fst pa) with
                  | [] => snd pa
                  | qs => if forallb (fun q => match tlookup q args with Some x => is_omitted x | None => false end) qs
                          then AOmitted else snd pa
                  end in
         (fst pa, if is_omitted a then match omitted_const m (fst pa) with Some c => AGiven (FConst c) | None => a end else a)) args.

(* ------------------------------------------------------------------ decidable checks over the regenerated table *)
Definition tests_ok : bool :=
  forallb (fun kfs => forallb (fun e => guarded (fst kfs) (ef_name e) || test_sound (ef_test e)) (snd kfs)) emit_table.

Definition falsy_default_ok : bool :=
  forallb (fun kfs => forallb (fun e => negb (ef_falsy_def e)) (snd kfs)) emit_table.

Definition subset (a b : list text) : bool := forallb (fun x => tmem x b) a.

(* a field is never written to a place it does not occupy when every nullable field is present *)
Definition places_stable_field (e : efield) : bool :=
  match ef_slots e with [] => true | s0 :: r => forallb (fun s => subset s s0) r end.
Definition places_stable : bool :=
  forallb (fun kfs => tmem (fst kfs) place_guard || forallb places_stable_field (snd kfs)) emit_table.

Definition methods_ok : bool :=
  forallb (fun m => forallb (fun p => param_guarded m p || test_sound (test_of m p)) (device_params m)) translated_methods.

(* the hand table above has the same rows and the same device parameters as Bind.table *)
Definition ir_table_matches : bool :=
  forallb (fun m => match tlookup m ir_table with
                    | Some (_, fs) => subset (device_params m) (map fst fs) && subset (map fst fs) (device_params m)
                    | None => false end) translated_methods
  && subset (map fst ir_table) translated_methods.

(* places (all fields present) per node kind and field *)
Definition place_summary : list (text * list (text * list text)) :=
  map (fun kfs => (fst kfs, map (fun e => (ef_name e, match ef_slots e with [] => [] | s0 :: _ => s0 end)) (snd kfs))) emit_table.
