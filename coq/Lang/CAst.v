(* The C++ expressions that _to_c_expr's [emit] prints, as a syntax tree, and
   [print_c], which reproduces the emitted text character by character.
   Model file: definitions only. *)
From Coq Require Import ZArith QArith List Bool.
From RV Require Import Base.Wire Base.Text Lang.PyAst Lang.PySem.
Import ListNotations.
Open Scope Z_scope.

(* text constants are lists of code points (Coq strings would extract to a type called
   [string], which clashes with the OCaml driver) *)

(* static C types of the fragment.  TFloat stands for float and double alike
   (values are exact rationals); TCharP is a string literal (const char* ). *)
Inductive cty := TInt | TFloat | TBool | TString | TCharP.

Inductive cexpr : Type :=
| CIntLit (z : Z)                              (* str(int(value)) *)
| CBoolLit (b : bool)                          (* true / false *)
| CFloatLit (q : Q)                            (* str(value) of a Python float, see float_text *)
| CStrLit (s : text)                           (* "..." after _escape_string_literal *)
| CVar (x : ident)
| CBin (tok : text) (a b : cexpr)              (* (a tok b) *)
| CUn (tok : text) (a : cexpr)                 (* (tok a) *)
| CAnd (es : list cexpr)                       (* (a && b && c) *)
| COr (es : list cexpr)                        (* (a || b || c) *)
| CCmp (first : cexpr) (links : list (text * cexpr))
                                               (* (first t1 r1 && r1 t2 r2 && ...): every middle operand is printed twice *)
| CCond (c a b : cexpr)                        (* (c ? a : b) *)
| CCast (ty : cty) (e : cexpr)                 (* static_cast<ty>(e) *)
| CCall (f : text) (args : list cexpr)         (* f(a, b): abs / min / max are the Arduino macros,
                                                  __redu_floordiv / __redu_mod the emitter's helper templates *)
| CString (e : cexpr)                          (* String(e) *)
| CToNum (fl wrap : bool) (e : cexpr)          (* wrap: String(e).toInt() else (e).toInt(); fl: toFloat *)
| CLen (e : cexpr)                             (* static_cast<int>(__redu_len(e)) *)
| CRead (analog : bool) (raw : option text) (e : cexpr).
                                               (* analogRead(raw) / digitalRead(raw); raw = None: the printed e *)

Definition t_abs : text := [97;98;115].
Definition t_min : text := [109;105;110].
Definition t_max : text := [109;97;120].
Definition t_plus : text := [43].
(* the helper templates the emitter adds for Python's // and % (emitter.FLOORDIV_HELPER_SNIPPET, MOD_HELPER_SNIPPET) *)
Definition t_floordiv : text := [95;95;114;101;100;117;95;102;108;111;111;114;100;105;118].   (* __redu_floordiv *)
Definition t_mod : text := [95;95;114;101;100;117;95;109;111;100].                               (* __redu_mod *)

(* ---- printing ---- *)
Definition cat (l : list text) : text := List.concat l.

Fixpoint sep_by (s : text) (l : list text) : text :=
  match l with [] => [] | [x] => x | x :: r => x ++ s ++ sep_by s r end.

(* _escape_string_literal (as repaired by "fix: escape control characters in string literals"; the same function as
   Lang/Escape.v of C06, which proves the round trip through the C++ lexer): backslash and double quote get a backslash,
   LF / CR / TAB become the letter escapes n r t, every other code point below 0x20 and DEL three octal digits *)
Definition esc_char (c : Z) : text :=
  if c =? 92 then [92; 92] else if c =? 34 then [92; 34]
  else if c =? 10 then [92; 110] else if c =? 13 then [92; 114] else if c =? 9 then [92; 116]
  else if ((0 <=? c) && (c <? 32)) || (c =? 127) then [92; 48 + c / 64; 48 + (c / 8) mod 8; 48 + c mod 8]
  else [c].
Definition escape (s : text) : text := flat_map esc_char s.
Definition quote (s : text) : text := 34 :: escape s ++ [34].

(* str(x) of a Python float x, for the values where repr is the plain positional
   decimal expansion: x = n / 2^k exactly, with few enough digits (float_simple). *)
Fixpoint pow2_exp (d : positive) : option nat :=
  match d with xH => Some O | xO p => option_map S (pow2_exp p) | xI _ => None end.
Definition lpad (n : nat) (t : text) : text :=
  repeat 48 (n - length t)%nat ++ t.
Definition float_simple (q : Q) : bool :=
  let r := Qred q in
  match pow2_exp (Qden r) with
  | Some k => (Z.of_nat (length (z_digits (Z.abs (Qnum r) / Zpos (Qden r)))) + Z.of_nat k <=? 15) && (Z.of_nat k <=? 13)
  | None => false
  end.
Definition float_text (q : Q) : text :=
  let r := Qred q in
  let n := Z.abs (Qnum r) in let d := Zpos (Qden r) in
  let k := match pow2_exp (Qden r) with Some k => k | None => O end in
  (if Qnum r <? 0 then [45] else []) ++ z_digits (n / d) ++ [46] ++
  (match k with O => [48] | _ => lpad k (z_digits ((n mod d) * 5 ^ Z.of_nat k)) end).

Definition cty_text (t : cty) : text :=
  match t with TInt => [105;110;116] | TFloat => [102;108;111;97;116] | TBool => [98;111;111;108] | TString => [83;116;114;105;110;103] | TCharP => [99;111;110;115;116;32;99;104;97;114;42] end.

Fixpoint print_c (c : cexpr) : text :=
  match c with
  | CIntLit z => z_digits z
  | CBoolLit b => if b then [116;114;117;101] else [102;97;108;115;101]
  | CFloatLit q => float_text q
  | CStrLit s => quote s
  | CVar x => x
  | CBin tok a b => cat [[40]; print_c a; [32]; tok; [32]; print_c b; [41]]
  | CUn tok a => cat [[40]; tok; print_c a; [41]]
  | CAnd es => cat [[40]; sep_by ([32;38;38;32]) (map print_c es); [41]]
  | COr es => cat [[40]; sep_by ([32;124;124;32]) (map print_c es); [41]]
  | CCmp first links =>
      let fix go (left : text) (l : list (text * cexpr)) : list text :=
        match l with
        | [] => []
        | (tok, r) :: rest => let rt := print_c r in cat [left; [32]; tok; [32]; rt] :: go rt rest
        end in
      cat [[40]; sep_by ([32;38;38;32]) (go (print_c first) links); [41]]
  | CCond c a b => cat [[40]; print_c c; [32;63;32]; print_c a; [32;58;32]; print_c b; [41]]
  | CCast ty e => cat [[115;116;97;116;105;99;95;99;97;115;116;60]; cty_text ty; [62;40]; print_c e; [41]]
  | CCall f args => cat [f; [40]; sep_by ([44;32]) (map print_c args); [41]]
  | CString e => cat [[83;116;114;105;110;103;40]; print_c e; [41]]
  | CToNum fl wrap e =>
      cat [if wrap then [83;116;114;105;110;103;40] else [40]; print_c e; [41;46]; if fl then [116;111;70;108;111;97;116;40;41] else [116;111;73;110;116;40;41]]
  | CLen e => cat [[115;116;97;116;105;99;95;99;97;115;116;60;105;110;116;62;40;95;95;114;101;100;117;95;108;101;110;40]; print_c e; [41;41]]
  | CRead an raw e =>
      cat [if an then [97;110;97;108;111;103;82;101;97;100;40] else [100;105;103;105;116;97;108;82;101;97;100;40]; match raw with Some t => t | None => print_c e end; [41]]
  end.
