(* Evaluation of the emitted C++ expressions (coq/Lang/CAst.v) on typed values.

   What is modelled, and how:
   - [int] is a mathematical integer with an explicit range check [fits] after every
     operation that produces an int: 32 bit, as for the g++ build against the mock core.
     (On an AVR [int] has 16 bits; that width is not modelled.)  A result outside the
     range is [CUndef] (signed overflow is undefined behaviour).
   - [float]/[double] are exact rationals (no binary rounding), normalised by [Qred].
   - usual arithmetic conversions: bool promotes to int, int op float is float;
     int / int truncates towards zero, % has the sign of the dividend; shifts are those
     g++ computes (arithmetic >>, << as multiplication) for counts 0..31.
   - __redu_floordiv(a, b) / __redu_mod(a, b) are the helper templates of emitter.py: result type
     decltype(a / b); on integers the truncated quotient / remainder corrected as the C++ text does
     ([c_floordiv], [c_mod]); on float/double CPython's fmod-based algorithm, which on exact rationals is
     floor(a / b) and a - b * floor(a / b); a zero divisor is undefined behaviour.  Their arguments are
     function arguments: g++ evaluates the SECOND one first (observable only when both read inputs).
   - comparisons yield bool; && || ! work on operands converted to bool, left to right,
     short-circuit; operands of the other binary operators are evaluated left to right
     (what g++ -O0 does; the standard leaves the order unspecified).
   - c ? a : b has the common type of a and b, computed statically by [ctype].
   - abs, min, max are the Arduino macros: ((x)>0?(x):-(x)), ((a)<(b)?(a):(b)),
     ((a)>(b)?(a):(b)): an argument is evaluated twice.
   - String(int) decimal, String(bool) "1"/"0", String(float) two decimals (rounded half-up
     in magnitude on the exact value), String + String / literal concatenation.
   - digitalRead/analogRead consume scripted inputs, so double evaluation is observable.
   - [CStuck]: the expression is ill-typed or uses a token C++ does not have (it does not
     compile).  [CUndef]: undefined, unspecified or unmodelled run-time behaviour.
   Model file: definitions only. *)
From Coq Require Import ZArith QArith Qround Qabs List Bool.
From RV Require Import Base.Wire Base.Text Lang.PyAst Lang.PySem Lang.CAst.
Import ListNotations.
Open Scope Z_scope.

Inductive cval : Type :=
| CInt (z : Z) | CFloat (q : Q) | CBool (b : bool)
| CStr (s : text)        (* an Arduino String object *)
| CLit (s : text).       (* a string literal, const char* *)

Inductive cres (A : Type) : Type := COk (a : A) | CStuck | CUndef.
Arguments COk {A} a. Arguments CStuck {A}. Arguments CUndef {A}.

Definition cbind {A B} (r : cres A) (f : A -> cres B) : cres B :=
  match r with COk a => f a | CStuck => CStuck | CUndef => CUndef end.
Definition of_opt {A} (o : option A) : cres A := match o with Some a => COk a | None => CStuck end.

Definition tag_of (w : cval) : cty :=
  match w with CInt _ => TInt | CFloat _ => TFloat | CBool _ => TBool | CStr _ => TString | CLit _ => TCharP end.

(* ---- numbers ---- *)
Definition fits (z : Z) : bool := (-2147483648 <=? z) && (z <=? 2147483647).
Definition b01 (b : bool) : Z := if b then 1 else 0.
Definition as_int (w : cval) : option Z :=
  match w with CInt z => Some z | CBool b => Some (b01 b) | _ => None end.
Definition as_q (w : cval) : option Q :=
  match w with CInt z => Some (inject_Z z) | CBool b => Some (inject_Z (b01 b)) | CFloat q => Some q | _ => None end.
Definition as_text (w : cval) : option text :=
  match w with CStr s | CLit s => Some s | _ => None end.
Definition mkint (z : Z) : cres cval := if fits z then COk (CInt z) else CUndef.
Definition mkfloat (q : Q) : cres cval := COk (CFloat (Qred q)).

Definition is_intty (t : cty) : bool := match t with TInt | TBool => true | _ => false end.
Definition is_numty (t : cty) : bool := match t with TInt | TBool | TFloat => true | _ => false end.
Definition is_strty (t : cty) : bool := match t with TString | TCharP => true | _ => false end.
Definition is_charp (t : cty) : bool := match t with TCharP => true | _ => false end.

(* ---- operator tokens ---- *)
Inductive cbop := KAdd | KSub | KMul | KDiv | KMod | KBand | KBor | KBxor | KShl | KShr.
Inductive cuop := KPos | KNeg | KNot.

Definition bintok (t : text) : option cbop :=
  if text_eqb t [43] then Some KAdd else if text_eqb t [45] then Some KSub
  else if text_eqb t [42] then Some KMul else if text_eqb t [47] then Some KDiv
  else if text_eqb t [37] then Some KMod else if text_eqb t [38] then Some KBand
  else if text_eqb t [124] then Some KBor else if text_eqb t [94] then Some KBxor
  else if text_eqb t [60;60] then Some KShl else if text_eqb t [62;62] then Some KShr
  else None.                                   (* e.g. "**": not a C++ operator *)
Definition untok (t : text) : option cuop :=
  if text_eqb t [43] then Some KPos else if text_eqb t [45] then Some KNeg
  else if text_eqb t [33] then Some KNot else None.
Definition cmptok (t : text) : option cmpop :=
  if text_eqb t [61;61] then Some PyAst.Eq else if text_eqb t [33;61] then Some NotEq
  else if text_eqb t [60] then Some PyAst.Lt else if text_eqb t [60;61] then Some LtE
  else if text_eqb t [62] then Some PyAst.Gt else if text_eqb t [62;61] then Some GtE
  else None.

(* ---- binary operators: result type first, then the value in that type ---- *)
Definition arith_ty (ta tb : cty) : option cty :=
  if is_numty ta && is_numty tb then Some (if is_intty ta && is_intty tb then TInt else TFloat) else None.

Definition ctype_bin (k : cbop) (ta tb : cty) : option cty :=
  match k with
  | KAdd =>
      match arith_ty ta tb with
      | Some t => Some t
      | None =>
          match ta, tb with
          | TString, TString | TString, TCharP | TCharP, TString => Some TString
          | _, _ => None            (* literal + literal: pointer + pointer; String + number: not modelled *)
          end
      end
  | KSub | KMul | KDiv => arith_ty ta tb
  | KMod | KBand | KBor | KBxor | KShl | KShr => if is_intty ta && is_intty tb then Some TInt else None
  end.

Definition int_op (k : cbop) (x y : Z) : cres cval :=
  match k with
  | KAdd => mkint (x + y) | KSub => mkint (x - y) | KMul => mkint (x * y)
  | KDiv => if y =? 0 then CUndef else mkint (Z.quot x y)
  | KMod => if y =? 0 then CUndef else mkint (Z.rem x y)
  | KBand => mkint (Z.land x y) | KBor => mkint (Z.lor x y) | KBxor => mkint (Z.lxor x y)
  | KShl => if (0 <=? y) && (y <? 32) then mkint (Z.shiftl x y) else CUndef
  | KShr => if (0 <=? y) && (y <? 32) then mkint (Z.shiftr x y) else CUndef
  end.

Definition float_op (k : cbop) (p q : Q) : cres cval :=
  match k with
  | KAdd => mkfloat (p + q) | KSub => mkfloat (p - q) | KMul => mkfloat (p * q)
  | KDiv => if q_is_zero q then CUndef (* inf/nan: outside the model *) else mkfloat (p / q)
  | _ => CStuck
  end.

Definition csem_bin_k (k : cbop) (a b : cval) : cres cval :=
  match ctype_bin k (tag_of a) (tag_of b) with
  | Some TInt => match as_int a, as_int b with Some x, Some y => int_op k x y | _, _ => CStuck end
  | Some TFloat => match as_q a, as_q b with Some p, Some q => float_op k p q | _, _ => CStuck end
  | Some TString => match as_text a, as_text b with Some s, Some t => COk (CStr (s ++ t)) | _, _ => CStuck end
  | _ => CStuck
  end.

Definition csem_bin (tok : text) (a b : cval) : cres cval :=
  match bintok tok with Some k => csem_bin_k k a b | None => CStuck end.

(* ---- the helper templates __redu_floordiv / __redu_mod (md = true: __redu_mod) ---- *)
Definition helper_name (f : text) : option bool :=
  if text_eqb f t_floordiv then Some false else if text_eqb f t_mod then Some true else None.

(* template <typename T> T __redu_floordiv_impl(T a, T b):
     T q = a / b;  return ((a % b != 0) && ((a < 0) != (b < 0))) ? q - 1 : q; *)
Definition c_floordiv (x y : Z) : Z :=
  let q := Z.quot x y in
  if negb (Z.rem x y =? 0) && negb (Bool.eqb (x <? 0) (y <? 0)) then q - 1 else q.
(* template <typename T> T __redu_mod_impl(T a, T b):
     T m = a % b;  return ((m != 0) && ((m < 0) != (b < 0))) ? m + b : m; *)
Definition c_mod (x y : Z) : Z :=
  let m := Z.rem x y in
  if negb (m =? 0) && negb (Bool.eqb (m <? 0) (y <? 0)) then m + y else m.

Definition csem_helper (md : bool) (a b : cval) : cres cval :=
  match arith_ty (tag_of a) (tag_of b) with             (* decltype(a / b) *)
  | Some TInt =>
      match as_int a, as_int b with
      | Some x, Some y => if y =? 0 then CUndef else mkint (if md then c_mod x y else c_floordiv x y)
      | _, _ => CStuck
      end
  | Some TFloat =>
      match as_q a, as_q b with
      | Some p, Some q => if q_is_zero q then CUndef else mkfloat (if md then qmod p q else qfloor_div p q)
      | _, _ => CStuck
      end
  | _ => CStuck                                         (* no operator/ for these operands: no matching function *)
  end.

(* ---- unary operators ---- *)
Definition ctype_un (k : cuop) (t : cty) : option cty :=
  match k with
  | KPos | KNeg => if is_intty t then Some TInt else if is_numty t then Some TFloat else None
  | KNot => match t with TString => None | _ => Some TBool end
  end.

Definition truth (w : cval) : cres bool :=
  match w with
  | CInt z => COk (negb (z =? 0)) | CFloat q => COk (negb (q_is_zero q)) | CBool b => COk b
  | CLit _ => COk true          (* a non-null pointer *)
  | CStr _ => CStuck            (* the mock String has no conversion to bool *)
  end.
Definition truthable (t : cty) : bool := match t with TString => false | _ => true end.

Definition csem_un_k (k : cuop) (a : cval) : cres cval :=
  match k with
  | KPos => match a with CFloat q => mkfloat q | _ => match as_int a with Some z => mkint z | None => CStuck end end
  | KNeg => match a with CFloat q => mkfloat (- q) | _ => match as_int a with Some z => mkint (- z) | None => CStuck end end
  | KNot => cbind (truth a) (fun b => COk (CBool (negb b)))
  end.
Definition csem_un (tok : text) (a : cval) : cres cval :=
  match untok tok with Some k => csem_un_k k a | None => CStuck end.

(* ---- comparisons ---- *)
Definition cmp_ok (ta tb : cty) : bool :=
  (is_numty ta && is_numty tb) || (is_strty ta && is_strty tb).
Definition ccmp (op : cmpop) (a b : cval) : cres bool :=
  match as_q a, as_q b with
  | Some p, Some q => COk (cmp_of op (Qcompare p q))
  | _, _ =>
      match a, b with
      | CStr s, CStr t | CStr s, CLit t | CLit s, CStr t => COk (cmp_of op (text_cmp s t))
      | CLit _, CLit _ => CUndef          (* comparison of two pointers *)
      | _, _ => CStuck
      end
  end.

(* ---- conversions ---- *)
Definition common_ty (ta tb : cty) : option cty :=
  match ta, tb with
  | TBool, TBool => Some TBool
  | TCharP, TCharP => Some TCharP
  | _, _ =>
      if is_numty ta && is_numty tb then Some (if is_intty ta && is_intty tb then TInt else TFloat)
      else if is_strty ta && is_strty tb then Some TString
      else None
  end.

Definition convert (t : cty) (w : cval) : cres cval :=
  match t with
  | TInt => match as_int w with Some z => COk (CInt z) | None => CStuck end
  | TFloat => match as_q w with Some q => COk (CFloat (Qred q)) | None => CStuck end
  | TBool => match w with CBool b => COk w | _ => CStuck end
  | TString => match as_text w with Some s => COk (CStr s) | None => CStuck end
  | TCharP => match w with CLit _ => COk w | _ => CStuck end
  end.

Definition castable (from to : cty) : bool :=
  match to with
  | TInt | TFloat => is_numty from
  | TBool => truthable from
  | _ => false
  end.
Definition cast (t : cty) (w : cval) : cres cval :=
  match t with
  | TInt => match w with
            | CFloat q => mkint (qtrunc q)
            | _ => match as_int w with Some z => COk (CInt z) | None => CStuck end
            end
  | TFloat => match as_q w with Some q => COk (CFloat (Qred q)) | None => CStuck end
  | TBool => cbind (truth w) (fun b => COk (CBool b))
  | _ => CStuck
  end.

(* ---- strings ---- *)
(* two decimals, rounded half-up in magnitude on the exact value *)
Definition fmt2 (q : Q) : text :=
  let a := Qabs q in
  let scaled := Qfloor (a * inject_Z 100 + (1 # 2)) in
  (if Qnum q <? 0 then [45] else []) ++ z_digits (scaled / 100) ++ [46] ++ lpad 2 (z_digits (scaled mod 100)).

Definition string_of (w : cval) : text :=
  match w with
  | CInt z => z_digits z
  | CBool b => if b then [49] else [48]
  | CFloat q => fmt2 q
  | CStr s | CLit s => s
  end.

(* strlen of the UTF-8 encoding *)
Definition utf8_width (c : Z) : Z := if c <? 128 then 1 else if c <? 2048 then 2 else if c <? 65536 then 3 else 4.
Definition utf8_len (s : text) : Z := fold_right (fun c n => utf8_width c + n) 0 s.

(* atol: blanks, optional sign, digits up to the first other character *)
Definition is_digit (c : Z) : bool := (48 <=? c) && (c <=? 57).
Fixpoint atol_digits (acc : Z) (s : text) : Z :=
  match s with
  | c :: r => if is_digit c then atol_digits (acc * 10 + (c - 48)) r else acc
  | [] => acc
  end.
Definition c_atol (s : text) : Z :=
  match lstrip s with
  | 45 :: d => - atol_digits 0 d
  | 43 :: d => atol_digits 0 d
  | d => atol_digits 0 d
  end.

(* a literal may not contain a raw line break (the emitter does not escape it) *)
Definition lit_ok (s : text) : bool := forallb (fun c => negb ((c =? 10) || (c =? 13))) s.

(* ---- scripted inputs ---- *)
Definition inputs := list ((bool * Z) * list Z).        (* (analog?, pin) -> successive readings, the last repeats *)
Fixpoint read_in (an : bool) (p : Z) (ins : inputs) : Z * inputs :=
  match ins with
  | [] => (0, [])
  | ((an', p'), l) :: r =>
      if Bool.eqb an an' && (p =? p') then
        match l with
        | [] => (0, ins)
        | [x] => (x, ins)
        | x :: l' => (x, ((an', p'), l') :: r)
        end
      else let '(v, r') := read_in an p r in (v, ((an', p'), l) :: r')
  end.
(* pin spelled in the sketch: decimal digits, or A0..A7 (14..21 on the mock) *)
Definition pin_num (t : text) : option Z :=
  match t with
  | 65 :: (_ :: _) as d => match digits_val 0 d with Some k => if k <=? 7 then Some (14 + k) else None | None => None end
  | _ :: _ => digits_val 0 t
  | [] => None
  end.

(* ---- static types ---- *)
Definition tenv := list (ident * cty).


Fixpoint ctype (G : tenv) (c : cexpr) : option cty :=
  match c with
  | CIntLit z => if fits z then Some TInt else None      (* wider literals are long: not modelled *)
  | CBoolLit _ => Some TBool
  | CFloatLit _ => Some TFloat
  | CStrLit s => if lit_ok s then Some TCharP else None
  | CVar x => tlookup x G
  | CBin tok a b =>
      match bintok tok, ctype G a, ctype G b with
      | Some k, Some ta, Some tb => ctype_bin k ta tb
      | _, _, _ => None
      end
  | CUn tok a =>
      match untok tok, ctype G a with Some k, Some ta => ctype_un k ta | _, _ => None end
  | CAnd es | COr es =>
      match es with
      | [] => None
      | _ => if forallb (fun e => match ctype G e with Some t => truthable t | None => false end) es
             then Some TBool else None
      end
  | CCmp first links =>
      let fix go (tl : option cty) (l : list (text * cexpr)) : bool :=
        match l with
        | [] => true
        | (tok, r) :: rest =>
            match cmptok tok, tl, ctype G r with
            | Some _, Some ta, Some tb => cmp_ok ta tb && go (Some tb) rest
            | _, _, _ => false
            end
        end in
      match links with [] => None | _ => if go (ctype G first) links then Some TBool else None end
  | CCond c a b =>
      match ctype G c, ctype G a, ctype G b with
      | Some tc, Some ta, Some tb => if truthable tc then common_ty ta tb else None
      | _, _, _ => None
      end
  | CCast ty e =>
      match ctype G e with Some te => if castable te ty then Some ty else None | None => None end
  | CCall f args =>
      match args with
      | [x] =>
          if text_eqb f t_abs then
            match ctype G x with
            | Some tx => if is_numty tx then match ctype_un KNeg tx with Some tn => common_ty tx tn | None => None end else None
            | None => None
            end
          else None
      | [a; b] =>
          if text_eqb f t_min || text_eqb f t_max then
            match ctype G a, ctype G b with
            | Some ta, Some tb => if cmp_ok ta tb then common_ty ta tb else None
            | _, _ => None
            end
          else
            match helper_name f, ctype G a, ctype G b with
            | Some _, Some ta, Some tb => arith_ty ta tb
            | _, _, _ => None
            end
      | _ => None
      end
  | CString e => match ctype G e with Some _ => Some TString | None => None end
  | CToNum fl wrap e =>
      match ctype G e with
      | Some te => if (if wrap then is_strty te else match te with TString => true | _ => false end)
                   then Some (if fl then TFloat else TInt) else None
      | None => None
      end
  | CLen e => match ctype G e with Some te => if is_strty te then Some TInt else None | None => None end
  | CRead _ raw e =>
      match raw with
      | Some _ => Some TInt
      | None => match ctype G e with Some te => if is_intty te then Some TInt else None | None => None end
      end
  end.

(* ---- evaluation ---- *)
Definition cenv := list (ident * cval).
Definition ev := inputs -> cres (cval * inputs).

(* c ? a : b given evaluators for the three parts and the static types of a and b *)
Definition eval_cond (ec : inputs -> cres (bool * inputs)) (ea eb : ev) (ta tb : option cty) : ev :=
  fun ins =>
  match ta, tb with
  | Some ta, Some tb =>
      match common_ty ta tb with
      | Some ty =>
          cbind (ec ins) (fun '(t, i1) =>
          cbind (if t then ea i1 else eb i1) (fun '(w, i2) =>
          cbind (convert ty w) (fun w' => COk (w', i2))))
      | None => CStuck
      end
  | _, _ => CStuck
  end.

Definition eval_cmp2 (op : cmpop) (ea eb : ev) : inputs -> cres (bool * inputs) :=
  fun ins =>
  cbind (ea ins) (fun '(wa, i1) =>
  cbind (eb i1) (fun '(wb, i2) =>
  cbind (ccmp op wa wb) (fun t => COk (t, i2)))).

Section Lists.
  Variable rec : cexpr -> ev.

  Fixpoint eval_and (l : list cexpr) (ins : inputs) : cres (cval * inputs) :=
    match l with
    | [] => COk (CBool true, ins)
    | x :: r =>
        cbind (rec x ins) (fun '(w, i1) =>
        cbind (truth w) (fun t => if t then eval_and r i1 else COk (CBool false, i1)))
    end.

  Fixpoint eval_or (l : list cexpr) (ins : inputs) : cres (cval * inputs) :=
    match l with
    | [] => COk (CBool false, ins)
    | x :: r =>
        cbind (rec x ins) (fun '(w, i1) =>
        cbind (truth w) (fun t => if t then COk (CBool true, i1) else eval_or r i1))
    end.

  (* (l t1 r1 && r1 t2 r2 && ...): [el] evaluates the current left operand *)
  Fixpoint eval_chain (el : ev) (links : list (text * cexpr)) (ins : inputs) : cres (cval * inputs) :=
    match links with
    | [] => COk (CBool true, ins)
    | (tok, r) :: rest =>
        match cmptok tok with
        | None => CStuck
        | Some op =>
            cbind (eval_cmp2 op el (rec r) ins) (fun '(t, i1) =>
            if t then eval_chain (rec r) rest i1 else COk (CBool false, i1))
        end
    end.
End Lists.

Fixpoint ceval (G : tenv) (s : cenv) (c : cexpr) (ins : inputs) {struct c} : cres (cval * inputs) :=
  match c with
  | CIntLit z => cbind (mkint z) (fun w => COk (w, ins))
  | CBoolLit b => COk (CBool b, ins)
  | CFloatLit q => COk (CFloat (Qred q), ins)
  | CStrLit t => if lit_ok t then COk (CLit t, ins) else CStuck
  | CVar x => match tlookup x s with Some w => COk (w, ins) | None => CStuck end
  | CBin tok a b =>
      match bintok tok with
      | None => CStuck
      | Some k =>
          cbind (ceval G s a ins) (fun '(wa, i1) =>
          cbind (ceval G s b i1) (fun '(wb, i2) =>
          cbind (csem_bin_k k wa wb) (fun w => COk (w, i2))))
      end
  | CUn tok a =>
      match untok tok with
      | None => CStuck
      | Some k => cbind (ceval G s a ins) (fun '(wa, i1) => cbind (csem_un_k k wa) (fun w => COk (w, i1)))
      end
  | CAnd es => match es with [] => CStuck | _ => eval_and (ceval G s) es ins end
  | COr es => match es with [] => CStuck | _ => eval_or (ceval G s) es ins end
  | CCmp first links =>
      match links with [] => CStuck | _ => eval_chain (ceval G s) (ceval G s first) links ins end
  | CCond c a b =>
      eval_cond (fun i => cbind (ceval G s c i) (fun '(wc, i1) => cbind (truth wc) (fun t => COk (t, i1))))
                (ceval G s a) (ceval G s b) (ctype G a) (ctype G b) ins
  | CCast ty e => cbind (ceval G s e ins) (fun '(w, i1) => cbind (cast ty w) (fun w' => COk (w', i1)))
  | CCall f args =>
      match args with
      | [x] =>
          if text_eqb f t_abs then           (* ((x) > 0 ? (x) : -(x)) *)
            let tx := ctype G x in
            eval_cond (eval_cmp2 PyAst.Gt (ceval G s x) (fun i => COk (CInt 0, i)))
                      (ceval G s x)
                      (fun i => cbind (ceval G s x i) (fun '(w, i1) => cbind (csem_un_k KNeg w) (fun w' => COk (w', i1))))
                      tx (match tx with Some t => ctype_un KNeg t | None => None end) ins
          else CUndef                        (* a function the model does not know *)
      | [a; b] =>
          if text_eqb f t_min then           (* ((a) < (b) ? (a) : (b)) *)
            eval_cond (eval_cmp2 PyAst.Lt (ceval G s a) (ceval G s b)) (ceval G s a) (ceval G s b) (ctype G a) (ctype G b) ins
          else if text_eqb f t_max then      (* ((a) > (b) ? (a) : (b)) *)
            eval_cond (eval_cmp2 PyAst.Gt (ceval G s a) (ceval G s b)) (ceval G s a) (ceval G s b) (ctype G a) (ctype G b) ins
          else
            match helper_name f with
            | Some md =>                     (* a function call: g++ evaluates the last argument first *)
                cbind (ceval G s b ins) (fun '(wb, i1) =>
                cbind (ceval G s a i1) (fun '(wa, i2) =>
                cbind (csem_helper md wa wb) (fun w => COk (w, i2))))
            | None => CUndef
            end
      | _ => CUndef
      end
  | CString e => cbind (ceval G s e ins) (fun '(w, i1) => COk (CStr (string_of w), i1))
  | CToNum fl wrap e =>
      cbind (ceval G s e ins) (fun '(w, i1) =>
      match (if wrap then as_text w else match w with CStr t => Some t | _ => None end) with
      | Some t => if fl then CUndef (* atof: not modelled *) else cbind (mkint (c_atol t)) (fun w' => COk (w', i1))
      | None => CStuck
      end)
  | CLen e =>
      cbind (ceval G s e ins) (fun '(w, i1) =>
      match as_text w with Some t => cbind (mkint (utf8_len t)) (fun w' => COk (w', i1)) | None => CStuck end)
  | CRead an raw e =>
      cbind (match raw with
             | Some t => match pin_num t with Some p => COk (p, ins) | None => CUndef end
             | None => cbind (ceval G s e ins) (fun '(w, i1) => match as_int w with Some p => COk (p, i1) | None => CStuck end)
             end) (fun '(p, i1) =>
      let '(v, i2) := read_in an p i1 in
      COk (CInt (if an then v else if v =? 0 then 0 else 1), i2))
  end.

(* a sketch runs only if it compiles: the whole expression must be well typed, including the
   parts that short-circuit evaluation never reaches *)
Definition crun (G : tenv) (s : cenv) (c : cexpr) (ins : inputs) : cres (cval * inputs) :=
  match ctype G c with
  | Some _ => ceval G s c ins
  | None => CStuck
  end.

(* what Serial.println prints for a value *)
Definition serial_text (w : cval) : text := string_of w.
