(* "calls no user function": the syntactic condition under which typing a statement never reaches the user-function step
   of _infer_expr_type (only the positions _infer_expr_type descends into count). *)
From Coq Require Import ZArith List Bool.
From RV Require Import Base.Wire Base.Text Lang.PyAst Lang.Infer Lang.InferComp Lang.Decl.
Import ListNotations.

Fixpoint ucf (e : pexpr) : bool :=
  match e with
  | EBin _ a b => ucf a && ucf b
  | EUn Not _ => true
  | EUn _ a => ucf a
  | EIfExp _ a b => ucf a && ucf b
  | ECall f args _ => (match tlookup f builtin_rets with Some _ => true | None => false end) && forallb ucf args
  | EList es => forallb ucf es
  | ESubscript v _ => ucf v
  | _ => true
  end.

Fixpoint ucf_rhs (r : rhs) : bool :=
  match r with RPlain e => ucf e | RComp _ _ elt => ucf_rhs elt end.

Fixpoint ucf_stmt (x : stmt) : bool :=
  match x with
  | SAssign _ e => ucf e
  | SAug v op e => ucf (EBin op (EName v) e)
  | SAssignR _ r => ucf_rhs r
  | STuple _ es => forallb ucf es
  | SReturn None => true
  | SReturn (Some e) => ucf e
  | SIf brs els => ucf_branches brs && match els with ONone => true | OSome b => ucf_block b end
  | SWhile body => ucf_block body
  | SFor _ body => ucf_block body
  end
with ucf_block (b : block) : bool :=
  match b with BNil => true | BCons x r => ucf_stmt x && ucf_block r end
with ucf_branches (brs : branches) : bool :=
  match brs with BrNil => true | BrCons b r => ucf_block b && ucf_branches r end.
