(* C06 - "every identifier is declared with a consistent type": names bound in a scope of their own that share the name of
   an outer variable, for the one binder the transpiler renders inside an EXPRESSION: the list comprehension

       x = [elt for t in range(n)]           ->       T x = __redu_list_from_range<E>(0, n, 1, [&](int t) { return elt; });

   Two things have to hold when t is also the name of a variable that exists already (legal Python 3: the comprehension
   variable lives in the comprehension only):

   1. C++ side ([comp_toks] over the scope stack of Lang/EmitScope.v): the lambda declares t as the parameter of a block of
      its own - whatever the enclosing scopes hold, nothing is redeclared and the enclosing scopes are as before.

   2. Python side ([assign] / [run_decls], the declaration bookkeeping of _handle_assignment_ast for a single-name assignment -
      the same rule as do_assign / do_assign_r of Lang/Decl.v, which unit C02 ties to parser.py - over the REAL mechanism
      of _infer_expr_type / _to_c_expr, [infer_rhs_s] of Lang/InferComp.v: var_types is ONE mutable table; the
      comprehension saves var_types.get(t), writes "int", works on elt, and puts the saved entry back in a `finally`):
      the first assignment of a name emits its declaration `cpp_type(label) x`, later ones only overwrite the label.
      [ref_type] / [ref_decls] is the reference: lexical scoping - the element is typed under a table EXTENDED by t : int,
      and nothing of that extension is visible to any later statement.

   [infer_rhs_pop] is the same function with the `finally` always popping the entry (a plausible simplification: "the
   variable is not visible afterwards"); [run_pop] the bookkeeping over it - used for the refutation example only.
   Model file: no proofs. *)
From Coq Require Import ZArith QArith List Bool.
From RV Require Import Base.Wire Base.Text Lang.PyAst Lang.Infer Lang.InferGuard Lang.InferComp Lang.EmitScope.
From RV Require Lang.Decl.
Import ListNotations.
Open Scope Z_scope.

(* ------------------------------------------------------------------ 1. the C++ text of a right-hand side, as scope tokens *)
Fixpoint comp_toks (r : rhs) : list tok :=
  match r with
  | RPlain _ => []
  | RComp t _ elt => TOpen [CUser t] :: comp_toks elt ++ [TClose]          (* [&](int t) { return <elt>; } *)
  end.

(* ------------------------------------------------------------------ 2. declarations caused by a sequence of assignments *)
Record dstate := mk_ds {
  ds_types : tenv;                       (* var_types *)
  ds_declared : list ident;              (* var_declared *)
  ds_decls : list (ident * cty)          (* the VarDecls emitted so far: name, C++ type *)
}.

(* "cannot assign non-list to list variable" / "list element types differ" *)
Definition list_clash (existing : option ty) (is_declared : bool) (t : ty) : bool :=
  match existing with
  | Some (TList oe) => is_declared && (negb (is_list_ty t) || negb (ty_eqb oe (list_elem t)))
  | _ => false
  end.

Definition grow (dcl : bool) (declared : list ident) (x : ident) : list ident := if dcl then declared else declared ++ [x].

Section Run.
  Variable inf : tenv -> rhs -> option (ty * tenv).      (* the inference at work: the real one or the popping one *)

  Definition assign_with (st : dstate) (x : ident) (r : rhs) : option dstate :=
    match inf (ds_types st) r with
    | None => None
    | Some (t, G1) =>
        let dcl := tmem x (ds_declared st) in
        if list_clash (tlookup x G1) dcl t then None
        else Some (mk_ds (tset G1 x t) (grow dcl (ds_declared st) x)
                         (if dcl then ds_decls st else ds_decls st ++ [(x, cpp_type t)]))
    end.

  Fixpoint run_with (st : dstate) (l : list (ident * rhs)) : option dstate :=
    match l with
    | [] => Some st
    | (x, r) :: l' => match assign_with st x r with Some st1 => run_with st1 l' | None => None end
    end.
End Run.

Section Static.
  Variable F : ftable.
  Variable A : aliases.
  Variable C : option ictx.

  Definition assign_decl := assign_with (infer_rhs_s F A C).
  Definition run_decls := run_with (infer_rhs_s F A C).

  (* the `finally` that always pops *)
  Fixpoint infer_rhs_pop (G : tenv) (r : rhs) : option (ty * tenv) :=
    match r with
    | RPlain e => infer_s F A C G e
    | RComp t _ elt =>
        match infer_rhs_pop (tset G t TInt) elt with
        | None => None
        | Some (et, G1) => Some (TList et, tremove G1 t)
        end
    end.
  Definition run_pop := run_with infer_rhs_pop.

  (* ---- reference: lexical scoping ---- *)
  Fixpoint ref_type (G : tenv) (r : rhs) : option ty :=
    match r with
    | RPlain e => match infer_s F A C G e with Some (t, _) => Some t | None => None end
    | RComp t _ elt => option_map TList (ref_type (tset G t TInt) elt)
    end.

  Fixpoint ref_decls (G : tenv) (declared : list ident) (l : list (ident * rhs)) : option (list (ident * cty)) :=
    match l with
    | [] => Some []
    | (x, r) :: l' =>
        match ref_type G r with
        | None => None
        | Some t =>
            let dcl := tmem x declared in
            if list_clash (tlookup x G) dcl t then None
            else match ref_decls (tset G x t) (grow dcl declared x) l' with
                 | None => None
                 | Some ds => Some ((if dcl then [] else [(x, cpp_type t)]) ++ ds)
                 end
        end
    end.

  (* guard: no plain expression of the sequence changes var_types by itself (the String contagion of `name + "text"`,
     InferGuard.pure - C02's business), each judged under the table it is inferred in *)
  Fixpoint pure_run (G : tenv) (l : list (ident * rhs)) : bool :=
    match l with
    | [] => true
    | (x, r) :: l' =>
        rhs_pure F A C G r && match ref_type G r with Some t => pure_run (tset G x t) l' | None => true end
    end.
End Static.

(* ------------------------------------------------------------------ 3. the block of C++ text a sequence of assignments makes *)
Fixpoint prog_toks (declared : list ident) (l : list (ident * rhs)) : list tok :=
  match l with
  | [] => []
  | (x, r) :: l' =>
      let dcl := tmem x declared in
      (if dcl then [] else [TDecl (CUser x)]) ++ comp_toks r ++ prog_toks (grow dcl declared x) l'
  end.

(* ------------------------------------------------------------------ witnesses *)
Definition n_v : ident := [118].
Definition n_w : ident := [119].
Definition n_xs : ident := [120; 115].
Definition st_empty : dstate := mk_ds [] [] [].

(* v = 2.5 ; xs = [v * 2 for v in range(3)] ; w = v *)
Definition reuse_prog : list (ident * rhs) :=
  [ (n_v, RPlain (EFloat (5 # 2)));
    (n_xs, RComp n_v (EInt 3) (RPlain (EBin Mult (EName n_v) (EInt 2))));
    (n_w, RPlain (EName n_v)) ].

(* v = "cm" ; xs = [[v + 1 for v in range(2)] for v in range(3)] ; w = v ; v = "mm" *)
Definition nested_prog : list (ident * rhs) :=
  [ (n_v, RPlain (EStr [99; 109]));
    (n_xs, RComp n_v (EInt 3) (RComp n_v (EInt 2) (RPlain (EBin Add (EName n_v) (EInt 1)))));
    (n_w, RPlain (EName n_v));
    (n_v, RPlain (EStr [109; 109])) ].

(* ------------------------------------------------------------------ 4. the binder the transpiler does NOT give a scope: a function's local
   of the name of a module-level variable (F-C06-fn-local-shadows-global).  Over Lang/Decl.v's model of _parse_function (the child
   context starts with a copy of var_declared, so the global's name counts as declared and the assignment declares nothing):
   [fn_assign_consistent] - the declaration a function body's assignment  x = <value of label t>  writes to (parameter, local,
   else the global) has the C++ type of t. *)
Definition fn_assign_consistent (globals : list (ident * cty)) (d : Decl.fdef) (x : ident) (t : ty) : bool :=
  match tlookup x (Decl.fd_params d ++ Decl.fd_locals d) with
  | Some c => cty_eqb c (cpp_type t)
  | None => match tlookup x globals with Some c => cty_eqb c (cpp_type t) | None => false end
  end.

Definition n_label : ident := [108;97;98;101;108].
Definition n_twice : ident := [116;119;105;99;101].
(* label = "ab" ; def twice(): label = 4 ; return label * 2 *)
Definition shadow_items : list Decl.item :=
  [ Decl.IStmt (Decl.SAssign n_label (EStr [97;98]));
    Decl.IDef n_twice (Decl.mk_fsrc [] None
      (Decl.block_of [Decl.SAssign n_label (EInt 4); Decl.SReturn (Some (EBin Mult (EName n_label) (EInt 2)))])) ].
(* label = 7 ; def twice(): label = 4 ; return label * 2   (the way the generators write a global from a function) *)
Definition same_type_items : list Decl.item :=
  [ Decl.IStmt (Decl.SAssign n_label (EInt 7));
    Decl.IDef n_twice (Decl.mk_fsrc [] None
      (Decl.block_of [Decl.SAssign n_label (EInt 4); Decl.SReturn (Some (EBin Mult (EName n_label) (EInt 2)))])) ].
