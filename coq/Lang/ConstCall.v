(* Calls of a function that WRITES module-level names, on top of Lang/ConstEnv.v and Lang/ConstFlow.v.

   The script:    prefix
                  def f():  body            (call-free; it may assign - `global x` - append to / remove from module names)
                  first                     (statements of the calling scope after the def)
                  f();  seg_1;  f();  seg_2;  ...  f();  seg_n          ([rest] = [seg_1; ...; seg_n], one call each)

   What Python means: the body runs at every call, in the module state of that moment, and what it writes is what the
   following statements see: [prefix ++ first ++ body ++ seg_1 ++ body ++ seg_2 ...] (a parameterless body over module
   names is its own inlining).

   What the transpiler does (_parse_function, _parse_simple_lines):
     * the body is parsed ONCE, at the def, in a copy of the environment of that moment where every name the script
       writes at more than one site is unknown (ctx["_rebound_names"]); a call-free body has nothing volatile;
     * from the def on the names the body writes (ctx["_function_written"], [vol]) are unknown in the calling scope, and
       the calling scope forgets them again after EVERY assignment statement - plain, augmented, each target of a tuple
       assignment (the parameter [vol] of ConstEnv.tstep) - so that no statement form re-tracks such a name: it is a
       run-time value at every fold site (len, flash_pattern, glyph rows), whatever call came in between;
     * a call leaves the constant environment alone.
   [in_fn = true] is the same calling sequence inside ANOTHER function's body (scope = "function").  Since the repair of
   F-C03-stale-after-call-in-function the calling body is treated like the module level: the names written by the
   functions it calls (ctx["_callee_written"] = _callee_written_names(block): here [vol]) are forgotten when its parsing
   starts - on top of the copy of the def-time module environment without the rebound names - and again after every
   assignment statement.  The two scopes differ only in the environment the calling sequence starts from.
   No proofs in this file. *)
From Coq Require Import ZArith QArith List Bool.
From RV Require Import Base.Wire Base.Text Lang.PyAst Lang.PySem Gen.SafeCasts Lang.ConstEval Lang.ConstEnv Lang.ConstFlow.
Import ListNotations.
Open Scope Z_scope.

Fixpoint calls_inline (body : list stmt) (rest : list (list stmt)) : list stmt :=
  match rest with [] => [] | s :: r => body ++ s ++ calls_inline body r end.

Definition seg_writes (rest : list (list stmt)) : list ident := writes_block (concat rest).

(* [n for n in write_sites if write_sites.count(n) > 1] over the whole script *)
Definition rebound_all (prefix body first : list stmt) (rest : list (list stmt)) : list ident :=
  dups (writes_block prefix ++ writes_block body ++ writes_block first ++ seg_writes rest).

Section Segs.
Variable vol : list ident.
Fixpoint tsegs (rest : list (list stmt)) (te : tenv) (st : store) {struct rest} : option (list (list stmt) * bool) :=
  match rest with
  | [] => Some ([], true)
  | s :: r =>
      match tblock vol s te st with
      | Some (te1, st1, r1, f1) =>
          match tsegs r te1 st1 with
          | Some (rs, f2) => Some (r1 :: rs, f1 && f2)
          | None => None end
      | None => None end
  end.
End Segs.

(* residuals of prefix, body, first, rest; the ghost flag (single-statement side conditions of every block) *)
Definition tcalls (in_fn : bool) (prefix body first : list stmt) (rest : list (list stmt))
  : option (list stmt * list stmt * list stmt * list (list stmt) * bool) :=
  match tblock [] prefix [] [] with
  | Some (te, st, rp, fp) =>
      let rb0 := rebound_all prefix body first rest in
      let vol := writes_block body in
      match tblock [] body (forget rb0 te) st with
      | Some (_, _, rb, fb) =>
          let te0 := if in_fn then forget vol (forget rb0 (forget vol te)) else forget vol te in
          match tblock vol first te0 st with
          | Some (te1, st1, rf, ff) =>
              match tsegs vol rest te1 st1 with
              | Some (rs, fs) => Some (rp, rb, rf, rs, fp && fb && ff && fs)
              | None => None end
          | None => None end
      | None => None end
  | None => None end.

Definition python_calls_outputs (prefix body first : list stmt) (rest : list (list stmt)) (orc : list nat) : option (list pval) :=
  python_outputs (prefix ++ first ++ calls_inline body rest) orc.
Definition firmware_calls_outputs (in_fn : bool) (prefix body first : list stmt) (rest : list (list stmt)) (orc : list nat)
  : option (list pval) :=
  match tcalls in_fn prefix body first rest with
  | Some (rp, rb, rf, rs, _) =>
      match rblock (rp ++ rf ++ calls_inline rb rs) orc [] with Some (_, out, _) => Some out | None => None end
  | None => None end.
Definition calls_ok (in_fn : bool) (prefix body first : list stmt) (rest : list (list stmt)) : bool :=
  match tcalls in_fn prefix body first rest with Some (_, _, _, _, f) => f | None => false end.

(* the invariant of the calling scope: nothing the callee writes is known *)
Definition vol_unknown (vol : list ident) (te : tenv) : Prop := forall x, In x vol -> known x te = false.
