(* How the transpiler maintains its constant environment ctx["vars"] across statements
   (parser.py: _handle_assignment_ast / eval_or_expr, the if / while / for handlers that give
   the body a *copy* of the dict, the append / remove bookkeeping at the end of
   _parse_simple_lines, _make_promotion_decls), and where it is consulted
   (len(name) via _literal_length, flash_pattern(name)).

   Python list objects stored in the dict are mutable: names are bound to *locations* of a
   transpile-time store.  Since the repair of the stale-fold findings (F-C03-shared-list-append ...)
   a child scope gets a COPY of the dict AND of every tracked list (_copy_const_env): the child's
   store is private and is discarded with the child dict; after an if / try statement - and, for a
   loop, BEFORE its condition and body are parsed - every name the block writes at any depth
   (_written_names) stops being known in the enclosing dict (_forget_names).

   The reference semantics [rblock] is Python's for alias-free programs (no "b = a" on
   lists); control flow is driven by an oracle so that every path is covered.
   No proofs in this file. *)
From Coq Require Import ZArith QArith List Bool.
From RV Require Import Base.Wire Base.Text Lang.PyAst Lang.PySem Gen.SafeCasts Lang.ConstEval.
Import ListNotations.
Open Scope Z_scope.

Inductive obs := OLen (x : ident)        (* mon.write(len(x)) *)
               | OFlash (x : ident)      (* led.flash_pattern(x) *)
               | OGlyph (e : pexpr)      (* lcd.glyph(slot, e): the eight rows, int(entry) each (tagged as a tuple) *)
               | OVal (x : ident).       (* mon.write(x) / sleep(x): the run-time value of a variable (never folded) *)

Inductive stmt :=
| SAssign (x : ident) (e : pexpr)        (* x = e *)
| SAppend (x : ident) (e : pexpr)        (* x.append(e) *)
| SRemove (x : ident) (e : pexpr)        (* x.remove(e) *)
| SObs (o : obs)
| SEmit (v : pval)                       (* residual only: a constant baked into the firmware is output *)
| SIf (body orelse : list stmt)          (* if <run-time condition>: body else: orelse *)
| SWhile (body : list stmt)              (* while <run-time condition>: body *)
| SFor (x : ident) (body : list stmt)    (* for x in range(<run-time count>): body *)
| SAug (x : ident) (op : binop) (e : pexpr).   (* x op= e *)

(* ------------------------------------------------------------------ *)
(* run time (reference): names -> values; the oracle decides branches and iteration counts *)
Definition py_eqb (a b : pval) : bool := match py_cmp PyAst.Eq a b with Ok true => true | _ => false end.
Fixpoint remove_first (v : pval) (l : list pval) : option (list pval) :=
  match l with
  | [] => None
  | x :: r => if py_eqb x v then Some r else option_map (cons x) (remove_first v r)
  end.

Definition rres := option (env * list pval * list nat).

Definition robs (o : obs) (rho : env) : option pval :=
  match o with
  | OLen x => match lookup x rho with
              | Some v => match py_call n_len [v] with Ok n => Some n | Err _ => None end
              | None => None end
  | OFlash x => match lookup x rho with
                | Some (VList l) | Some (VTuple l) => Some (VList l)
                | _ => None end
  | OGlyph e => match peval rho e with
                | Ok (VList l) | Ok (VTuple l) =>
                    match glyph_rows l with
                    | Some zs => if Nat.eqb (length zs) 8 then Some (VTuple (map VInt zs)) else None
                    | None => None end
                | _ => None end
  | OVal x => lookup x rho
  end.

Definition rsimple (s : stmt) (rho : env) : option (env * list pval) :=
  match s with
  | SAssign x e => match peval rho e with Ok v => Some ((x, v) :: rho, []) | Err _ => None end
  | SAppend x e =>
      match peval rho e, lookup x rho with
      | Ok v, Some (VList l) => Some ((x, VList (l ++ [v])) :: rho, [])
      | _, _ => None end
  | SRemove x e =>
      match peval rho e, lookup x rho with
      | Ok v, Some (VList l) =>
          match remove_first v l with Some l' => Some ((x, VList l') :: rho, []) | None => None end
      | _, _ => None end
  | SObs o => match robs o rho with Some v => Some (rho, [v]) | None => None end
  | SEmit v => Some (rho, [v])
  | SAug x op e => match peval rho (EBin op (EName x) e) with Ok v => Some ((x, v) :: rho, []) | Err _ => None end
  | _ => None
  end.

Fixpoint rstep (s : stmt) (orc : list nat) (rho : env) {struct s} : rres :=
  let fix rblock (b : list stmt) (orc : list nat) (rho : env) {struct b} : rres :=
    match b with
    | [] => Some (rho, [], orc)
    | s :: r =>
        match rstep s orc rho with
        | Some (rho1, o1, orc1) =>
            match rblock r orc1 rho1 with
            | Some (rho2, o2, orc2) => Some (rho2, o1 ++ o2, orc2)
            | None => None end
        | None => None end
    end in
  match s with
  | SIf body orelse =>
      match orc with
      | O :: orc' => rblock orelse orc' rho
      | _ :: orc' => rblock body orc' rho
      | [] => None end
  | SWhile body =>
      match orc with
      | k :: orc' =>
          (fix iter (k : nat) (orc : list nat) (rho : env) {struct k} : rres :=
             match k with
             | O => Some (rho, [], orc)
             | S k' =>
                 match rblock body orc rho with
                 | Some (rho1, o1, orc1) =>
                     match iter k' orc1 rho1 with
                     | Some (rho2, o2, orc2) => Some (rho2, o1 ++ o2, orc2)
                     | None => None end
                 | None => None end
             end) k orc' rho
      | [] => None end
  | SFor x body =>
      match orc with
      | k :: orc' =>
          (fix iter (k : nat) (i : Z) (orc : list nat) (rho : env) {struct k} : rres :=
             match k with
             | O => Some (rho, [], orc)
             | S k' =>
                 match rblock body orc ((x, VInt i) :: rho) with
                 | Some (rho1, o1, orc1) =>
                     match iter k' (i + 1) orc1 rho1 with
                     | Some (rho2, o2, orc2) => Some (rho2, o1 ++ o2, orc2)
                     | None => None end
                 | None => None end
             end) k 0 orc' rho
      | [] => None end
  | _ => match rsimple s rho with Some (rho', o) => Some (rho', o, orc) | None => None end
  end.

Definition rblock := fix rblock (b : list stmt) (orc : list nat) (rho : env) {struct b} : rres :=
  match b with
  | [] => Some (rho, [], orc)
  | s :: r =>
      match rstep s orc rho with
      | Some (rho1, o1, orc1) =>
          match rblock r orc1 rho1 with
          | Some (rho2, o2, orc2) => Some (rho2, o1 ++ o2, orc2)
          | None => None end
      | None => None end
  end.

(* ------------------------------------------------------------------ *)
(* transpile time *)
Inductive tbind := TVal (v : pval) | TRef (l : nat) | TMark.
Definition tenv := list (ident * tbind).
Definition store := list (list pval).

Definition cbind_of (st : store) (b : tbind) : cbind :=
  match b with TVal v => Known v | TRef l => Known (VList (nth l st [])) | TMark => Marker end.
Definition view (st : store) (te : tenv) : cenv := map (fun xb => (fst xb, cbind_of st (snd xb))) te.

Fixpoint set_nth {A} (n : nat) (a : A) (l : list A) : list A :=
  match n, l with
  | O, _ :: r => a :: r
  | S k, x :: r => x :: set_nth k a r
  | _, [] => [] end.

Definition bound (x : ident) (te : tenv) : bool := match tlookup x te with Some _ => true | None => false end.
Definition known (x : ident) (te : tenv) : bool :=
  match tlookup x te with Some (TVal _) | Some (TRef _) => true | _ => false end.

(* names a block may (re)bind or mutate at run time *)
Fixpoint writes (s : stmt) : list ident :=
  let fix ws (b : list stmt) : list ident := match b with [] => [] | s :: r => writes s ++ ws r end in
  match s with
  | SAssign x _ | SAppend x _ | SRemove x _ | SAug x _ _ => [x]
  | SObs _ | SEmit _ => []
  | SIf a b => ws a ++ ws b
  | SWhile a => ws a
  | SFor x a => x :: ws a
  end.
Definition writes_block := fix ws (b : list stmt) : list ident := match b with [] => [] | s :: r => writes s ++ ws r end.

(* _make_promotion_decls: names first bound inside the block become markers in the parent *)
Definition promote (parent child : tenv) (skip : list ident) : tenv :=
  fold_right (fun x acc => if bound x parent || tmem x skip then acc else (x, TMark) :: acc) parent (map fst child).

Definition is_num_entry (v : pval) : bool := match v with VInt _ | VBool _ | VFloat _ => true | _ => false end.

(* result: new dict, new store, residual statements, and a ghost flag [fresh] (not computed by the
   transpiler): the block stayed inside the guard of C03_env_fresh_partial *)
Definition tres := option (tenv * store * list stmt * bool).

Definition tsimple (s : stmt) (te : tenv) (st : store) : tres :=
  let c := view st te in
  match s with
  | SAssign x e =>
      let g := in_guard c e && negb (tmem x safe_name_references) in
      match eval_const c e with
      | CVal (VList l) => Some ((x, TRef (length st)) :: te, st ++ [l], [s], g)
      | CVal v => Some ((x, TVal v) :: te, st, [s], g)
      | CFail _ => Some ((x, TMark) :: te, st, [s], g)
      | COutOfModel => None
      end
  | SAppend x e =>
      match eval_const c e with
      | COutOfModel => None
      | r =>
        let argv := match r with CVal v => Some v | _ => None end in
        match tlookup x te with
        | Some (TRef l) =>
            match argv with
            | Some v => Some (te, set_nth l (nth l st [] ++ [v]) st, [s], in_guard c e)
            | None => Some ((x, TMark) :: te, st, [s], true)   (* argument only known at run time: so is the list *)
            end
        | Some (TVal _) => Some (te, st, [s], true)
        | _ => Some ((x, TMark) :: te, st, [s], true)
        end
      end
  | SRemove x e =>
      match eval_const c e with
      | COutOfModel => None
      | r =>
        let argv := match r with CVal v => Some v | _ => None end in
        match tlookup x te with
        | Some (TRef l) =>
            let cur := nth l st [] in
            match argv with
            | Some v =>
                match remove_first v cur with
                | Some cur' => Some (te, set_nth l cur' st, [s], in_guard c e)
                | None => Some (te, st, [s], false)            (* Python raises at run time *)
                end
            | None => Some ((x, TMark) :: te, st, [s], true)   (* argument only known at run time: so is the list *)
            end
        | Some (TVal _) => Some (te, st, [s], true)
        | _ => Some ((x, TMark) :: te, st, [s], true)
        end
      end
  | SObs (OLen x) =>
      match literal_length c (EName x) with
      | Some n => Some (te, st, [SEmit (VInt n)], true)
      | None => Some (te, st, [s], true)
      end
  | SObs (OFlash x) =>
      match tlookup x te with
      | Some (TRef l) =>
          let cur := nth l st [] in
          if forallb is_num_entry cur then Some (te, st, [SEmit (VList cur)], true) else None
      | Some (TVal (VTuple cur)) =>
          if forallb is_num_entry cur then Some (te, st, [SEmit (VList cur)], true) else None
      | _ => None                       (* "flash_pattern requires a literal pattern list" *)
      end
  | SObs (OGlyph e) =>
      match glyph_bitmap c e with       (* _eval_const(bitmap_arg, vars): names are read from the environment *)
      | Folded zs => Some (te, st, [SEmit (VTuple (map VInt zs))], in_guard c e)
      | _ => None                       (* "glyph bitmap must be a list of integers" / "must contain 8 rows" *)
      end
  | SObs (OVal _) => Some (te, st, [s], true)      (* _to_c_expr(name) = the C variable: read at run time *)
  | SEmit _ => Some (te, st, [s], false)
  | SAug x _ _ => Some ((x, TMark) :: te, st, [s], true)   (* vars[x] = _ExprStr(x): forgotten; never declares *)
  | _ => None
  end.

Definition no_safe (ws : list ident) : bool := forallb (fun x => negb (tmem x safe_name_references)) ws.

(* _forget_names: the listed names stop being known - where the dict has them *)
Definition mark_all (ws : list ident) (te : tenv) : tenv := fold_right (fun x acc => (x, TMark) :: acc) te ws.
Definition forget (ws : list ident) (te : tenv) : tenv := mark_all (filter (fun x => bound x te) ws) te.

(* [vol] = ctx["_function_written"]: the names some function body defined so far writes (parameters excepted).  What a
   function writes changes whenever it is called: at module level such a name is forgotten again after every assignment
   statement (_parse_simple_lines, scope <> "function").  [] for a script without function definitions. *)
Section Vol.
Variable vol : list ident.

Definition after_assign (s : stmt) (te : tenv) : tenv :=
  match s with
  | SAssign x _ => if tmem x vol then (x, TMark) :: te else te
  | _ => te
  end.

(* a child scope: the dict is copied and so is every tracked list (_copy_const_env) - the child works on [st] by value,
   what it leaves in its dict and in its store is discarded (only the names it declared are promoted, as markers).
   if / try: every branch starts from the snapshot; afterwards every name a branch writes is forgotten.
   while / for: the names the body writes (and the loop variable) are forgotten BEFORE the condition and the body are
   parsed - the body is parsed once and runs any number of times - and stay forgotten. *)
Fixpoint tstep (s : stmt) (te : tenv) (st : store) {struct s} : tres :=
  let fix tblock (b : list stmt) (te : tenv) (st : store) {struct b} : tres :=
    match b with
    | [] => Some (te, st, [], true)
    | s :: r =>
        match tstep s te st with
        | Some (te1, st1, r1, f1) =>
            match tblock r te1 st1 with
            | Some (te2, st2, r2, f2) => Some (te2, st2, r1 ++ r2, f1 && f2)
            | None => None end
        | None => None end
    end in
  match s with
  | SIf body orelse =>
      match tblock body te st with
      | Some (te1, _, r1, f1) =>
          match tblock orelse te st with
          | Some (te2, _, r2, f2) =>
              Some (forget (writes s) (promote (promote te te1 []) te2 []), st, [SIf r1 r2],
                    f1 && f2 && no_safe (writes s))
          | None => None end
      | None => None end
  | SWhile body =>
      let te0 := forget (writes s) te in
      match tblock body te0 st with
      | Some (te1, _, r1, f1) => Some (promote te0 te1 [], st, [SWhile r1], f1 && no_safe (writes s))
      | None => None end
  | SFor x body =>
      let te0 := forget (writes s) te in
      match tblock body ((x, TMark) :: te0) st with
      | Some (te1, _, r1, f1) => Some (promote te0 te1 [x], st, [SFor x r1], f1 && no_safe (writes s))
      | None => None end
  | _ => match tsimple s te st with
         | Some (te1, st1, r1, f1) => Some (after_assign s te1, st1, r1, f1)
         | None => None end
  end.

Definition tblock := fix tblock (b : list stmt) (te : tenv) (st : store) {struct b} : tres :=
  match b with
  | [] => Some (te, st, [], true)
  | s :: r =>
      match tstep s te st with
      | Some (te1, st1, r1, f1) =>
          match tblock r te1 st1 with
          | Some (te2, st2, r2, f2) => Some (te2, st2, r1 ++ r2, f1 && f2)
          | None => None end
      | None => None end
  end.
End Vol.

(* the whole pipeline on a script: what the firmware outputs on the path chosen by the oracle *)
Definition firmware_outputs (p : list stmt) (orc : list nat) : option (list pval) :=
  match tblock [] p [] [] with
  | Some (_, _, res, _) => match rblock res orc [] with Some (_, out, _) => Some out | None => None end
  | None => None end.
Definition python_outputs (p : list stmt) (orc : list nat) : option (list pval) :=
  match rblock p orc [] with Some (_, out, _) => Some out | None => None end.
Definition is_fresh (p : list stmt) : bool :=
  match tblock [] p [] [] with Some (_, _, _, f) => f | None => false end.

(* ------------------------------------------------------------------ *)
(* module level (scope = setup, depth = 0): static global initialisers vs run-time assignments
   (_handle_assignment_ast: `if is_global_scope: if not is_const or expr_uses_names: default + run-time assign`).
   The first assignment of a name at module level declares a C++ global.  Its initialiser is the translated
   right-hand side - evaluated BEFORE setup(), in the order of the declarations - only when the right-hand side
   is constant (is_const: _eval_const succeeded) and name-free (_expr_has_name); otherwise the global gets its
   type's default value and the assignment stays where it is in setup().  Names first bound inside a block are
   promoted with a default value (no initialiser to get wrong) and are not listed.
   [closed_only = false] is the variant without the name-free test: it exists to show that the test is forced. *)
Inductive ginit := GStatic (e : pexpr) | GDefault.
Definition is_cval {A} (r : cr A) : bool := match r with CVal _ => true | _ => false end.
Definition globals := list (ident * ginit).

(* result: dict, store, globals in declaration order, residual body of setup(), ghost flag of the environment
   model (as in tblock), ghost flag of the split: no variable named like a builtin the evaluator interprets, every
   hoisted expression inside in_guard, and a hoisted name is not written by an earlier statement (given that the
   name is not yet declared this only happens to a name used earlier as a for-loop variable, which C scopes to
   the loop) *)
Definition ttres := option (tenv * store * globals * list stmt * bool * bool).
Definition gsplit (closed_only : bool) (s : stmt) (te : tenv) (st : store) (seen : list ident) (r1 : list stmt)
  : globals * list stmt * bool :=
  match s with
  | SAssign x e =>
      let c := view st te in
      if bound x te then ([], r1, true)                  (* already declared: a plain run-time assignment *)
      else if is_cval (eval_const c e) && (negb closed_only || negb (has_name e))
           then ([(x, GStatic e)], [],
                 negb (binds_safe_name c) && in_guard [] e && negb (tmem x seen) && negb (tmem x safe_name_references))
           else ([(x, GDefault)], r1, true)
  | _ => ([], r1, true)
  end.
Fixpoint ttop_gen (closed_only : bool) (b : list stmt) (te : tenv) (st : store) (seen : list ident) {struct b} : ttres :=
  match b with
  | [] => Some (te, st, [], [], true, true)
  | s :: r =>
      match tstep [] s te st with
      | Some (te1, st1, r1, f1) =>
          let '(g1, body1, h1) := gsplit closed_only s te st seen r1 in
          (* names written so far (the residual writes what the source writes) *)
          match ttop_gen closed_only r te1 st1 (writes s ++ writes_block r1 ++ seen) with
          | Some (te2, st2, g2, body2, f2, h2) => Some (te2, st2, g1 ++ g2, body1 ++ body2, f1 && f2, h1 && h2)
          | None => None end
      | None => None end
  end.
Definition ttop := ttop_gen true.

(* the static initialisers run first, in declaration order, each in the environment of the earlier globals *)
Fixpoint static_inits (gs : globals) : list stmt :=
  match gs with
  | [] => []
  | (x, GStatic e) :: r => SAssign x e :: static_inits r
  | (_, GDefault) :: r => static_inits r
  end.
Definition sketch_outputs_gen (closed_only : bool) (p : list stmt) (orc : list nat) : option (list pval) :=
  match ttop_gen closed_only p [] [] [] with
  | Some (_, _, gs, body, _, _) =>
      match rblock (static_inits gs ++ body) orc [] with Some (_, out, _) => Some out | None => None end
  | None => None end.
Definition sketch_outputs := sketch_outputs_gen true.
Definition split_ok (p : list stmt) : bool :=
  match ttop p [] [] [] with Some (_, _, _, _, f, h) => f && h | None => false end.
