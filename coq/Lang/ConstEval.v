(* Model of the transpile-time evaluator [_eval_const] of transpile/parser.py
   (lines 177-334: the inner functions [ev] and [_apply_bin]), of [_expr_has_name],
   of [_literal_length] (inside [_to_c_expr]) and of the call sites that fold
   arguments ([_resolve_numeric_arg], [_resolve_float_arg], [_resolve_bool_arg],
   [sleep(...)], [glyph], [eval_or_expr]).

   Transcribed test by test, in the order of the [isinstance] tests of the source,
   including the defects (unary plus is the identity, one-argument max/min returns
   its argument, ...) and the size bound on folded integers (_MAX_CONST_BITS).  The operator / cast tables are those of Gen/SafeCasts.v,
   regenerated from the current source on every run.  No proofs in this file. *)
From Coq Require Import ZArith QArith List Bool.
From RV Require Import Base.Wire Base.Text Lang.PyAst Lang.PySem Gen.SafeCasts.
Import ListNotations.
Open Scope Z_scope.

(* ---- environment: ctx["vars"] ---- *)
Inductive cbind := Known (v : pval) | Marker.          (* Marker = an _ExprStr instance *)
Definition cenv := list (ident * cbind).

(* env agrees with a run-time environment: every Known binding is the run-time binding *)
Definition agrees (c : cenv) (rho : env) : Prop :=
  forall x v, tlookup x c = Some (Known v) -> lookup x rho = Some v.
(* the script does not rebind a builtin the evaluator interprets *)
Definition unshadowed (rho : env) : Prop :=
  forall f, In f safe_casts \/ In f [n_len; n_abs; n_max; n_min] -> lookup f rho = None.

(* ---- outcomes ---- *)
Inductive ckind := KValue (* ValueError *) | KType (* TypeError *) | KZeroDiv (* ZeroDivisionError *).
Inductive cr (A : Type) : Type :=
| CVal (a : A)
| CFail (k : ckind)           (* the exception that leaves _eval_const *)
| COutOfModel.                (* CPython defines it, PySem does not (str(float), float(str), complex, ...) *)
Arguments CVal {A} a. Arguments CFail {A} k. Arguments COutOfModel {A}.
Definition cres := cr pval.

Definition bindC {A B} (r : cr A) (f : A -> cr B) : cr B :=
  match r with CVal a => f a | CFail k => CFail k | COutOfModel => COutOfModel end.
Notation "'dc' x <- r ; k" := (bindC r (fun x => k)) (at level 200, x name, r at level 100, k at level 200).

(* ---- the ast class names, as the generated tables spell them ---- *)
Definition binop_name (op : binop) : text :=
  match op with
  | Add => [65;100;100] | Sub => [83;117;98] | Mult => [77;117;108;116] | Div => [68;105;118]
  | FloorDiv => [70;108;111;111;114;68;105;118] | Mod => [77;111;100] | Pow => [80;111;119]
  | BitAnd => [66;105;116;65;110;100] | BitOr => [66;105;116;79;114] | BitXor => [66;105;116;88;111;114]
  | LShift => [76;83;104;105;102;116] | RShift => [82;83;104;105;102;116]
  | MatMult => [77;97;116;77;117;108;116] end.
Definition unop_name (op : unop) : text :=
  match op with
  | UAdd => [85;65;100;100] | USub => [85;83;117;98] | Not => [78;111;116]
  | Invert => [73;110;118;101;114;116] end.
Definition cmpop_name (op : cmpop) : text :=
  match op with
  | PyAst.Eq => [69;113] | NotEq => [78;111;116;69;113] | PyAst.Lt => [76;116] | LtE => [76;116;69]
  | PyAst.Gt => [71;116] | GtE => [71;116;69] | CmpOther => [79;116;104;101;114] end.

Definition in_bin (op : binop) : bool := tmem (binop_name op) (map fst bin_ops).      (* type(n.op) in _BIN *)
Definition in_un (op : unop) : bool := tmem (unop_name op) (map fst un_ops).          (* type(n.op) in _UN *)
Definition cmp_known (op : cmpop) : bool := tmem (cmpop_name op) (map fst eval_cmp_fns). (* ops.get(type(op_node)) *)

(* the dispatch the model implements; Proofs/ConstEvalP.v checks the generated dicts against it *)
Definition expected_bin_fns : list (text * text) :=
  [ (binop_name Add, [97;100;100]); (binop_name Sub, [115;117;98]); (binop_name Mult, [109;117;108]);
    (binop_name Div, [116;114;117;101;100;105;118]); (binop_name FloorDiv, [102;108;111;111;114;100;105;118]);
    (binop_name Mod, [109;111;100]); (binop_name Pow, [112;111;119]); (binop_name BitAnd, [97;110;100;95]);
    (binop_name BitOr, [111;114;95]); (binop_name BitXor, [120;111;114]); (binop_name LShift, [108;115;104;105;102;116]);
    (binop_name RShift, [114;115;104;105;102;116]) ].
Definition expected_cmp_fns : list (text * text) :=
  [ (cmpop_name PyAst.Eq, [101;113]); (cmpop_name NotEq, [110;101]); (cmpop_name PyAst.Lt, [108;116]);
    (cmpop_name LtE, [108;101]); (cmpop_name PyAst.Gt, [103;116]); (cmpop_name GtE, [103;101]) ].
Definition pure_casts : list ident := [n_int; n_float; n_str; n_bool].

(* ---- value tests ---- *)
Definition is_numv (v : pval) : bool :=            (* isinstance(v, (int, float)); bools are ints *)
  match v with VInt _ | VBool _ | VFloat _ => true | _ => false end.
Definition is_scalar (v : pval) : bool :=          (* isinstance(v, (int, float, str, bool)) *)
  match v with VInt _ | VBool _ | VFloat _ | VStr _ => true | _ => false end.
Definition is_strv (v : pval) : bool := match v with VStr _ => true | _ => false end.

(* a Python exception raised by an operator escapes [ev] unchanged *)
Definition lift {A} (r : res A) : cr A :=
  match r with
  | Ok v => CVal v
  | Err ZeroDiv => CFail KZeroDiv | Err TypeErr => CFail KType | Err ValueErr => CFail KValue
  | Err _ => COutOfModel
  end.

(* int.bit_length() *)
Definition bit_length (z : Z) : Z := if z =? 0 then 0 else Z.log2 (Z.abs z) + 1.
(* the size _apply_bin predicts for the result of an operator on two ints (bools are ints), before computing it:
   Pow and LShift with a positive right operand, Mult; 0 for everything else *)
Definition fold_bits (op : binop) (x y : Z) : Z :=
  match op with
  | Pow => if 0 <? y then bit_length x * y else 0
  | LShift => if 0 <? y then bit_length x + y else 0
  | Mult => bit_length x + bit_length y
  | _ => 0
  end.
(* "if bits > _MAX_CONST_BITS: raise ValueError" - fold_max_bits is read from the current source (Gen/SafeCasts.v) *)
Definition too_large (op : binop) (a b : pval) : bool :=
  match is_intlike a, is_intlike b with
  | Some x, Some y => fold_max_bits <? fold_bits op x y
  | _, _ => false
  end.

(* _apply_bin *)
Definition apply_bin (op : binop) (a b : pval) : cres :=
  match op, a, b with
  | Add, VStr s, VStr t => CVal (VStr (s ++ t))
  | _, _, _ =>
      if is_numv a && is_numv b then
        if too_large op a b then CFail KValue else lift (py_bin op a b)
      else CFail KValue
  end.

Definition un_step (op : unop) (v : pval) : cres :=
  match op with
  | UAdd => lift (py_un UAdd v)                      (* "+v" (was "return v" until the repair of F-C03-unary-plus-identity) *)
  | USub => lift (py_un USub v)                      (* "-v": TypeError escapes *)
  | Not => CVal (VBool (negb (truthy v)))
  | Invert => CFail KValue                           (* not in _UN; falls through to "unsupported" *)
  end.

Definition cmp_step (op : cmpop) (l r : pval) : cr bool :=
  if cmp_known op then
    match py_cmp op l r with Ok c => CVal c | Err TypeErr => CFail KType | Err _ => COutOfModel end
  else CFail KValue.

(* _SAFE_CASTS[name](inner) under "except Exception: raise ValueError" *)
Definition cast (f : ident) (v : pval) : cres :=
  match py_call f [v] with Ok r => CVal r | Err OutOfModel => COutOfModel | Err _ => CFail KValue end.

Definition len_step (v : pval) : cres :=
  match v with
  | VStr s => CVal (VInt (Z.of_nat (length s)))
  | VList l | VTuple l => CVal (VInt (Z.of_nat (length l)))
  | _ => CFail KValue end.

Definition abs_step (v : pval) : cres :=
  if is_numv v then lift (py_call n_abs [v]) else CFail KValue.

Definition str_step (v : pval) : cr text :=           (* str(x) inside an f-string *)
  match py_str v with Ok s => CVal s | Err _ => COutOfModel end.

Definition is_nil {A} (l : list A) : bool := match l with [] => true | _ => false end.

(* ---- ev ---- *)
Fixpoint eval_const (cenv : cenv) (e : pexpr) {struct e} : cres :=
  let fix evals (l : list pexpr) : cr (list pval) :=
    match l with
    | [] => CVal []
    | x :: r => dc v <- eval_const cenv x; dc vs <- evals r; CVal (v :: vs)
    end in
  (* result = True; for value in n.values: result = result and ev(value) *)
  let fix evand (l : list pexpr) (result : pval) : cres :=
    match l with
    | [] => CVal result
    | x :: r => if truthy result then dc v <- eval_const cenv x; evand r v else evand r result
    end in
  let fix evor (l : list pexpr) (result : pval) : cres :=
    match l with
    | [] => CVal result
    | x :: r => if truthy result then evor r result else dc v <- eval_const cenv x; evor r v
    end in
  (* for op_node, comp in zip(n.ops, n.comparators) *)
  let fix chain (left : pval) (ops : list cmpop) (rs : list pexpr) {struct rs} : cres :=
    match rs, ops with
    | r :: rs', op :: ops' =>
        dc rv <- eval_const cenv r;
        dc c <- cmp_step op left rv;
        if c then chain rv ops' rs' else CVal (VBool false)
    | _, _ => CVal (VBool true)
    end in
  let fix joined (ps : list pexpr) : cr text :=
    match ps with
    | [] => CVal []
    | p :: r =>
        dc s <- match p with
                | EStr s => CVal s
                | EFmt ok v => if ok then dc x <- eval_const cenv v; str_step x else CFail KValue
                | _ => CFail KValue
                end;
        dc t <- joined r; CVal (s ++ t)
    end in
  (* max(ev(arg) for arg in n.args): the builtin pulls one item at a time and compares *)
  let fix mm (want_max : bool) (best : pval) (rest : list pexpr) {struct rest} : cres :=
    match rest with
    | [] => CVal best
    | x :: r =>
        dc v <- eval_const cenv x;
        dc c <- lift (py_cmp (if want_max then PyAst.Gt else PyAst.Lt) v best);
        mm want_max (if c then v else best) r
    end in
  match e with
  | EInt z => CVal (VInt z)
  | EBool b => CVal (VBool b)
  | EFloat q => CVal (vfloat q)
  | EStr s => CVal (VStr s)
  | EConstOther => CFail KValue
  | EName x =>
      match tlookup x cenv with
      | Some Marker => CFail KValue
      | Some (Known v) => if is_scalar v then CVal v else CFail KValue
      | None => CFail KValue
      end
  | EBin op a b =>
      if in_bin op then dc x <- eval_const cenv a; dc y <- eval_const cenv b; apply_bin op x y
      else CFail KValue
  | EUn op a => if in_un op then dc v <- eval_const cenv a; un_step op v else CFail KValue
  | EBoolOp And vs => evand vs (VBool true)
  | EBoolOp Or vs => evor vs (VBool false)
  | ECompare l ops rs =>
      match ops with [] => CFail KValue | _ => dc lv <- eval_const cenv l; chain lv ops rs end
  | EIfExp c a b => dc cv <- eval_const cenv c; if truthy cv then eval_const cenv a else eval_const cenv b
  | EJoined ps => dc s <- joined ps; CVal (VStr s)
  | ECall f args kws =>
      match kws, args with
      | [], a :: r =>
          if is_nil r && tmem f safe_casts then dc v <- eval_const cenv a; cast f v
          else if is_nil r && text_eqb f n_len then dc v <- eval_const cenv a; len_step v
          else if is_nil r && text_eqb f n_abs then dc v <- eval_const cenv a; abs_step v
          else if text_eqb f n_max then dc v <- eval_const cenv a; mm true v r
          else if text_eqb f n_min then dc v <- eval_const cenv a; mm false v r
          else CFail KValue
      | _, _ => CFail KValue
      end
  | EList es => dc vs <- evals es; CVal (VList vs)
  | ETuple es => dc vs <- evals es; CVal (VTuple vs)
  | EFmt _ _ | EMethod _ _ _ _ | ESubscript _ _ | EOther _ => CFail KValue
  end.

(* ---- the same evaluator, instrumented with the primitive operations it performs ---- *)
Inductive prim :=
| PArith (op : binop)      (* ops[opcls](a, b) on two already evaluated numbers *)
| PConcat                  (* a + b on two already evaluated strings *)
| PNeg                     (* -v, +v *)
| PCast (f : ident)        (* _SAFE_CASTS[f](inner) *)
| PStr                     (* str(...) of an f-string part *)
| PLen | PAbs
| PMinMax                  (* the builtin max / min applied to the generator *)
| PLookup (x : ident)      (* env lookup of a name; nothing else is ever looked up *)
| PCompare                 (* one rich comparison *)
| PTruth.                  (* truth test: not v, result and ..., result or ..., the test of a conditional expression *)

Definition fx (A : Type) : Type := (cr A * list prim)%type.
Definition bindF {A B} (m : fx A) (f : A -> fx B) : fx B :=
  match m with
  | (CVal a, t) => let (r, t') := f a in (r, t ++ t')
  | (CFail k, t) => (CFail k, t)
  | (COutOfModel, t) => (COutOfModel, t)
  end.
Notation "'df' x <- r ; k" := (bindF r (fun x => k)) (at level 200, x name, r at level 100, k at level 200).
Definition pure {A} (r : cr A) : fx A := (r, []).
Definition doing {A} (p : prim) (r : cr A) : fx A := (r, [p]).
Definition after {A} (p : prim) (m : fx A) : fx A := let (r, t) := m in (r, p :: t).

Definition apply_bin_fx (op : binop) (a b : pval) : fx pval :=
  (apply_bin op a b,
   if (match op with Add => is_strv a && is_strv b | _ => false end) then [PConcat]
   else if is_numv a && is_numv b && negb (too_large op a b) then [PArith op] else []).
Definition un_step_fx (op : unop) (v : pval) : fx pval :=
  (un_step op v, match op with USub | UAdd => [PNeg] | Not => [PTruth] | _ => [] end).
Definition cmp_step_fx (op : cmpop) (l r : pval) : fx bool :=
  (cmp_step op l r, if cmp_known op then [PCompare] else []).
Definition len_step_fx (v : pval) : fx pval :=
  (len_step v, match v with VStr _ | VList _ | VTuple _ => [PLen] | _ => [] end).
Definition abs_step_fx (v : pval) : fx pval := (abs_step v, if is_numv v then [PAbs] else []).

Fixpoint eval_const_fx (cenv : cenv) (e : pexpr) {struct e} : fx pval :=
  let fix evals (l : list pexpr) : fx (list pval) :=
    match l with
    | [] => pure (CVal [])
    | x :: r => df v <- eval_const_fx cenv x; df vs <- evals r; pure (CVal (v :: vs))
    end in
  let fix evand (l : list pexpr) (result : pval) : fx pval :=
    match l with
    | [] => pure (CVal result)
    | x :: r => after PTruth (if truthy result then df v <- eval_const_fx cenv x; evand r v else evand r result)
    end in
  let fix evor (l : list pexpr) (result : pval) : fx pval :=
    match l with
    | [] => pure (CVal result)
    | x :: r => after PTruth (if truthy result then evor r result else df v <- eval_const_fx cenv x; evor r v)
    end in
  let fix chain (left : pval) (ops : list cmpop) (rs : list pexpr) {struct rs} : fx pval :=
    match rs, ops with
    | r :: rs', op :: ops' =>
        df rv <- eval_const_fx cenv r;
        df c <- cmp_step_fx op left rv;
        if c then chain rv ops' rs' else pure (CVal (VBool false))
    | _, _ => pure (CVal (VBool true))
    end in
  let fix joined (ps : list pexpr) : fx text :=
    match ps with
    | [] => pure (CVal [])
    | p :: r =>
        df s <- match p with
                | EStr s => pure (CVal s)
                | EFmt ok v => if ok then df x <- eval_const_fx cenv v; doing PStr (str_step x) else pure (CFail KValue)
                | _ => pure (CFail KValue)
                end;
        df t <- joined r; pure (CVal (s ++ t))
    end in
  let fix mm (want_max : bool) (best : pval) (rest : list pexpr) {struct rest} : fx pval :=
    match rest with
    | [] => pure (CVal best)
    | x :: r =>
        df v <- eval_const_fx cenv x;
        df c <- doing PCompare (lift (py_cmp (if want_max then PyAst.Gt else PyAst.Lt) v best));
        mm want_max (if c then v else best) r
    end in
  match e with
  | EInt z => pure (CVal (VInt z))
  | EBool b => pure (CVal (VBool b))
  | EFloat q => pure (CVal (vfloat q))
  | EStr s => pure (CVal (VStr s))
  | EConstOther => pure (CFail KValue)
  | EName x =>
      doing (PLookup x)
        (match tlookup x cenv with
         | Some Marker => CFail KValue
         | Some (Known v) => if is_scalar v then CVal v else CFail KValue
         | None => CFail KValue
         end)
  | EBin op a b =>
      if in_bin op then df x <- eval_const_fx cenv a; df y <- eval_const_fx cenv b; apply_bin_fx op x y
      else pure (CFail KValue)
  | EUn op a => if in_un op then df v <- eval_const_fx cenv a; un_step_fx op v else pure (CFail KValue)
  | EBoolOp And vs => evand vs (VBool true)
  | EBoolOp Or vs => evor vs (VBool false)
  | ECompare l ops rs =>
      match ops with [] => pure (CFail KValue) | _ => df lv <- eval_const_fx cenv l; chain lv ops rs end
  | EIfExp c a b =>
      df cv <- eval_const_fx cenv c;
      after PTruth (if truthy cv then eval_const_fx cenv a else eval_const_fx cenv b)
  | EJoined ps => df s <- joined ps; pure (CVal (VStr s))
  | ECall f args kws =>
      match kws, args with
      | [], a :: r =>
          if is_nil r && tmem f safe_casts then df v <- eval_const_fx cenv a; doing (PCast f) (cast f v)
          else if is_nil r && text_eqb f n_len then df v <- eval_const_fx cenv a; len_step_fx v
          else if is_nil r && text_eqb f n_abs then df v <- eval_const_fx cenv a; abs_step_fx v
          else if text_eqb f n_max then after PMinMax (df v <- eval_const_fx cenv a; mm true v r)
          else if text_eqb f n_min then after PMinMax (df v <- eval_const_fx cenv a; mm false v r)
          else pure (CFail KValue)
      | _, _ => pure (CFail KValue)
      end
  | EList es => df vs <- evals es; pure (CVal (VList vs))
  | ETuple es => df vs <- evals es; pure (CVal (VTuple vs))
  | EFmt _ _ | EMethod _ _ _ _ | ESubscript _ _ | EOther _ => pure (CFail KValue)
  end.

(* which primitives are on the whitelist of the current source *)
Definition allowed (p : prim) : Prop :=
  match p with
  | PArith op => in_bin op = true              (* an operator of _BIN *)
  | PCast f => In f safe_casts                 (* a key of _SAFE_CASTS *)
  | _ => True
  end.

(* a node [ev] rejects at once: no sub-evaluation, no primitive *)
Definition unsupported_head (e : pexpr) : bool :=
  match e with
  | EConstOther | EFmt _ _ | EMethod _ _ _ _ | ESubscript _ _ | EOther _ => true
  | EBin op _ _ => negb (in_bin op)
  | EUn op _ => negb (in_un op)
  | ECompare _ [] _ => true
  | ECall f args kws =>
      match kws, args with
      | [], _ :: r =>
          negb ((is_nil r && (tmem f safe_casts || text_eqb f n_len || text_eqb f n_abs))
                || text_eqb f n_max || text_eqb f n_min)
      | _, _ => true
      end
  | _ => false
  end.

(* ---- _expr_has_name ---- *)
Fixpoint has_name (e : pexpr) : bool :=
  let fix any (l : list pexpr) : bool := match l with [] => false | x :: r => has_name x || any r end in
  let fix anyk (l : list (ident * pexpr)) : bool :=
    match l with [] => false | (_, x) :: r => has_name x || anyk r end in
  match e with
  | EName x => negb (tmem x safe_name_references)
  | EBin _ a b => has_name a || has_name b
  | EUn _ a => has_name a
  | EBoolOp _ vs => any vs
  | ECompare l _ rs => has_name l || any rs
  | EIfExp c a b => has_name c || has_name a || has_name b
  | EJoined ps => any ps
  | EFmt ok v => negb ok || has_name v       (* a format spec is a sub-tree the wire form does not carry: conservative *)
  | ECall f args kws => negb (tmem f safe_name_references) || any args || anyk kws
  | EMethod o _ args kws => has_name o || any args || anyk kws
  | EList es | ETuple es => any es
  | ESubscript v i => has_name v || has_name i
  | EOther _ => true                         (* children unknown: conservative *)
  | EInt _ | EBool _ | EFloat _ | EStr _ | EConstOther => false
  end.

(* does the environment bind one of the names _expr_has_name does not count as a name? *)
Definition binds_safe_name (c : cenv) : bool :=
  existsb (fun x => match tlookup x c with Some _ => true | None => false end) safe_name_references.

(* ---- _literal_length (len(...) folded by _to_c_expr) ---- *)
Definition literal_length (c : cenv) (e : pexpr) : option Z :=
  match e with
  | EStr s => Some (Z.of_nat (length s))
  | EList es | ETuple es => Some (Z.of_nat (length es))       (* elements are not looked at *)
  | EName x =>
      match tlookup x c with
      | Some (Known (VStr s)) => Some (Z.of_nat (length s))
      | Some (Known (VList l)) | Some (Known (VTuple l)) => Some (Z.of_nat (length l))
      | _ => None
      end
  | _ => None
  end.

(* ---- the guard of the soundness theorem (each clause is forced by the proof) ---- *)
Definition qnormal (q : Q) : bool := (Qnum (Qred q) =? Qnum q) && Pos.eqb (Qden (Qred q)) (Qden q).
Definition is_minmax (f : ident) : bool := text_eqb f n_max || text_eqb f n_min.

Fixpoint in_guard (c : cenv) (e : pexpr) : bool :=
  let fix all (l : list pexpr) : bool := match l with [] => true | x :: r => in_guard c x && all r end in
  match e with
  | EUn _ a => in_guard c a
  | EBin _ a b => in_guard c a && in_guard c b
  | EBoolOp _ vs => all vs
  | ECompare l ops rs => Nat.eqb (length ops) (length rs) && in_guard c l && all rs   (* shape produced by ast.parse *)
  | EIfExp x a b => in_guard c x && in_guard c a && in_guard c b
  | EJoined ps => all ps
  | EFmt _ v => in_guard c v
  | ECall f args _ => negb (is_minmax f && is_nil (tl args) && negb (is_nil args)) && all args   (* no one-argument max/min *)
  | EList es | ETuple es => all es
  | _ => true
  end.

(* ---- call sites: what leaves them ---- *)
Inductive outcome (A : Type) : Type :=
| Folded (a : A)             (* a constant is baked into the IR *)
| Fallback                   (* the source text goes through _to_c_expr instead *)
| Raises (k : ckind)         (* the call site raises *)
| OutM.
Arguments Folded {A} a. Arguments Fallback {A}. Arguments Raises {A} k. Arguments OutM {A}.

(* try: value = _eval_const(..) except Exception: pass *)
Definition catch_all {A B} (r : cr A) (k : A -> outcome B) : outcome B :=
  match r with CVal a => k a | CFail _ => Fallback | COutOfModel => OutM end.

Definition resolve_numeric (c : cenv) (e : pexpr) : outcome Z :=     (* _resolve_numeric_arg, sleep(...) *)
  if has_name e then Fallback else
  catch_all (eval_const c e) (fun v =>
    match v with
    | VBool b => Folded (if b then 1 else 0) | VInt z => Folded z | VFloat q => Folded (qtrunc q)
    | _ => Fallback end).
(* sleep(e): ms = int(_eval_const(e)) inside try / except Exception - int() also accepts numeric strings *)
Definition resolve_sleep (c : cenv) (e : pexpr) : outcome Z :=
  if has_name e then Fallback else
  catch_all (eval_const c e) (fun v =>
    match cast n_int v with CVal (VInt z) => Folded z | COutOfModel => OutM | _ => Fallback end).
Definition resolve_float (c : cenv) (e : pexpr) : outcome Q :=       (* _resolve_float_arg *)
  if has_name e then Fallback else
  catch_all (eval_const c e) (fun v =>
    match v with
    | VBool b => Folded (if b then 1 else 0)%Q | VInt z => Folded (inject_Z z) | VFloat q => Folded q
    | _ => Fallback end).
Definition resolve_bool (c : cenv) (e : pexpr) : outcome bool :=     (* _resolve_bool_arg *)
  if has_name e then Fallback else
  catch_all (eval_const c e) (fun v =>
    match v with
    | VBool b => Folded b | VInt _ | VFloat _ => Folded (truthy v)
    | _ => Fallback end).
(* x = e : eval_or_expr stores the value or the marker; never raises because of the evaluator *)
Definition assign_binding (c : cenv) (e : pexpr) : outcome cbind :=
  match eval_const c e with CVal v => Folded (Known v) | CFail _ => Folded Marker | COutOfModel => OutM end.
(* lcd.glyph(slot, bitmap): every evaluator exception becomes ValueError *)
Fixpoint glyph_rows (l : list pval) : option (list Z) :=
  match l with
  | [] => Some []
  | v :: r =>
      match (match v with VInt z => Some z | VBool b => Some (if b then 1 else 0) | VFloat q => Some (qtrunc q) | _ => None end),
            glyph_rows r with
      | Some z, Some zs => Some (z :: zs) | _, _ => None end
  end.
Definition glyph_bitmap (c : cenv) (e : pexpr) : outcome (list Z) :=
  match eval_const c e with
  | CVal (VList l) | CVal (VTuple l) =>
      match glyph_rows l with
      | Some zs => if Nat.eqb (length zs) 8 then Folded zs else Raises KValue
      | None => Raises KValue end
  | CVal _ => Raises KValue
  | CFail _ => Raises KValue
  | COutOfModel => OutM
  end.

(* ---- size of a folded value; the tower 2 ** (2 ** n) ---- *)
Definition bits (v : pval) : Z := match v with VInt z => Z.log2 (Z.abs z) + 1 | VBool _ => 1 | _ => 0 end.
Definition tower (n : Z) : pexpr := EBin Pow (EInt 2) (EBin Pow (EInt 2) (EInt n)).

(* the arithmetic fragment: literals, names, operators, conditions - no call (int(<float>) / int(<str>) / len produce
   integers whose size the exact-rational floats and the strings of this model do not bound), no string, no list *)
Fixpoint arith_only (e : pexpr) : bool :=
  let fix all (l : list pexpr) : bool := match l with [] => true | x :: r => arith_only x && all r end in
  match e with
  | EInt _ | EBool _ | EName _ => true
  | EBin _ a b => arith_only a && arith_only b
  | EUn _ a => arith_only a
  | EBoolOp _ vs => all vs
  | ECompare l _ rs => arith_only l && all rs
  | EIfExp c a b => arith_only c && arith_only a && arith_only b
  | _ => false
  end.
(* the widest integer the expression can read: its literals and the bindings of its names *)
Fixpoint leaf_bits (c : cenv) (e : pexpr) : Z :=
  let fix mx (l : list pexpr) : Z := match l with [] => 0 | x :: r => Z.max (leaf_bits c x) (mx r) end in
  match e with
  | EInt z => bits (VInt z)
  | EName x => match tlookup x c with Some (Known v) => bits v | _ => 0 end
  | EBin _ a b => Z.max (leaf_bits c a) (leaf_bits c b)
  | EUn _ a => leaf_bits c a
  | EBoolOp _ vs => mx vs
  | ECompare l _ rs => Z.max (leaf_bits c l) (mx rs)
  | EIfExp x a b => Z.max (leaf_bits c x) (Z.max (leaf_bits c a) (leaf_bits c b))
  | _ => 0
  end.

(* sources of the non-ValueError kinds *)
Fixpoint mentions (test : pexpr -> bool) (e : pexpr) : bool :=
  let fix any (l : list pexpr) : bool := match l with [] => false | x :: r => mentions test x || any r end in
  test e ||
  match e with
  | EBin _ a b => mentions test a || mentions test b
  | EUn _ a => mentions test a
  | EBoolOp _ vs => any vs
  | ECompare l _ rs => mentions test l || any rs
  | EIfExp c a b => mentions test c || mentions test a || mentions test b
  | EJoined ps => any ps
  | EFmt _ v => mentions test v
  | ECall _ args _ => any args
  | EList es | ETuple es => any es
  | _ => false
  end.
Definition is_divlike (e : pexpr) : bool :=
  match e with EBin Div _ _ | EBin FloorDiv _ _ | EBin Mod _ _ | EBin Pow _ _ => true | _ => false end.
Definition is_type_source (e : pexpr) : bool :=
  match e with
  | EBin BitAnd _ _ | EBin BitOr _ _ | EBin BitXor _ _ | EBin LShift _ _ | EBin RShift _ _ | EBin MatMult _ _ => true
  | EUn USub _ | EUn UAdd _ => true
  | ECompare _ _ _ => true
  | ECall f _ _ => is_minmax f
  | _ => false end.
