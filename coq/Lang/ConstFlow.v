(* Function definitions on top of Lang/ConstEnv.v.

   Until the repair of the stale-fold findings this file also held a flow-sensitive GHOST environment that the
   (flow-insensitive) transpiler model was run against (cstep / flow_ok): each branch from the snapshot with a private
   store, names written in a block unknown afterwards, loop bodies processed with the names they write already unknown.
   The repaired transpiler does exactly that itself (ConstEnv.tstep), so the ghost and its guard are gone: the
   simulation theorem of ConstEnv (C03_env_fresh_partial) now covers what C03_flow_partial covered, and more.

   Function definitions (_parse_function): the body is parsed ONCE, at the def, in a copy of the module environment of
   that moment (tracked lists copied too) in which
     * every name the SCRIPT binds or mutates at more than one site (ctx["_rebound_names"], computed from the whole
       source before parsing starts) is unknown - the body runs at the calls, not at the def, and only a name with a
       single binding site still has at the call the value known at the def -, and
     * every parameter is bound to a run-time marker;
   it runs at the call, with the parameters bound to the argument values, in the module state of that later moment.
   What the body itself writes (parameters excepted) changes whenever the function is called: from the def on such a
   name is never known at module level again (ctx["_function_written"]: forgotten at the def and after every later
   module-level assignment - the parameter [vol] of ConstEnv.tstep).
   [tdef] / [firmware_call_outputs] / [python_call_outputs] model a module prefix, a def, the module statements between
   the def and a call, the call, and the module statements after it ([post]: they only matter through _rebound_names).
   No proofs in this file. *)
From Coq Require Import ZArith QArith List Bool.
From RV Require Import Base.Wire Base.Text Lang.PyAst Lang.PySem Gen.SafeCasts Lang.ConstEval Lang.ConstEnv.
Import ListNotations.
Open Scope Z_scope.

(* ------------------------------------------------------------------ *)
(* def f(ps): body   at module level after [prefix]; [mid] = the module statements between the def and the call;
   the call f(vals).  Function bodies here contain no calls; they may contain if / while / for. *)
Definition bind_params (ps : list ident) (vals : list pval) (rho : env) : env := combine ps vals ++ rho.

(* [n for n in write_sites if write_sites.count(n) > 1], as a set *)
Fixpoint dups (l : list ident) : list ident :=
  match l with [] => [] | x :: r => if tmem x r then x :: dups r else dups r end.
Definition minus (l ps : list ident) : list ident := filter (fun x => negb (tmem x ps)) l.
Definition rebound_names (prefix body mid post : list stmt) : list ident :=
  dups (writes_block prefix ++ writes_block body ++ writes_block mid ++ writes_block post).
Definition fn_written (ps : list ident) (body : list stmt) : list ident := minus (writes_block body) ps.

(* what the transpiler does: prefix; then the body in a private copy of the dict and of the tracked lists, with the
   rebound names forgotten and the parameters as markers (scope = "function": no volatile names inside the body);
   then mid in the parent dict, where the names the body writes are volatile from now on *)
Definition tdef (prefix : list stmt) (ps : list ident) (body mid post : list stmt)
  : option (list stmt * list stmt * list stmt) :=
  match tblock [] prefix [] [] with
  | Some (te, st, rp, _) =>
      match tblock [] body (mark_all ps (forget (rebound_names prefix body mid post) te)) st with
      | Some (_, _, rb, _) =>
          match tblock (fn_written ps body) mid (forget (fn_written ps body) te) st with
          | Some (_, _, rm, _) => Some (rp, rb, rm)
          | None => None end
      | None => None end
  | None => None end.

Definition run_call (pm body : list stmt) (ps : list ident) (vals : list pval) (orc : list nat)
  : option (list pval * list pval) :=
  match rblock pm orc [] with
  | Some (rho, out1, orc1) =>
      match rblock body orc1 (bind_params ps vals rho) with
      | Some (_, out2, _) => Some (out1, out2)
      | None => None end
  | None => None end.

(* (outputs of the module statements before the call, outputs of the call) *)
Definition python_call_outputs (prefix : list stmt) (ps : list ident) (body mid : list stmt) (vals : list pval) (orc : list nat) :=
  run_call (prefix ++ mid) body ps vals orc.
Definition firmware_call_outputs (prefix : list stmt) (ps : list ident) (body mid post : list stmt) (vals : list pval) (orc : list nat) :=
  match tdef prefix ps body mid post with
  | Some (rp, rb, rm) => run_call (rp ++ rm) rb ps vals orc
  | None => None end.

(* the guard: the simple-statement side conditions of ConstEnv (flags of the three blocks); no parameter is named like a
   builtin the evaluator interprets.  Nothing about which names the module re-assigns: the repaired transpiler does not
   fold those inside the body *)
Definition def_ok (prefix : list stmt) (ps : list ident) (body mid post : list stmt) : bool :=
  match tblock [] prefix [] [] with
  | Some (te, st, _, fp) =>
      match tblock [] body (mark_all ps (forget (rebound_names prefix body mid post) te)) st with
      | Some (_, _, _, fb) =>
          match tblock (fn_written ps body) mid (forget (fn_written ps body) te) st with
          | Some (_, _, _, fm) => fp && fb && fm && no_safe ps
          | None => false end
      | None => false end
  | None => false end.
