(* A finer guard for the constant environment of Lang/ConstEnv.v, and function definitions.

   ConstEnv.tblock is the transpiler: flow-insensitive, child dicts discarded, list objects shared.  Its ghost flag
   [is_fresh] excludes every program that writes a name with a known transpile-time value inside an if / while / for
   body - although such a write is harmless as long as no fold site reads the name afterwards, and although the
   sibling branches of an if / elif / else chain are parsed from a per-branch copy of the snapshot, so that a fold
   site in a LATER branch must not see what an EARLIER branch assigned.

   Here the transpiler is run in lockstep with a second, flow-sensitive environment (ge, gst) - the bindings a sound
   transpiler may rely on at this program point on EVERY path:
     * simple statements update it exactly like the transpiler updates its own (the same function tsimple);
     * every branch of an if starts from the ghost environment before the if, with a private store; after the if
       every name written in any branch is unknown;
     * a loop body is processed with every name the body writes (and the loop variable) already unknown, and they
       stay unknown after the loop.
   The flag of [cblock] says: at every fold site (len(name), flash_pattern(name), glyph rows) the transpiler baked in
   exactly what the flow-sensitive environment justifies (the same constant, or both left it to run time), and the
   simple-statement side conditions of ConstEnv hold for the ghost run.  [flow_ok] is that flag for a whole script.

   Function definitions (_parse_function): the body is parsed ONCE, at the def, in a copy of the module environment
   of that moment in which every parameter is bound to a run-time marker; it runs at the call, with the parameters
   bound to the argument values, in the module state of that later moment.  [cdef] / [firmware_call_outputs] /
   [python_call_outputs] model a module prefix, a def, the module statements between the def and a call, and the
   call.  No proofs in this file. *)
From Coq Require Import ZArith QArith List Bool.
From RV Require Import Base.Wire Base.Text Lang.PyAst Lang.PySem Gen.SafeCasts Lang.ConstEval Lang.ConstEnv.
Import ListNotations.
Open Scope Z_scope.

(* structural equality on the values a fold site bakes in (ints, bools, floats, flat lists / tuples of them) *)
Definition scalar_eqb (a b : pval) : bool :=
  match a, b with
  | VInt x, VInt y => Z.eqb x y
  | VBool x, VBool y => Bool.eqb x y
  | VFloat x, VFloat y => Z.eqb (Qnum x) (Qnum y) && Pos.eqb (Qden x) (Qden y)
  | _, _ => false
  end.
Fixpoint scalars_eqb (l m : list pval) : bool :=
  match l, m with
  | [], [] => true
  | a :: l', b :: m' => scalar_eqb a b && scalars_eqb l' m'
  | _, _ => false
  end.
Definition emit_eqb (a b : pval) : bool :=
  match a, b with
  | VList l, VList m => scalars_eqb l m
  | VTuple l, VTuple m => scalars_eqb l m
  | _, _ => scalar_eqb a b
  end.

(* the residuals of one simple statement on the two sides: the statement itself, or one baked-in constant *)
Definition same_res (r g : list stmt) : bool :=
  match r, g with
  | [SEmit a], [SEmit b] => emit_eqb a b
  | [SEmit _], _ => false
  | _, [SEmit _] => false
  | _, _ => true
  end.

Definition mark_all (ws : list ident) (te : tenv) : tenv := fold_right (fun x acc => (x, TMark) :: acc) te ws.

(* len(name) INSIDE a translated expression.  ConstEnv.tsimple keeps the right-hand side of an assignment / augmented
   assignment and the argument of append / remove symbolic (residual = the statement itself); the real translation
   (_to_c_expr) folds every len(name) sub-term of such an expression through the constant environment, exactly like
   the statement-level mon.write(len(name)).  Where the environment is right the two coincide (inside is_fresh it
   always is); for the flow guard each of these sub-terms is one more fold site: the transpiler's environment and the
   ghost environment must give it the same length, or both leave it to run time. *)
Fixpoint len_names (e : pexpr) : list ident :=
  let fix any (l : list pexpr) : list ident := match l with [] => [] | x :: r => len_names x ++ any r end in
  match e with
  | EBin _ a b => len_names a ++ len_names b
  | EUn _ a => len_names a
  | EBoolOp _ vs => any vs
  | ECompare l _ rs => len_names l ++ any rs
  | EIfExp c a b => len_names c ++ len_names a ++ len_names b
  | EJoined ps => any ps
  | EFmt _ v => len_names v
  | ECall f args _ =>
      (if text_eqb f n_len then match args with [EName x] => [x] | _ => [] end else []) ++ any args
  | EMethod o _ args _ => len_names o ++ any args
  | EList es | ETuple es => any es
  | ESubscript v i => len_names v ++ len_names i
  | _ => []
  end.
Definition optz_eqb (a b : option Z) : bool :=
  match a, b with Some x, Some y => Z.eqb x y | None, None => true | _, _ => false end.
Definition lens_agree (c1 c2 : cenv) (e : pexpr) : bool :=
  forallb (fun x => optz_eqb (literal_length c1 (EName x)) (literal_length c2 (EName x))) (len_names e).
Definition stmt_exprs (s : stmt) : list pexpr :=
  match s with SAssign _ e | SAppend _ e | SRemove _ e | SAug _ _ e => [e] | _ => [] end.

(* transpiler dict, transpiler store, residual, ghost dict, ghost store, flag *)
Definition fres := option (tenv * store * list stmt * tenv * store * bool).

Definition csimple (s : stmt) (te : tenv) (st : store) (ge : tenv) (gst : store) : fres :=
  match tsimple s te st with
  | Some (te1, st1, r1, _) =>
      match tsimple s ge gst with
      | Some (ge1, gst1, g1, gf) =>
          Some (te1, st1, r1, ge1, gst1,
                gf && forallb (lens_agree (view st te) (view gst ge)) (stmt_exprs s) && same_res r1 g1)
      | None => Some (te1, st1, r1, ge, gst, false)        (* accepted only because of a binding that may be stale *)
      end
  | None => None
  end.

Fixpoint cstep (s : stmt) (te : tenv) (st : store) (ge : tenv) (gst : store) {struct s} : fres :=
  let fix cblock (b : list stmt) (te : tenv) (st : store) (ge : tenv) (gst : store) {struct b} : fres :=
    match b with
    | [] => Some (te, st, [], ge, gst, true)
    | s :: r =>
        match cstep s te st ge gst with
        | Some (te1, st1, r1, ge1, gst1, f1) =>
            match cblock r te1 st1 ge1 gst1 with
            | Some (te2, st2, r2, ge2, gst2, f2) => Some (te2, st2, r1 ++ r2, ge2, gst2, f1 && f2)
            | None => None end
        | None => None end
    end in
  match s with
  | SIf body orelse =>
      match cblock body te st ge gst with
      | Some (te1, st1, r1, _, _, f1) =>
          match cblock orelse te st1 ge gst with            (* transpiler: the snapshot, but the shared store *)
          | Some (te2, st2, r2, _, _, f2) =>
              Some (promote (promote te te1 []) te2 [], st2, [SIf r1 r2], mark_all (writes s) ge, gst, f1 && f2)
          | None => None end
      | None => None end
  | SWhile body =>
      let gh := mark_all (writes s) ge in
      match cblock body te st gh gst with
      | Some (te1, st1, r1, _, _, f1) => Some (promote te te1 [], st1, [SWhile r1], gh, gst, f1)
      | None => None end
  | SFor x body =>
      let gh := mark_all (writes s) ge in
      match cblock body ((x, TMark) :: te) st gh gst with
      | Some (te1, st1, r1, _, _, f1) =>
          Some (promote te te1 [x], st1, [SFor x r1], gh, gst, f1 && negb (tmem x safe_name_references))
      | None => None end
  | _ => csimple s te st ge gst
  end.

Definition cblock := fix cblock (b : list stmt) (te : tenv) (st : store) (ge : tenv) (gst : store) {struct b} : fres :=
  match b with
  | [] => Some (te, st, [], ge, gst, true)
  | s :: r =>
      match cstep s te st ge gst with
      | Some (te1, st1, r1, ge1, gst1, f1) =>
          match cblock r te1 st1 ge1 gst1 with
          | Some (te2, st2, r2, ge2, gst2, f2) => Some (te2, st2, r1 ++ r2, ge2, gst2, f1 && f2)
          | None => None end
      | None => None end
  end.

Definition flow_ok (p : list stmt) : bool :=
  match cblock p [] [] [] [] with Some (_, _, _, _, _, f) => f | None => false end.

(* ------------------------------------------------------------------ *)
(* def f(ps): body   at module level after [prefix]; [mid] = the module statements between the def and the call;
   the call f(vals).  Function bodies here contain no calls; they may contain if / while / for. *)
Definition bind_params (ps : list ident) (vals : list pval) (rho : env) : env := combine ps vals ++ rho.

(* what the transpiler does: prefix, then the body in a copy of the dict with the parameters as markers (the list
   objects are shared: the store is threaded), then mid in the parent dict *)
Definition tdef (prefix : list stmt) (ps : list ident) (body mid : list stmt)
  : option (list stmt * list stmt * list stmt) :=
  match tblock prefix [] [] with
  | Some (te, st, rp, _) =>
      match tblock body (mark_all ps te) st with
      | Some (_, stb, rb, _) =>
          match tblock mid te stb with
          | Some (_, _, rm, _) => Some (rp, rb, rm)
          | None => None end
      | None => None end
  | None => None end.

Definition run_call (pm body : list stmt) (ps : list ident) (vals : list pval) (orc : list nat)
  : option (list pval * list pval) :=
  match rblock pm orc [] with
  | Some (rho, out1, orc1) =>
      match rblock body orc1 (bind_params ps vals rho) with
      | Some (_, out2, _) => Some (out1, out2)
      | None => None end
  | None => None end.

(* (outputs of the module statements before the call, outputs of the call) *)
Definition python_call_outputs (prefix : list stmt) (ps : list ident) (body mid : list stmt) (vals : list pval) (orc : list nat) :=
  run_call (prefix ++ mid) body ps vals orc.
Definition firmware_call_outputs (prefix : list stmt) (ps : list ident) (body mid : list stmt) (vals : list pval) (orc : list nat) :=
  match tdef prefix ps body mid with
  | Some (rp, rb, rm) => run_call (rp ++ rm) rb ps vals orc
  | None => None end.

(* the guard: the flow guard of prefix and mid; the body is justified by the bindings known at the def that no
   statement between the def and the call writes, the parameters being unknown; no parameter is named like a
   builtin the evaluator interprets *)
Definition def_ok (prefix : list stmt) (ps : list ident) (body mid : list stmt) : bool :=
  match cblock prefix [] [] [] [] with
  | Some (te, st, _, ge, gst, fp) =>
      match cblock body (mark_all ps te) st (mark_all (ps ++ writes_block mid) ge) gst with
      | Some (_, stb, _, _, _, fb) =>
          match cblock mid te stb ge gst with
          | Some (_, _, _, _, _, fm) => fp && fb && fm && no_safe ps
          | None => false end
      | None => false end
  | None => false end.
