(* The IR between parsing and emission, for the fold sites that bake a whole LIST into the firmware.

   parse() builds nodes; emit() prints them only after parsing is complete.  A node such as
   LedFlashPattern(pattern=...) holds a Python list OBJECT.  The constant environment holds list objects too, and the
   append / remove bookkeeping mutates those in place (Lang/ConstEnv.v: the store).  What the firmware gets is the
   contents of the node's object AT EMISSION TIME - the value "at that program point" only if nothing mutates the object
   after the node was built.

   The real parser (parser.py, RE_LED_FLASH_PATTERN branch) fills a fresh list  pattern_values  for every call, entry by
   entry: the node's object is reachable from nowhere else.  Here: the node heap [nheap], append-only.  [nstep false] is
   that parser; Proofs/ConstNodesP.v shows that resolving its nodes after the whole script has been parsed - against the
   FINAL store and the FINAL node heap - gives exactly the residual of ConstEnv.tblock, whose SEmit carries the list as
   it was when the call was parsed.  Hence every theorem about ConstEnv.firmware_outputs is a theorem about the two-phase
   pipeline [firmware_outputs_ir false].

   [nstep true] is the variant with a shortcut that hands the environment's own object to the node when no entry needs
   coercion (a list of plain ints): the node then aliases the tracked list, and a later append / remove in the same
   block changes what an EARLIER flash_pattern call bakes in.  It exists to show that the copy is forced.  (Since the
   repair of the stale-fold findings a nested block works on private copies of the tracked lists - as in
   ConstEnv.tstep: the child's store is dropped, the node heap is not -, so a mutation in a nested block no longer
   reaches an object of the enclosing scope; an alias node created INSIDE a nested block is resolved against the
   enclosing scope's object, which this hypothetical variant is not used for.)  Scripts without function definitions:
   the list [vol] of ConstEnv is empty.  No proofs in this file. *)
From Coq Require Import ZArith List Bool.
From RV Require Import Base.Wire Base.Text Lang.PyAst Lang.PySem Lang.ConstEval Lang.ConstEnv.
Import ListNotations.
Open Scope Z_scope.

Inductive pref := PNode (k : nat)     (* an object of the node heap: owned by the node *)
                | PEnv (l : nat).     (* a location of the constant environment's store *)
Inductive rnode :=
| RStmt (s : stmt)                    (* a residual statement that holds no list object *)
| RFlash (r : pref)                   (* LedFlashPattern(pattern = the object r) *)
| RIf (a b : list rnode)
| RWhile (a : list rnode)
| RFor (x : ident) (a : list rnode).
Definition nheap := list (list pval).
Definition nres := option (tenv * store * nheap * list rnode).

Definition is_plain_int (v : pval) : bool := match v with VInt _ => true | _ => false end.

Definition nsimple (alias : bool) (s : stmt) (te : tenv) (st : store) (nh : nheap) : nres :=
  match s with
  | SObs (OFlash x) =>
      match tlookup x te with
      | Some (TRef l) =>
          let cur := nth l st [] in
          if forallb is_num_entry cur then
            if alias && forallb is_plain_int cur then Some (te, st, nh, [RFlash (PEnv l)])
            else Some (te, st, nh ++ [cur], [RFlash (PNode (length nh))])
          else None
      | Some (TVal (VTuple cur)) =>
          if forallb is_num_entry cur then Some (te, st, nh ++ [cur], [RFlash (PNode (length nh))]) else None
      | _ => None
      end
  | _ => match tsimple s te st with
         | Some (te', st', r, _) => Some (te', st', nh, map RStmt r)
         | None => None end
  end.

Fixpoint nstep (alias : bool) (s : stmt) (te : tenv) (st : store) (nh : nheap) {struct s} : nres :=
  let fix nblock (b : list stmt) (te : tenv) (st : store) (nh : nheap) {struct b} : nres :=
    match b with
    | [] => Some (te, st, nh, [])
    | s :: r =>
        match nstep alias s te st nh with
        | Some (te1, st1, nh1, r1) =>
            match nblock r te1 st1 nh1 with
            | Some (te2, st2, nh2, r2) => Some (te2, st2, nh2, r1 ++ r2)
            | None => None end
        | None => None end
    end in
  match s with
  | SIf body orelse =>
      match nblock body te st nh with
      | Some (te1, _, nh1, r1) =>
          match nblock orelse te st nh1 with
          | Some (te2, _, nh2, r2) =>
              Some (forget (writes s) (promote (promote te te1 []) te2 []), st, nh2, [RIf r1 r2])
          | None => None end
      | None => None end
  | SWhile body =>
      let te0 := forget (writes s) te in
      match nblock body te0 st nh with
      | Some (te1, _, nh1, r1) => Some (promote te0 te1 [], st, nh1, [RWhile r1])
      | None => None end
  | SFor x body =>
      let te0 := forget (writes s) te in
      match nblock body ((x, TMark) :: te0) st nh with
      | Some (te1, _, nh1, r1) => Some (promote te0 te1 [x], st, nh1, [RFor x r1])
      | None => None end
  | _ => nsimple alias s te st nh
  end.

Definition nblock (alias : bool) := fix nblock (b : list stmt) (te : tenv) (st : store) (nh : nheap) {struct b} : nres :=
  match b with
  | [] => Some (te, st, nh, [])
  | s :: r =>
      match nstep alias s te st nh with
      | Some (te1, st1, nh1, r1) =>
          match nblock r te1 st1 nh1 with
          | Some (te2, st2, nh2, r2) => Some (te2, st2, nh2, r1 ++ r2)
          | None => None end
      | None => None end
  end.

(* emission: every node is printed with the contents its object has NOW *)
Fixpoint resolve (st : store) (nh : nheap) (n : rnode) : stmt :=
  let fix rs (l : list rnode) : list stmt := match l with [] => [] | x :: r => resolve st nh x :: rs r end in
  match n with
  | RStmt s => s
  | RFlash (PNode k) => SEmit (VList (nth k nh []))
  | RFlash (PEnv l) => SEmit (VList (nth l st []))
  | RIf a b => SIf (rs a) (rs b)
  | RWhile a => SWhile (rs a)
  | RFor x a => SFor x (rs a)
  end.
Definition resolve_block (st : store) (nh : nheap) := fix rs (l : list rnode) : list stmt :=
  match l with [] => [] | x :: r => resolve st nh x :: rs r end.

(* parse the whole script, then emit, then run *)
Definition emitted (alias : bool) (p : list stmt) : option (list stmt) :=
  match nblock alias p [] [] [] with
  | Some (_, st, nh, r) => Some (resolve_block st nh r)
  | None => None end.
Definition firmware_outputs_ir (alias : bool) (p : list stmt) (orc : list nat) : option (list pval) :=
  match emitted alias p with
  | Some res => match rblock res orc [] with Some (_, out, _) => Some out | None => None end
  | None => None end.

(* pat = [1, 0, 1]; flash_pattern(pat); pat.append(0); pat.append(128); flash_pattern(pat); pat.remove(1); flash_pattern(pat) *)
Definition n_pt : ident := [112;97;116].
Definition w_flash_mut : list stmt :=
  [ SAssign n_pt (EList [EInt 1; EInt 0; EInt 1]); SObs (OFlash n_pt);
    SAppend n_pt (EInt 0); SAppend n_pt (EInt 128); SObs (OFlash n_pt);
    SRemove n_pt (EInt 1); SObs (OFlash n_pt) ].
(* the mutation sits in a branch that is not taken *)
Definition w_flash_branch : list stmt :=
  [ SAssign n_pt (EList [EInt 255; EInt 0]); SObs (OFlash n_pt); SIf [SAppend n_pt (EInt 255)] [] ].
