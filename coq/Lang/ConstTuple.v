(* Tuple assignment  x1, ..., xn = e1, ..., en  (parser.py: _handle_assignment_ast, the ast.Tuple / ast.List branch).

   Python evaluates the whole right-hand side, left to right, BEFORE any target is rebound, then binds the targets left
   to right.  The transpiler does the same on both of its levels:
     * the emitted code evaluates every right-hand side into a temporary  __tmp_assign_k = e_k  (in order), then
       assigns / declares the targets from the temporaries;
     * the constant environment is consulted for every right-hand side first (right_data = [eval_or_expr(elt) ...],
       evaluated_values) and only then updated, target by target (vars_env[name] = evaluated_values[idx]).
   In the statement language of Lang/ConstEnv.v this is exactly the block [tuple_assign]: n single assignments to the
   temporaries followed by n single assignments from them - the constant environment of the model treats a temporary
   like any other name, so that  x_k = __tmp_assign_k  gives x_k the value (or the run-time marker) found for e_k in the
   environment of BEFORE the statement.  Proofs/ConstTupleP.v shows that this block is Python's simultaneous assignment
   (for every environment, every arity, any overlap between targets and right-hand sides) as long as the temporaries are
   names the script does not use.

   [tuple_sequential] is the variant that updates target by target while the right-hand side is still being evaluated
   (x1 = e1; x2 = e2; ...): it exists to show that evaluating everything first is forced.

   Where all targets are new at module level the real transpiler declares the names one by one without temporaries
   (no right-hand side can read a target that does not exist yet); the harness sends those as single assignments.
   No proofs in this file. *)
From Coq Require Import ZArith List Bool.
From RV Require Import Base.Wire Base.Text Lang.PyAst Lang.PySem Lang.ConstEval Lang.ConstEnv.
Import ListNotations.
Open Scope Z_scope.

(* "__tmp_assign_" *)
Definition tmp_prefix : text := [95;95;116;109;112;95;97;115;115;105;103;110;95].
Definition tmp_name (k : nat) : ident := tmp_prefix ++ z_digits (Z.of_nat k).
Fixpoint tmp_names (k n : nat) : list ident :=
  match n with O => [] | S m => tmp_name k :: tmp_names (S k) m end.

Fixpoint assign_all (xs : list ident) (es : list pexpr) : list stmt :=
  match xs, es with
  | x :: xr, e :: er => SAssign x e :: assign_all xr er
  | _, _ => []
  end.

Definition tuple_assign_with (ts xs : list ident) (es : list pexpr) : list stmt :=
  assign_all ts es ++ assign_all xs (map EName ts).
Definition tuple_assign (k : nat) (xs : list ident) (es : list pexpr) : list stmt :=
  tuple_assign_with (tmp_names k (length xs)) xs es.
Definition tuple_sequential (xs : list ident) (es : list pexpr) : list stmt := assign_all xs es.

(* ---- Python's meaning of the statement (reference) ---- *)
Fixpoint peval_all (rho : env) (es : list pexpr) : option (list pval) :=
  match es with
  | [] => Some []
  | e :: r => match peval rho e, peval_all rho r with Ok v, Some vs => Some (v :: vs) | _, _ => None end
  end.
Fixpoint bind_all (xs : list ident) (vs : list pval) (rho : env) : env :=
  match xs, vs with
  | x :: xr, v :: vr => bind_all xr vr ((x, v) :: rho)
  | _, _ => rho
  end.
(* defined iff every right-hand side has a value and the arities agree *)
Definition py_tuple_assign (xs : list ident) (es : list pexpr) (rho : env) : option env :=
  match peval_all rho es with
  | Some vs => if Nat.eqb (length xs) (length vs) then Some (bind_all xs vs rho) else None
  | None => None
  end.

(* ---- may evaluating e look the name t up? (peval consults the environment for names and for called functions) ---- *)
Fixpoint reads (t : ident) (e : pexpr) : bool :=
  let fix any (l : list pexpr) : bool := match l with [] => false | x :: r => reads t x || any r end in
  match e with
  | EName x => text_eqb t x
  | EBin _ a b => reads t a || reads t b
  | EUn _ a => reads t a
  | EBoolOp _ vs => any vs
  | ECompare l _ rs => reads t l || any rs
  | EIfExp c a b => reads t c || reads t a || reads t b
  | EJoined ps => any ps
  | EFmt _ v => reads t v
  | ECall f args _ => text_eqb t f || any args
  | EList es | ETuple es => any es
  | ESubscript v i => reads t v || reads t i
  | _ => false              (* literals; EMethod / EOther have no value in any environment *)
  end.

Fixpoint nodupb (l : list ident) : bool :=
  match l with [] => true | x :: r => negb (tmem x r) && nodupb r end.
(* the temporaries are distinct names the statement itself does not use *)
Definition tmps_fresh (ts xs : list ident) (es : list pexpr) : bool :=
  nodupb ts && forallb (fun t => negb (tmem t xs) && forallb (fun e => negb (reads t e)) es) ts.

(* ---- witnesses ---- *)
Definition n_ta : ident := [97].      (* a *)
Definition n_tb : ident := [98].      (* b *)
Definition n_tc : ident := [99].      (* c *)
(* a = 'go'; b = 'steady'; a, b = b, a; len(a); len(b) *)
Definition w_swap (swap : list stmt) : list stmt :=
  [SAssign n_ta (EStr [103;111]); SAssign n_tb (EStr [115;116;101;97;100;121])] ++ swap ++ [SObs (OLen n_ta); SObs (OLen n_tb)].
(* a = 4; b = 17; c = 9; a, b, c = c, a, b; glyph [a, b, c, 0, 0, 0, 0, 0] *)
Definition w_rot (rot : list stmt) : list stmt :=
  [SAssign n_ta (EInt 4); SAssign n_tb (EInt 17); SAssign n_tc (EInt 9)] ++ rot ++
  [SObs (OGlyph (EList [EName n_ta; EName n_tb; EName n_tc; EInt 0; EInt 0; EInt 0; EInt 0; EInt 0]))].
