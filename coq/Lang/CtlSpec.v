(* Demo / witness programs of the control-flow declaration theorems of C02 (definitions only). *)
From Coq Require Import ZArith QArith List Bool.
From RV Require Import Base.Wire Base.Text Lang.PyAst Lang.PySem Lang.Infer Lang.InferGuard Lang.InferSpec
  Lang.InferComp Lang.Decl Lang.DeclSpec Lang.FnSpec Lang.StmtRef.
Import ListNotations.
Open Scope Z_scope.

Definition w_a : ident := [97].
Definition w_b : ident := [98].
Definition w_i : ident := [105].
Definition w_k : ident := [107].
Definition w_r : ident := [114].
Definition w_w : ident := [119].
Definition w_x : ident := [120].
Definition w_y : ident := [121].
Definition w_z : ident := [122].
Definition w_p : ident := [112].
Definition w_q : ident := [113].
Definition w_n : ident := [110].
Definition w_out : ident := [111;117;116].

Definition blk (l : list stmt) : block := block_of l.
Definition if1 (b : list stmt) : stmt := SIf (BrCons (blk b) BrNil) ONone.
Definition ife (b1 b2 : list stmt) : stmt := SIf (BrCons (blk b1) BrNil) (OSome (blk b2)).

(* a = 3
   if ..: x = a * 2.5  else: x = 0.5
   k = 0
   while ..: y = x + k ; k = k + 1
   for i in range(..): z = i * 2
   while True:
       r = a + 1
       if ..: w = r * 0.5 *)
Definition demo_pre : list stmt :=
  [SAssign w_a (EInt 3);
   ife [SAssign w_x (EBin Mult (EName w_a) (EFloat (5 # 2)))] [SAssign w_x (EFloat (1 # 2))];
   SAssign w_k (EInt 0);
   SWhile (blk [SAssign w_y (EBin Add (EName w_x) (EName w_k)); SAssign w_k (EBin Add (EName w_k) (EInt 1))]);
   SFor w_i (blk [SAssign w_z (EBin Mult (EName w_i) (EInt 2))])].
Definition demo_main : block :=
  blk [SAssign w_r (EBin Add (EName w_a) (EInt 1)); if1 [SAssign w_w (EBin Mult (EName w_r) (EFloat (1 # 2)))]].
(* the if takes its first branch, the while runs twice, range(2), two passes of the main loop: the inner if once taken, once not *)
Definition demo_oracle : list nat := [0; 2; 2; 2; 0; 1]%nat.

(* ---- the boundary: scripts the guard excludes (each is a refutation witness) ---- *)
Definition first_assign_script : list stmt := [SAssign w_a (EInt 1); SAssign w_a (EFloat (5 # 2))].
Definition aug_script : list stmt := [SAssign w_a (EInt 1); SAug w_a Add (EFloat (1 # 2))].
Definition branch_script : list stmt := [ife [SAssign w_a (EInt 1)] [SAssign w_a (EFloat (5 # 2))]].
(* a = 2.5 ; a = 1 ; k = 0 ; while ..: b = a ; a = a + 0.5 ; k = k + 1 *)
Definition flow_script : list stmt :=
  [SAssign w_a (EFloat (5 # 2)); SAssign w_a (EInt 1); SAssign w_k (EInt 0);
   SWhile (blk [SAssign w_b (EName w_a); SAssign w_a (EBin Add (EName w_a) (EFloat (1 # 2)));
                SAssign w_k (EBin Add (EName w_k) (EInt 1))])].
(* k = 0 ; while ..: (if ..: b = z) ; z = 2.5 ; k = k + 1     z is read (in text order) before the line that types it *)
Definition early_read_script : list stmt :=
  [SAssign w_k (EInt 0);
   SWhile (blk [if1 [SAssign w_b (EName w_z)]; SAssign w_z (EFloat (5 # 2));
                SAssign w_k (EBin Add (EName w_k) (EInt 1))])].
(* two passes; the if is skipped in the first and taken in the second *)
Definition early_read_oracle : list nat := [2; 1; 0]%nat.

(* ---- function bodies ---- *)
(* def f(p, q):
       w = p * 2
       if ..: return w
       for i in range(..):
           if ..: return q + 0.5
           w = w + i
       return w                       called as f(3, 0.5) *)
Definition fbody : block :=
  blk [SAssign w_w (EBin Mult (EName w_p) (EInt 2));
       if1 [SReturn (Some (EName w_w))];
       SFor w_i (blk [if1 [SReturn (Some (EBin Add (EName w_q) (EFloat (1 # 2))))];
                      SAssign w_w (EBin Add (EName w_w) (EName w_i))]);
       SReturn (Some (EName w_w))].
Definition fparams : list (ident * option text) := [(w_p, None); (w_q, None)].
Definition fsig : list ty := [TInt; TFloat].
Definition frho : env := [(w_p, VInt 3); (w_q, VFloat (1 # 2))].
(* if not taken; range(2): first pass inner if not taken, second pass taken *)
Definition foracle : list nat := [1; 2; 1; 0]%nat.

(* the body of g in C02_loop_hoist_stale_table_refuted, parsed while the shared promotion table says  out -> int *)
Definition gbody : block :=
  blk [SAssign w_k (EInt 0);
       SWhile (blk [SAssign w_out (EBin Mult (EName w_p) (EFloat (1 # 2))); SAssign w_k (EBin Add (EName w_k) (EInt 1))]);
       SReturn (Some (EName w_out))].
Definition stale_cur : dctx := mk_dctx [] [] (Some [(w_out, CInt)]).
Definition fresh_cur : dctx := mk_dctx [] [] None.
(* def f(p): q = p * 2 ; p = 1 ; return q   (C02_param_relabel_refuted) *)
Definition relabel_body : block :=
  blk [SAssign w_q (EBin Mult (EName w_p) (EInt 2)); SAssign w_p (EInt 1); SReturn (Some (EName w_q))].

(* a, b = 1, 2.5          two new globals, no temporaries
   a, x = a + 1, b * 2    an old and a new name: two temporaries
   while ..: b, x = x, b  a swap inside a block: two temporaries *)
Definition demo_tuple_pre : list stmt :=
  [STuple [w_a; w_b] [EInt 1; EFloat (5 # 2)];
   STuple [w_a; w_x] [EBin Add (EName w_a) (EInt 1); EBin Mult (EName w_b) (EInt 2)];
   SWhile (blk [STuple [w_b; w_x] [EName w_x; EName w_b]])].

(* def ident(p): return p
   def twice(p): return ident(p) + ident(p)        a helper calling an earlier helper
   x = 2.5 ; a = twice(x) ; b = twice(3) *)
Definition n_ident : ident := [105;100].
Definition n_twice : ident := [116;119].
Definition hh_prog : list item :=
  [IDef n_ident (mk_fsrc [(w_p, None)] None (blk [SReturn (Some (EName w_p))]));
   IDef n_twice (mk_fsrc [(w_p, None)] None
     (blk [SReturn (Some (EBin Add (ECall n_ident [EName w_p] []) (ECall n_ident [EName w_p] [])))]));
   IStmt (SAssign w_x (EFloat (5 # 2)));
   IStmt (SAssign w_a (ECall n_twice [EName w_x] []));
   IStmt (SAssign w_b (ECall n_twice [EInt 3] []))].

(* narrower into wider: a = 2.5 ; a = 1 ; a = 3.5 ; b = 3 ; if ..: a = b ; a = 0.5 ; x = a * 2
   a is declared float; it receives ints (at column 0 and inside a branch) and is only read while its label is float *)
Definition narrow_pre : list stmt :=
  [SAssign w_a (EFloat (5 # 2)); SAssign w_a (EInt 1); SAssign w_a (EFloat (7 # 2)); SAssign w_b (EInt 3);
   if1 [SAssign w_a (EName w_b)]; SAssign w_a (EFloat (1 # 2)); SAssign w_x (EBin Mult (EName w_a) (EInt 2))].
(* the same, but a is read while its label is int: a = 2.5 ; a = 1 ; x = a *)
Definition narrow_read_pre : list stmt :=
  [SAssign w_a (EFloat (5 # 2)); SAssign w_a (EInt 1); SAssign w_x (EName w_a)].
