(* Statement-level model of the declaration bookkeeping of transpile/parser.py (property C02):
   _handle_assignment_ast (single-name assignment and augmented assignment: the FIRST
   assignment fixes the C type, later ones only overwrite var_types), the child contexts
   of if / while / for bodies, _promote_branch_decls / _make_promotion_decls (including the
   shared-by-reference dictionary ctx["_promotion_cpp_types"], which is why a stale entry can
   type a later hoisted variable), return-type collection, _parse_function /
   _ensure_function_variant / the final selection of emitted function variants.
   Conditions, loop bounds and expression statements have no typing effect and are not
   part of the syntax.  Faithful to the code including its defects. *)
From Coq Require Import ZArith QArith List Bool.
From RV Require Import Base.Wire Base.Text Lang.PyAst Lang.PySem Lang.Infer Lang.InferGuard Lang.InferComp.
Import ListNotations.
Open Scope Z_scope.

Inductive stmt : Type :=
| SAssign (x : ident) (e : pexpr)                  (* x = e *)
| SAug (x : ident) (op : binop) (e : pexpr)        (* x op= e *)
| SIf (brs : branches) (els : oblock)              (* if / elif* / else? *)
| SWhile (body : block)
| SFor (i : ident) (body : block)                  (* for i in range(n) *)
| SReturn (e : option pexpr)
| SAssignR (x : ident) (r : rhs)                   (* x = [elt for t in range(n)]  (Lang/InferComp.v) *)
| STuple (xs : list ident) (es : list pexpr)       (* x1, x2, ... = e1, e2, ...  (names on the left, a tuple/list display on the right) *)
with block : Type := BNil | BCons (s : stmt) (r : block)
with branches : Type := BrNil | BrCons (b : block) (r : branches)
with oblock : Type := ONone | OSome (b : block).

Fixpoint block_of (l : list stmt) : block :=
  match l with [] => BNil | s :: r => BCons s (block_of r) end.

(* ---- one parsing context (the typing part of the ctx dict) ---- *)
Definition pmap := list (ident * cty).           (* _promotion_cpp_types *)
Record dctx := mk_dctx {
  d_types : tenv;                                (* var_types *)
  d_decl : list ident;                           (* var_declared, in order of insertion *)
  d_promo : option pmap                          (* None: the key does not exist in this dict *)
}.

(* what flows through child contexts by reference: all inferred labels in program order,
   the current function's return labels, whether we are inside a function *)
Record acc := mk_acc { a_labels : list (ident * ty); a_rets : list ty; a_fn : bool }.

Record bstate := mk_bstate {
  st_ctx : dctx;
  st_decls : list (ident * cty);                 (* VarDecls emitted at this block's own level *)
  st_acc : acc
}.

Fixpoint pset (D : pmap) (x : ident) (c : cty) : pmap :=
  match D with
  | [] => [(x, c)]
  | (k, v) :: r => if text_eqb x k then (k, c) :: r else (k, v) :: pset r x c
  end.
Definition add_name (l : list ident) (x : ident) : list ident := if tmem x l then l else l ++ [x].

(* a child made by dict(ctx) shares the promotion dict only if the parent already has one;
   a dict the child creates for itself is lost *)
Definition share_back (parent child_final : option pmap) : option pmap :=
  match parent with Some _ => child_final | None => None end.

(* names a child declared beyond its base, in order *)
Definition new_names (base : list ident) (child : dctx) : list ident :=
  filter (fun x => negb (tmem x base)) (d_decl child).

(* _promote_branch_decls: first branch (in order) that declares a name fixes its label,
   read from that branch's var_types AT THE END of the branch *)
Fixpoint promote_collect (base : list ident) (children : list dctx) (seen : list (ident * ty))
  : list (ident * ty) :=
  match children with
  | [] => seen
  | c :: r =>
      let add := fold_left (fun acc0 x => if tmem x (map fst acc0) then acc0 else acc0 ++ [(x, tget (d_types c) x)])
                           (new_names base c) seen in
      promote_collect base r add
  end.

Section Block.
  Variable S : Type.
  (* the user-function step of _infer_expr_type, given the current var_declared *)
  Variable call : list ident -> (S * option pmap) -> tenv -> ident -> list ty -> (S * option pmap) * option ty.
  Variable C : option ictx.

  Definition infer_d (s : S) (c : dctx) (e : pexpr) : option (ty * dctx * S) :=
    match infer (S * option pmap) (call (d_decl c)) C (s, d_promo c) (d_types c) e with
    | None => None
    | Some (t, G1, (s1, p1)) => Some (t, mk_dctx G1 (d_decl c) p1, s1)
    end.

  Definition add_label (a : acc) (x : ident) (t : ty) : acc :=
    mk_acc (a_labels a ++ [(x, t)]) (a_rets a) (a_fn a).

  (* lines 1854-1928 *)
  Definition do_assign (s : S) (st : bstate) (x : ident) (e : pexpr) : option (S * bstate) :=
    match infer_d s (st_ctx st) e with
    | None => None
    | Some (t, c1, s1) =>
        let existing := tlookup x (d_types c1) in
        let is_declared := tmem x (d_decl c1) in
        let clash :=
          match existing with
          | Some (TList oe) => is_declared && (negb (is_list_ty t) || negb (ty_eqb oe (list_elem t)))
          | _ => false
          end in
        if clash then None                      (* ValueError: non-list to list variable / element types *)
        else
          let c2 := mk_dctx (tset (d_types c1) x t) (d_decl c1) (d_promo c1) in
          if is_declared then Some (s1, mk_bstate c2 (st_decls st) (add_label (st_acc st) x t))
          else Some (s1, mk_bstate (mk_dctx (d_types c2) (d_decl c2 ++ [x]) (d_promo c2))
                                   (st_decls st ++ [(x, cpp_type t)]) (add_label (st_acc st) x t))
    end.

  (* the same with a comprehension on the right: _to_c_expr and _infer_expr_type both bracket the target
     (set "int", work on the element, restore); their net effect on var_types is the one of [infer_rhs] *)
  Definition infer_rd (s : S) (c : dctx) (r : rhs) : option (ty * dctx * S) :=
    match infer_rhs (S * option pmap) (call (d_decl c)) C (s, d_promo c) (d_types c) r with
    | None => None
    | Some (t, G1, (s1, p1)) => Some (t, mk_dctx G1 (d_decl c) p1, s1)
    end.
  Definition do_assign_r (s : S) (st : bstate) (x : ident) (r : rhs) : option (S * bstate) :=
    match infer_rd s (st_ctx st) r with
    | None => None
    | Some (t, c1, s1) =>
        let existing := tlookup x (d_types c1) in
        let is_declared := tmem x (d_decl c1) in
        let clash :=
          match existing with
          | Some (TList oe) => is_declared && (negb (is_list_ty t) || negb (ty_eqb oe (list_elem t)))
          | _ => false
          end in
        if clash then None
        else
          let c2 := mk_dctx (tset (d_types c1) x t) (d_decl c1) (d_promo c1) in
          if is_declared then Some (s1, mk_bstate c2 (st_decls st) (add_label (st_acc st) x t))
          else Some (s1, mk_bstate (mk_dctx (d_types c2) (d_decl c2 ++ [x]) (d_promo c2))
                                   (st_decls st ++ [(x, cpp_type t)]) (add_label (st_acc st) x t))
    end.

  (* tuple assignment (the Tuple/List target branch of _handle_assignment_ast).  The right-hand sides are inferred left to
     right (threading var_types), then var_types[x_i] = t_i for every target.  At column 0 with every target new the names
     become globals directly; otherwise every value goes through a temporary `__tmp_assign_k` declared with the C type
     of its label - recorded in [a_labels] under [tmp_marker] (a text no identifier has) - and a target is declared
     iff it is not declared yet.  Fewer values than names: the code raises IndexError (rejected). *)
  Fixpoint infer_ds (s : S) (c : dctx) (es : list pexpr) : option (list ty * dctx * S) :=
    match es with
    | [] => Some ([], c, s)
    | e :: r =>
        match infer_d s c e with
        | None => None
        | Some (t, c1, s1) =>
            match infer_ds s1 c1 r with
            | None => None
            | Some (ts, c2, s2) => Some (t :: ts, c2, s2)
            end
        end
    end.
  Definition tmp_marker : ident := [35;116;109;112].         (* "#tmp" *)
  Definition do_tuple (glob : bool) (s : S) (st : bstate) (xs : list ident) (es : list pexpr) : option (S * bstate) :=
    let es1 := firstn (length xs) es in
    if Nat.ltb (length es1) (length xs) then None else
    match infer_ds s (st_ctx st) es1 with
    | None => None
    | Some (ts, c1, s1) =>
        let xts := combine xs ts in
        let types1 := fold_left (fun G xt => tset G (fst xt) (snd xt)) xts (d_types c1) in
        let all_new := forallb (fun x => negb (tmem x (d_decl c1))) xs in
        let a0 := st_acc st in
        if all_new && glob then
          Some (s1, mk_bstate (mk_dctx types1 (fold_left add_name xs (d_decl c1)) (d_promo c1))
                              (st_decls st ++ map (fun xt => (fst xt, cpp_type (snd xt))) xts)
                              (mk_acc (a_labels a0 ++ xts) (a_rets a0) (a_fn a0)))
        else
          let step := fun (acc0 : list ident * list (ident * cty)) (xt : ident * ty) =>
                        if tmem (fst xt) (fst acc0) then acc0
                        else (fst acc0 ++ [fst xt], snd acc0 ++ [(fst xt, cpp_type (snd xt))]) in
          let '(decl2, newdecls) := fold_left step xts (d_decl c1, []) in
          Some (s1, mk_bstate (mk_dctx types1 decl2 (d_promo c1))
                              (st_decls st ++ newdecls)
                              (mk_acc (a_labels a0 ++ map (fun t => (tmp_marker, t)) ts ++ xts) (a_rets a0) (a_fn a0)))
    end.

  (* lines 1828-1852: never declares *)
  Definition do_aug (s : S) (st : bstate) (x : ident) (op : binop) (e : pexpr) : option (S * bstate) :=
    match op with
    | MatMult => Some (s, st)                    (* not in _BIN: the handler gives up, the line is dropped *)
    | _ =>
      match infer_d s (st_ctx st) (EBin op (EName x) e) with
      | None => None
      | Some (t, c1, s1) =>
          Some (s1, mk_bstate (mk_dctx (tset (d_types c1) x t) (d_decl c1) (d_promo c1))
                              (st_decls st) (add_label (st_acc st) x t))
      end
    end.

  Definition do_return (s : S) (st : bstate) (e : option pexpr) : option (S * bstate) :=
    if negb (a_fn (st_acc st)) then None          (* 'return' outside of a function *)
    else match e with
    | None => Some (s, st)                         (* func_meta.setdefault("has_void", True): the key exists, nothing changes *)
    | Some ex =>
        match infer_d s (st_ctx st) ex with
        | None => None
        | Some (t, c1, s1) =>
            Some (s1, mk_bstate c1 (st_decls st)
                                (mk_acc (a_labels (st_acc st)) (a_rets (st_acc st) ++ [t]) (a_fn (st_acc st))))
        end
    end.

  (* _make_promotion_decls after a loop: the declared C type is read from the promotion dict
     first (stale entries win), else from var_types *)
  Definition loop_promote (base : dctx) (child : dctx) (basenames : list ident) (st : bstate) (a : acc) : bstate :=
    let promoted := new_names basenames child in
    let shared := share_back (d_promo base) (d_promo child) in
    match promoted with
    | [] => mk_bstate (mk_dctx (d_types base) (d_decl base) shared) (st_decls st) a
    | _ =>
        let types1 := fold_left (fun G x => tset G x (tget (d_types child) x)) promoted (d_types base) in
        let D := match shared with Some d => d | None => [] end in
        let decls := map (fun x => (x, match tlookup x D with
                                       | Some c => c
                                       | None => cpp_type (tget types1 x) end)) promoted in
        mk_bstate (mk_dctx types1 (fold_left add_name promoted (d_decl base)) (Some D))
                  (st_decls st ++ decls) a
    end.

  Fixpoint run_stmt (s : S) (st : bstate) (x : stmt) {struct x} : option (S * bstate) :=
    match x with
    | SAssign v e => do_assign s st v e
    | SAug v op e => do_aug s st v op e
    | SReturn e => do_return s st e
    | SAssignR v r => do_assign_r s st v r
    | STuple xs es => do_tuple false s st xs es
    | SIf brs els =>
        let base := st_ctx st in
        match run_branches s base (d_promo base) (st_acc st) brs with
        | None => None
        | Some (s1, kids, p1, a1) =>
            let after_else :=
              match els with
              | ONone => Some (s1, kids, p1, a1)
              | OSome b =>
                  match run_block s1 (mk_bstate (mk_dctx (d_types base) (d_decl base) p1) [] a1) b with
                  | None => None
                  | Some (s2, stc) =>
                      Some (s2, kids ++ [st_ctx stc], share_back (d_promo base) (d_promo (st_ctx stc)), st_acc stc)
                  end
              end in
            match after_else with
            | None => None
            | Some (s2, kids2, p2, a2) =>
                let order := promote_collect (d_decl base) kids2 [] in
                match order with
                | [] => Some (s2, mk_bstate (mk_dctx (d_types base) (d_decl base) p2) (st_decls st) a2)
                | _ =>
                    let D0 := match p2 with Some d => d | None => [] end in
                    let types1 := fold_left (fun G xt => tset G (fst xt) (snd xt)) order (d_types base) in
                    let D1 := fold_left (fun D xt => pset D (fst xt) (cpp_type (snd xt))) order D0 in
                    let decls := map (fun xt => (fst xt, cpp_type (snd xt))) order in
                    Some (s2, mk_bstate (mk_dctx types1 (fold_left add_name (map fst order) (d_decl base)) (Some D1))
                                        (st_decls st ++ decls) a2)
                end
            end
        end
    | SWhile body =>
        let base := st_ctx st in
        match run_block s (mk_bstate (mk_dctx (d_types base) (d_decl base) (d_promo base)) [] (st_acc st)) body with
        | None => None
        | Some (s1, stc) => Some (s1, loop_promote base (st_ctx stc) (d_decl base) st (st_acc stc))
        end
    | SFor i body =>
        let base := st_ctx st in
        let basenames := add_name (d_decl base) i in
        match run_block s (mk_bstate (mk_dctx (tset (d_types base) i TInt) basenames (d_promo base)) [] (st_acc st)) body with
        | None => None
        | Some (s1, stc) => Some (s1, loop_promote base (st_ctx stc) basenames st (st_acc stc))
        end
    end
  with run_block (s : S) (st : bstate) (b : block) {struct b} : option (S * bstate) :=
    match b with
    | BNil => Some (s, st)
    | BCons x r =>
        match run_stmt s st x with
        | None => None
        | Some (s1, st1) => run_block s1 st1 r
        end
    end
  (* every branch starts from the snapshot [base]; the promotion dict is the only thing that
     can leak from one branch into the next (when the parent owns one) *)
  with run_branches (s : S) (base : dctx) (p : option pmap) (a : acc) (brs : branches) {struct brs}
    : option (S * list dctx * option pmap * acc) :=
    match brs with
    | BrNil => Some (s, [], p, a)
    | BrCons b r =>
        match run_block s (mk_bstate (mk_dctx (d_types base) (d_decl base) p) [] a) b with
        | None => None
        | Some (s1, stc) =>
            match run_branches s1 base (share_back (d_promo base) (d_promo (st_ctx stc))) (st_acc stc) r with
            | None => None
            | Some (s2, kids, p2, a2) => Some (s2, st_ctx stc :: kids, p2, a2)
            end
        end
    end.
End Block.

(* ---- static instance: user functions are a fixed table ---- *)
Definition call_st (F : ftable) (A : aliases) (_ : list ident) (sp : unit * option pmap) (_ : tenv)
  (f : ident) (sg : list ty) : (unit * option pmap) * option ty := (sp, resolve_call F A f sg).

Definition empty_ctx : dctx := mk_dctx [] [] None.
Definition st0 (in_fn : bool) : bstate := mk_bstate empty_ctx [] (mk_acc [] [] in_fn).

Definition run_block_s (F : ftable) (A : aliases) (C : option ictx) (st : bstate) (b : block) : option bstate :=
  match run_block unit (call_st F A) C tt st b with Some (_, st1) => Some st1 | None => None end.

(* ---- functions ---- *)
Record fsrc := mk_fsrc {
  fs_params : list (ident * option text);         (* name, annotation (a simple name) *)
  fs_ret : option text;                           (* annotated return *)
  fs_body : block
}.
Record fdef := mk_fdef { fd_params : list (ident * cty); fd_ret : cty; fd_locals : list (ident * cty);
                         fd_tmps : list cty }.        (* the tuple-assignment temporaries declared inside the body *)

Record fenv := mk_fenv {
  fe_src : list (ident * fsrc);                                   (* function_sources *)
  fe_F : ftable;                                                  (* functions *)
  fe_alias : aliases;                                             (* function_signature_aliases *)
  fe_defs : list (ident * list (list ty * fdef));                 (* function_defs *)
  fe_calls : list (ident * list (list ty));                       (* function_call_signatures *)
  fe_primary : list (ident * list ty);                            (* function_primary_signature *)
  fe_err : bool;                                                  (* a ValueError was raised inside an on-demand variant parse *)
  fe_refresh : list (ident * list ty)                             (* _refreshing_functions: the on-demand parses in progress *)
}.
Definition fenv0 : fenv := mk_fenv [] [] [] [] [] [] false [].
Definition set_err (fe : fenv) : fenv :=
  mk_fenv (fe_src fe) (fe_F fe) (fe_alias fe) (fe_defs fe) (fe_calls fe) (fe_primary fe) true (fe_refresh fe).
Definition set_refresh (fe : fenv) (r : list (ident * list ty)) : fenv :=
  mk_fenv (fe_src fe) (fe_F fe) (fe_alias fe) (fe_defs fe) (fe_calls fe) (fe_primary fe) (fe_err fe) r.

Fixpoint aset {A} (l : list (ident * A)) (k : ident) (v : A) : list (ident * A) :=
  match l with
  | [] => [(k, v)]
  | (k0, v0) :: r => if text_eqb k k0 then (k0, v) :: r else (k0, v0) :: aset r k v
  end.
Fixpoint sset {A} (l : list (list ty * A)) (k : list ty) (v : A) : list (list ty * A) :=
  match l with
  | [] => [(k, v)]
  | (k0, v0) :: r => if sig_eqb k k0 then (k0, v) :: r else (k0, v0) :: sset r k v
  end.
Definition variants_of (F : ftable) (f : ident) : list (list ty * ty) :=
  match tlookup f F with Some (FVariants vs) => vs | _ => [] end.
Definition get_or {A} (d : A) (o : option A) : A := match o with Some a => a | None => d end.

(* _parse_function with a given signature ([forced] = None: the def itself, labels from annotations), the body typed
   against the function tables AS THEY ARE (no on-demand parse of a callee): what _parse_function does for a body
   that calls no user function (Proofs/DynP.v: parse_function_core = parse_function_static on such bodies) *)
Definition parse_function_static (C : option ictx) (fe : fenv) (cur : dctx) (name : ident) (src : fsrc)
  (forced : option (list ty)) : option (fenv * option pmap * list ty) :=
  let params := fs_params src in
  let arity_ok := match forced with Some sg => Nat.eqb (length sg) (length params) | None => true end in
  if negb arity_ok then None else
  let labels :=
    match forced with
    | Some sg => sg
    | None => map (fun pa => annotation_label (snd pa)) params
    end in
  let child_types := fold_left (fun G pl => tset G (fst (fst pl)) (snd pl)) (combine params labels) (d_types cur) in
  let child_decl := fold_left add_name (map fst params) (d_decl cur) in
  let F0 := match tlookup name (fe_F fe) with Some _ => fe_F fe | None => aset (fe_F fe) name (FVariants []) end in
  let st := mk_bstate (mk_dctx child_types child_decl (d_promo cur)) [] (mk_acc [] [] true) in
  match run_block_s F0 (fe_alias fe) C st (fs_body src) with
  | None => None
  | Some st1 =>
      match merge_return_types (a_rets (st_acc st1)) false with
      | None => None
      | Some merged0 =>
          let annotated := match fs_ret src with Some n => Some (annotation_label (Some n)) | None => None end in
          let merged := override_return merged0 annotated (length (a_rets (st_acc st1))) in
          let final := map (fun pa => tget (d_types (st_ctx st1)) (fst pa)) params in
          let requested := match forced with Some sg => sg | None => final end in
          let vs1 := sset (variants_of F0 name) final merged in
          let differs := negb (sig_eqb requested final) in
          let vs2 := if differs then sset vs1 requested merged else vs1 in
          let al := if differs
                    then aset (fe_alias fe) name (sset (get_or [] (tlookup name (fe_alias fe))) requested final)
                    else (match tlookup name (fe_alias fe) with Some _ => fe_alias fe | None => aset (fe_alias fe) name [] end) in
          let d := mk_fdef (map (fun pt => (fst (fst pt), cpp_type (snd pt))) (combine params final))
                           (cpp_type merged) (st_decls st1)
                           (map (fun xt => cpp_type (snd xt))
                                (filter (fun xt => text_eqb (fst xt) tmp_marker) (a_labels (st_acc st1)))) in
          let defs := aset (fe_defs fe) name (sset (get_or [] (tlookup name (fe_defs fe))) final d) in
          Some (mk_fenv (aset (fe_src fe) name src) (aset F0 name (FVariants vs2)) al defs (fe_calls fe) (fe_primary fe) (fe_err fe)
                        (fe_refresh fe),
                share_back (d_promo cur) (d_promo (st_ctx st1)), final)
      end
  end.

(* ---- the real thing: the body of a function is typed with the SAME on-demand machinery as the top level, so a helper
   that calls an earlier helper under a new signature makes _ensure_function_variant parse that variant in the middle of
   the caller's body.  The mutual recursion _parse_function -> _infer_expr_type -> _ensure_function_variant ->
   _parse_function is cut by [_refreshing_functions] in the code (a (name, signature) being parsed is not parsed again)
   and, here, additionally by fuel: the nesting depth of on-demand parses ([fn_fuel]; running out rejects). ---- *)
Definition pf_type := fenv -> dctx -> ident -> fsrc -> option (list ty) -> option (fenv * option pmap * list ty).

Definition refreshing (fe : fenv) (name : ident) (sg : list ty) : bool :=
  existsb (fun k => text_eqb (fst k) name && sig_eqb (snd k) sg) (fe_refresh fe).

(* _ensure_function_variant *)
Definition ensure_variant_with (pf : pf_type) (fe : fenv) (cur : dctx) (name : ident) (sg : list ty)
  : option (fenv * option pmap) :=
  let canonical := resolve_alias (fe_alias fe) name sg in
  match sig_lookup canonical (get_or [] (tlookup name (fe_defs fe))) with
  | Some _ => Some (fe, d_promo cur)
  | None =>
      match tlookup name (fe_src fe) with
      | None => Some (fe, d_promo cur)
      | Some src =>
          if refreshing fe name sg then Some (fe, d_promo cur)
          else
            match pf (set_refresh fe ((name, sg) :: fe_refresh fe)) cur name src (Some sg) with
            | None => None
            | Some (fe1, p1, _) => Some (set_refresh fe1 (fe_refresh fe), p1)       (* finally: refreshing.remove(key) *)
            end
      end
  end.

(* the user-function step of _infer_expr_type when ctx is given.
   A ValueError inside the on-demand parse aborts the whole parse: recorded in [fe_err],
   which [run_item] turns into a rejection. *)
Definition call_dyn_with (pf : pf_type) (declared : list ident) (sp : fenv * option pmap) (G : tenv)
  (f : ident) (sg : list ty) : (fenv * option pmap) * option ty :=
  let '(fe, p) := sp in
  let recorded := get_or [] (tlookup f (fe_calls fe)) in
  let calls := if existsb (sig_eqb sg) recorded then (match tlookup f (fe_calls fe) with Some _ => fe_calls fe | None => aset (fe_calls fe) f [] end)
               else aset (fe_calls fe) f (recorded ++ [sg]) in
  let fe1 := mk_fenv (fe_src fe) (fe_F fe) (fe_alias fe) (fe_defs fe) calls (fe_primary fe) (fe_err fe) (fe_refresh fe) in
  let '(fe2, p2) := get_or (set_err fe1, p) (ensure_variant_with pf fe1 (mk_dctx G declared p) f sg) in
  ((fe2, p2), resolve_call (fe_F fe2) (fe_alias fe2) f sg).

Definition setdefault {A} (l : list (ident * A)) (k : ident) (v : A) : list (ident * A) :=
  match tlookup k l with Some _ => l | None => aset l k v end.

(* _parse_function *)
Definition parse_function_step (C : option ictx) (pf : pf_type) : pf_type := fun fe cur name src forced =>
  let params := fs_params src in
  let arity_ok := match forced with Some sg => Nat.eqb (length sg) (length params) | None => true end in
  if negb arity_ok then None else
  let labels :=
    match forced with
    | Some sg => sg
    | None => map (fun pa => annotation_label (snd pa)) params
    end in
  let child_types := fold_left (fun G pl => tset G (fst (fst pl)) (snd pl)) (combine params labels) (d_types cur) in
  let child_decl := fold_left add_name (map fst params) (d_decl cur) in
  (* function_sources[name] = ... ; functions / aliases / defs .setdefault(name, {}) : before the body *)
  let fe0 := mk_fenv (aset (fe_src fe) name src) (setdefault (fe_F fe) name (FVariants []))
                     (setdefault (fe_alias fe) name []) (setdefault (fe_defs fe) name [])
                     (fe_calls fe) (fe_primary fe) (fe_err fe) (fe_refresh fe) in
  let st := mk_bstate (mk_dctx child_types child_decl (d_promo cur)) [] (mk_acc [] [] true) in
  match run_block fenv (call_dyn_with pf) C fe0 st (fs_body src) with
  | None => None
  | Some (feb, st1) =>
      if fe_err feb then None else
      match merge_return_types (a_rets (st_acc st1)) false with
      | None => None
      | Some merged0 =>
          let annotated := match fs_ret src with Some n => Some (annotation_label (Some n)) | None => None end in
          let merged := override_return merged0 annotated (length (a_rets (st_acc st1))) in
          let final := map (fun pa => tget (d_types (st_ctx st1)) (fst pa)) params in
          let requested := match forced with Some sg => sg | None => final end in
          let vs1 := sset (variants_of (fe_F feb) name) final merged in
          let differs := negb (sig_eqb requested final) in
          let vs2 := if differs then sset vs1 requested merged else vs1 in
          let al := if differs
                    then aset (fe_alias feb) name (sset (get_or [] (tlookup name (fe_alias feb))) requested final)
                    else fe_alias feb in
          let d := mk_fdef (map (fun pt => (fst (fst pt), cpp_type (snd pt))) (combine params final))
                           (cpp_type merged) (st_decls st1)
                           (map (fun xt => cpp_type (snd xt))
                                (filter (fun xt => text_eqb (fst xt) tmp_marker) (a_labels (st_acc st1)))) in
          let defs := aset (fe_defs feb) name (sset (get_or [] (tlookup name (fe_defs feb))) final d) in
          Some (mk_fenv (fe_src feb) (aset (fe_F feb) name (FVariants vs2)) al defs (fe_calls feb) (fe_primary feb) (fe_err feb)
                        (fe_refresh feb),
                share_back (d_promo cur) (d_promo (st_ctx st1)), final)
      end
  end.

Fixpoint parse_function_fuel (C : option ictx) (fuel : nat) : pf_type :=
  match fuel with
  | O => fun _ _ _ _ _ => None
  | Datatypes.S k => parse_function_step C (parse_function_fuel C k)
  end.
Definition fn_fuel : nat := 24.
Definition parse_function_core (C : option ictx) : pf_type := parse_function_fuel C (Datatypes.S fn_fuel).
Definition ensure_variant (C : option ictx) := ensure_variant_with (parse_function_fuel C fn_fuel).

(* a def line at top level: parse with the annotated labels, then the variants already requested *)
Definition parse_def (C : option ictx) (fe : fenv) (cur : dctx) (name : ident) (src : fsrc)
  : option (fenv * option pmap) :=
  match parse_function_core C fe cur name src None with
  | None => None
  | Some (fe1, p1, final) =>
      let fe2 := mk_fenv (fe_src fe1) (fe_F fe1) (fe_alias fe1) (fe_defs fe1) (fe_calls fe1)
                         (aset (fe_primary fe1) name final) (fe_err fe1) (fe_refresh fe1) in
      fold_left (fun acc0 requested =>
                   match acc0 with
                   | None => None
                   | Some (fe3, p3) =>
                       if sig_eqb requested final then Some (fe3, p3)
                       else ensure_variant C fe3 (mk_dctx (d_types cur) (d_decl cur) p3) name requested
                   end)
                (get_or [] (tlookup name (fe_calls fe1))) (Some (fe2, p1))
  end.

Definition call_dyn (C : option ictx) := call_dyn_with (parse_function_fuel C fn_fuel).

(* ---- whole programs ---- *)
Inductive item :=
| IStmt (s : stmt)                 (* a statement at column 0: setup scope, depth 0 *)
| IDef (name : ident) (src : fsrc)
| ILoop (body : block).            (* while True: parsed in the top-level ctx itself; a name first assigned at its body
                                      level (directly or hoisted there) is a sketch GLOBAL like one of column 0 -
                                      nothing is a local of loop() any more ([p_loop] stays empty) *)

Record pstate := mk_pstate {
  p_fe : fenv; p_ctx : dctx;
  p_globals : list (ident * cty); p_loop : list (ident * cty);
  p_labels : list (ident * ty)
}.
Definition pstate0 : pstate := mk_pstate fenv0 empty_ctx [] [] [].

Definition run_item (C : option ictx) (ps : pstate) (it : item) : option pstate :=
  match it with
  | IStmt s =>
      match (match s with
             | STuple xs es =>                       (* column 0 is the global scope: new names need no temporaries *)
                 do_tuple fenv (call_dyn C) C true (p_fe ps) (mk_bstate (p_ctx ps) (p_globals ps) (mk_acc (p_labels ps) [] false)) xs es
             | _ => run_stmt fenv (call_dyn C) C (p_fe ps) (mk_bstate (p_ctx ps) (p_globals ps) (mk_acc (p_labels ps) [] false)) s
             end) with
      | None => None
      | Some (fe1, st1) =>
          if fe_err fe1 then None
          else Some (mk_pstate fe1 (st_ctx st1) (st_decls st1) (p_loop ps) (a_labels (st_acc st1)))
      end
  | ILoop b =>
      match run_block fenv (call_dyn C) C (p_fe ps) (mk_bstate (p_ctx ps) (p_globals ps) (mk_acc (p_labels ps) [] false)) b with
      | None => None
      | Some (fe1, st1) =>
          if fe_err fe1 then None
          else Some (mk_pstate fe1 (st_ctx st1) (st_decls st1) (p_loop ps) (a_labels (st_acc st1)))
      end
  | IDef name src =>
      match parse_def C (p_fe ps) (p_ctx ps) name src with
      | None => None
      | Some (fe1, p1) =>
          Some (mk_pstate fe1 (mk_dctx (d_types (p_ctx ps)) (d_decl (p_ctx ps)) (share_back (d_promo (p_ctx ps)) p1))
                          (p_globals ps) (p_loop ps) (p_labels ps))
      end
  end.

Definition run_items (C : option ictx) (its : list item) : option pstate :=
  fold_left (fun acc0 it => match acc0 with None => None | Some ps => run_item C ps it end) its (Some pstate0).

(* parse(): which variants are emitted *)
Definition selected_functions (fe : fenv) : list (ident * fdef) :=
  flat_map (fun nd =>
    let name := fst nd in
    let variants := snd nd in
    let used := get_or [] (tlookup name (fe_calls fe)) in
    let keep :=
      match used with
      | _ :: _ =>
          fold_left (fun k sg =>
                       let canonical := resolve_alias (fe_alias fe) name sg in
                       match sig_lookup canonical variants with
                       | Some _ => if existsb (sig_eqb canonical) k then k else k ++ [canonical]
                       | None => k
                       end) used []
      | [] =>
          match tlookup name (fe_primary fe) with
          | Some pr => match sig_lookup pr variants with
                       | Some _ => [pr]
                       | None => match variants with (k0, _) :: _ => [k0] | [] => [] end
                       end
          | None => match variants with (k0, _) :: _ => [k0] | [] => [] end
          end
      end in
    flat_map (fun sg => match sig_lookup sg variants with Some d => [(name, d)] | None => [] end) keep)
  (fe_defs fe).

(* ---- what the device does when a value is stored into a declared C variable
   (C++ implicit conversions; only what the refutation witnesses need) ---- *)
Definition c_store (c : cty) (v : pval) : option pval :=
  match c, v with
  | CInt, VInt z => Some (VInt z)
  | CInt, VBool b => Some (VInt (if b then 1 else 0))
  | CInt, VFloat q => Some (VInt (qtrunc q))                  (* float -> int truncates *)
  | CFloat, VFloat q => Some (VFloat q)
  | CFloat, VInt z => Some (VFloat (Qred (inject_Z z)))
  | CFloat, VBool b => Some (VFloat (Qred (inject_Z (if b then 1 else 0))))
  | CBool, VBool b => Some (VBool b)
  | CBool, VInt z => Some (VBool (negb (z =? 0)))             (* int -> bool: non-zero *)
  | CBool, VFloat q => Some (VBool (negb (q_is_zero q)))
  | CString, VStr s => Some (VStr s)
  | _, _ => None                                               (* does not compile / not modelled *)
  end.

(* reference execution of a straight-line assignment sequence: final env and the values assigned *)
Fixpoint exec_flat (rho : env) (p : list (ident * pexpr)) : res (env * list (ident * pval)) :=
  match p with
  | [] => Ok (rho, [])
  | (x, e) :: r =>
      match peval rho e with
      | Err er => Err er
      | Ok v =>
          match exec_flat ((x, v) :: rho) r with
          | Err er => Err er
          | Ok (rho1, tr) => Ok (rho1, (x, v) :: tr)
          end
      end
  end.
Definition flat_block (p : list (ident * pexpr)) : block :=
  block_of (map (fun xe => SAssign (fst xe) (snd xe)) p).
