(* Specification side of the declaration theorems of C02: straight-line top-level programs,
   their executable guard (expression guard + label stability), and the demo / witness programs. *)
From Coq Require Import ZArith QArith List Bool.
From RV Require Import Base.Wire Base.Text Lang.PyAst Lang.PySem Lang.Infer Lang.InferGuard Lang.InferSpec Lang.Decl.
Import ListNotations.
Open Scope Z_scope.

(* x1 = e1; x2 = e2; ... at column 0 *)
Definition flat_items (p : list (ident * pexpr)) : list item :=
  map (fun xe => IStmt (SAssign (fst xe) (snd xe))) p.

(* every right-hand side is inside [guard] (in the var_types reached at that point), and every
   assignment to an already typed name infers the label the name already has *)
Fixpoint flat_guard (C : option ictx) (G : tenv) (p : list (ident * pexpr)) : bool :=
  match p with
  | [] => true
  | (x, e) :: r =>
      let t := ety [] [] C G e in
      guard [] [] C G e
      && match tlookup x G with Some t0 => ty_eqb t0 t | None => true end
      && flat_guard C (tset G x t) r
  end.

Definition y_a : ident := [97].
Definition y_c : ident := [99].
Definition y_s : ident := [115].

(* a = 3; c = a * 2.5; s = "x"; a = a + 1 *)
Definition demo_flat : list (ident * pexpr) :=
  [(y_a, EInt 3); (y_c, EBin Mult (EName y_a) (EFloat (5 # 2))); (y_s, EStr [120]);
   (y_a, EBin Add (EName y_a) (EInt 1))].

(* a = 1; a = 2.5 *)
Definition first_assign_prog : list (ident * pexpr) := [(y_a, EInt 1); (y_a, EFloat (5 # 2))].
