(* Wire codec of statement-level programs (harness/props/c02.py is the other side).
   stmt:  (0 x expr)  (1 x op expr)  (2 (block ...) else)  (3 block)  (4 i block)  (5) | (5 expr)  (6 x rhs)  (7 (x ...) (expr ...))
   rhs:   (0 expr) | (1 target n_expr rhs)                                  a comprehension over range(n)
   block = (stmt ...); else = () | (block)
   item:  (0 stmt)  (1 name ((param ann) ...) retann block)  (2 block);  ann = () | (text) *)
From Coq Require Import ZArith List Bool.
From RV Require Import Base.Wire Base.Text Lang.PyAst Lang.PySem Lang.PyAstWire Lang.Infer Lang.InferWire Lang.InferComp Lang.Decl.
Import ListNotations.
Open Scope Z_scope.

Fixpoint dec_rhs (v : wv) : option rhs :=
  match v with
  | WL [WI 0; e] => option_map RPlain (dec_expr e)
  | WL [WI 1; t; n; r] =>
      match un_text t, dec_expr n, dec_rhs r with
      | Some t1, Some nn, Some rr => Some (RComp t1 nn rr) | _, _, _ => None end
  | _ => None
  end.

Fixpoint dec_names (l : list wv) : option (list ident) :=
  match l with
  | [] => Some []
  | x :: r => match un_text x, dec_names r with Some xx, Some rr => Some (xx :: rr) | _, _ => None end
  end.
Fixpoint dec_exprs (l : list wv) : option (list pexpr) :=
  match l with
  | [] => Some []
  | x :: r => match dec_expr x, dec_exprs r with Some xx, Some rr => Some (xx :: rr) | _, _ => None end
  end.

Fixpoint dec_stmt (v : wv) : option stmt :=
  let fix dec_blk (l : list wv) : option block :=
    match l with
    | [] => Some BNil
    | x :: r => match dec_stmt x, dec_blk r with Some s, Some b => Some (BCons s b) | _, _ => None end
    end in
  let fix dec_brs (l : list wv) : option branches :=
    match l with
    | [] => Some BrNil
    | WL b :: r => match dec_blk b, dec_brs r with Some bb, Some rr => Some (BrCons bb rr) | _, _ => None end
    | _ => None
    end in
  match v with
  | WL [WI 0; x; e] =>
      match un_text x, dec_expr e with Some xx, Some ee => Some (SAssign xx ee) | _, _ => None end
  | WL [WI 1; x; WI op; e] =>
      match un_text x, dec_binop op, dec_expr e with
      | Some xx, Some o, Some ee => Some (SAug xx o ee) | _, _, _ => None end
  | WL [WI 2; WL brs; WL []] =>
      match dec_brs brs with Some bb => Some (SIf bb ONone) | None => None end
  | WL [WI 2; WL brs; WL [WL eb]] =>
      match dec_brs brs, dec_blk eb with Some bb, Some e => Some (SIf bb (OSome e)) | _, _ => None end
  | WL [WI 3; WL b] => match dec_blk b with Some bb => Some (SWhile bb) | None => None end
  | WL [WI 4; i; WL b] =>
      match un_text i, dec_blk b with Some ii, Some bb => Some (SFor ii bb) | _, _ => None end
  | WL [WI 5] => Some (SReturn None)
  | WL [WI 5; e] => match dec_expr e with Some ee => Some (SReturn (Some ee)) | None => None end
  | WL [WI 6; x; r] =>
      match un_text x, dec_rhs r with Some xx, Some rr => Some (SAssignR xx rr) | _, _ => None end
  | WL [WI 7; WL xs; WL es] =>
      match dec_names xs, dec_exprs es with Some xx, Some ee => Some (STuple xx ee) | _, _ => None end
  | _ => None
  end.

Fixpoint dec_block (l : list wv) : option block :=
  match l with
  | [] => Some BNil
  | x :: r => match dec_stmt x, dec_block r with Some s, Some b => Some (BCons s b) | _, _ => None end
  end.

Definition dec_ann (v : wv) : option (option text) :=
  match v with
  | WL [] => Some None
  | WL [t] => match un_text t with Some t1 => Some (Some t1) | None => None end
  | _ => None
  end.

Fixpoint dec_params (l : list wv) : option (list (ident * option text)) :=
  match l with
  | [] => Some []
  | WL [p; a] :: r =>
      match un_text p, dec_ann a, dec_params r with
      | Some pp, Some aa, Some rr => Some ((pp, aa) :: rr) | _, _, _ => None end
  | _ => None
  end.

Definition dec_item (v : wv) : option item :=
  match v with
  | WL [WI 0; s] => option_map IStmt (dec_stmt s)
  | WL [WI 1; n; WL ps; ra; WL b] =>
      match un_text n, dec_params ps, dec_ann ra, dec_block b with
      | Some nn, Some pp, Some rr, Some bb => Some (IDef nn (mk_fsrc pp rr bb)) | _, _, _, _ => None end
  | WL [WI 2; WL b] => option_map ILoop (dec_block b)
  | _ => None
  end.

Fixpoint dec_items (l : list wv) : option (list item) :=
  match l with
  | [] => Some []
  | x :: r => match dec_item x, dec_items r with Some i, Some is => Some (i :: is) | _, _ => None end
  end.

Definition enc_decls (l : list (ident * cty)) : wv :=
  WL (map (fun xc => WL [wtext (fst xc); enc_cty (snd xc)]) l).
Definition enc_labels (l : list (ident * ty)) : wv :=
  WL (map (fun xt => WL [wtext (fst xt); enc_ty (snd xt)]) l).
Definition enc_fdef (nd : ident * fdef) : wv :=
  WL [wtext (fst nd); enc_cty (fd_ret (snd nd)); enc_decls (fd_params (snd nd)); enc_decls (fd_locals (snd nd));
      WL (map enc_cty (fd_tmps (snd nd)))].

(* (0 globals loop_locals functions labels final_var_types tuple_temporaries) | (1 4) *)
Definition enc_prog (r : option pstate) : wv :=
  match r with
  | None => werr 4
  | Some ps =>
      wok [enc_decls (p_globals ps); enc_decls (p_loop ps);
           WL (map enc_fdef (selected_functions (p_fe ps)));
           enc_labels (p_labels ps); enc_tenv (d_types (p_ctx ps));
           WL (map (fun xt => enc_cty (cpp_type (snd xt)))
                   (filter (fun xt => text_eqb (fst xt) tmp_marker) (p_labels ps)))]
  end.
