(* C10 - statelessness across parse() calls: the device-name registries of the ctx dictionary, the way
   their entries come into being (`ctx.setdefault(key, D)` / `ctx.get(key, D)`), and a module-level store that
   survives from one parse() to the next.  Model only: no proofs here.

   parser.py  parse():                 ctx = {... "potentiometer_names": set(), ...}     -> [c_pre]
   parser.py  _parse_simple_lines():   servo_names = ctx.setdefault("servo_names", set()) ... (prologue) -> [c_pre]
   parser.py  `X = Kind(...)` handlers ctx.setdefault("serial_monitors", D).add(name)      -> [register], [c_set]
   parser.py  _to_c_expr / _infer_expr_type:  ctx.get("servo_names", D) ...                -> [lookup], [c_get]

   A default D is either a fresh object (`set()`; [None] below) or a module-level object ([Some o]): an object
   that is created once, when the module is imported, and is therefore the SAME object in every parse() of the process
   ([mstore]).  [run] threads the module store through one parse(); [session] through a sequence of them.
   [transl_dev] is the specification: the same translation with plain per-call registries and no store at all. *)
From Coq Require Import ZArith List Bool String.
From RV Require Import Base.Wire Base.Text Lang.Order.
Import ListNotations.
Open Scope Z_scope.

(* the ctx keys of the fragment *)
Inductive key := KServo | KPot | KPotPin | KSerial | KUltra | KButton | KLed.

Definition key_eqb (a b : key) : bool :=
  match a, b with
  | KServo, KServo | KPot, KPot | KPotPin, KPotPin | KSerial, KSerial | KUltra, KUltra | KButton, KButton | KLed, KLed => true
  | _, _ => false
  end.

Definition all_keys : list key := [KServo; KPot; KPotPin; KSerial; KUltra; KButton; KLed].

Definition key_name (k : key) : text :=
  match k with
  | KServo => txt "servo_names" | KPot => txt "potentiometer_names" | KPotPin => txt "potentiometer_pins"
  | KSerial => txt "serial_monitors" | KUltra => txt "ultrasonic_names" | KButton => txt "button_names"
  | KLed => txt "led_names"
  end.

(* device constructors and the value-returning device methods of the fragment *)
Inductive dkind := DServo | DPot | DSerial | DUltra | DButton | DLed.
Inductive meth := MRead | MReadUs | MMeasure | MPressed | MState | MBright.

Inductive dstmt :=
| DDev (x : ident) (k : dkind)              (* x = Kind(...) at column 0 *)
| DRead (y x : ident) (m : meth).           (* y = x.m() at column 0 *)

Definition keys_of (k : dkind) : list key :=
  match k with
  | DServo => [KServo] | DPot => [KPot; KPotPin] | DSerial => [KSerial]
  | DUltra => [KUltra] | DButton => [KButton] | DLed => [KLed]
  end.

(* what the right-hand side becomes *)
Inductive ekind := EServoAngle | EServoPulse | EAnalogRead | ESerialRead | EUltraMeasure | EButtonValue | ELedState | ELedBright.

Definition ekind_code (e : ekind) : Z :=
  match e with
  | EServoAngle => 0 | EServoPulse => 1 | EAnalogRead => 2 | ESerialRead => 3 | EUltraMeasure => 4
  | EButtonValue => 5 | ELedState => 6 | ELedBright => 7
  end.

(* _to_c_expr (the expression; None = ValueError("unsupported attribute call")) and _infer_expr_type (the label),
   over an abstract membership test [mem k x] = "x in ctx.get(<key k>, D)" *)
Definition infer_expr (mem : key -> ident -> bool) (m : meth) (x : ident) : option ekind :=
  match m with
  | MRead => if mem KServo x then Some EServoAngle
             else if mem KPot x then (if mem KPotPin x then Some EAnalogRead else None)
             else if mem KSerial x then Some ESerialRead else None
  | MReadUs => if mem KServo x then Some EServoPulse else None
  | MMeasure => if mem KUltra x then Some EUltraMeasure else None
  | MPressed => if mem KButton x then Some EButtonValue else None
  | MState => if mem KLed x then Some ELedState else None
  | MBright => if mem KLed x then Some ELedBright else None
  end.

Definition infer_type (mem : key -> ident -> bool) (m : meth) (x : ident) : ty :=
  match m with
  | MRead => if mem KServo x then 1 else if mem KSerial x then 3 else 0
  | MReadUs => if mem KServo x then 1 else 0
  | MMeasure => if mem KUltra x then 1 else 0
  | MPressed => 0
  | MState => if mem KLed x then 2 else 0
  | MBright => 0
  end.

Definition rdecl := (ident * Z * ty)%type.        (* y, expression kind, type label *)

(* ---------------------------------------------------------------- the specification: per-call registries only *)
Definition regs := key -> list ident.

Definition upd {A} (f : key -> A) (k : key) (v : A) : key -> A := fun k' => if key_eqb k' k then v else f k'.

Definition spec_register (r : regs) (x : ident) (k : key) : regs := upd r k (x :: r k).

Fixpoint spec_stmts (p : list dstmt) (r : regs) (acc : list rdecl) : option (list rdecl) :=
  match p with
  | [] => Some acc
  | DDev x k :: q => spec_stmts q (fold_left (fun r k => spec_register r x k) (keys_of k) r) acc
  | DRead y x m :: q =>
      let mem := fun k x => tmem x (r k) in
      match infer_expr mem m x with
      | None => None
      | Some e => spec_stmts q r (acc ++ [(y, ekind_code e, infer_type mem m x)])
      end
  end.

(* one parse()+emit(): None = rejected with ValueError *)
Definition transl_dev (p : list dstmt) : option (list rdecl) := spec_stmts p (fun _ => []) [].

(* ---------------------------------------------------------------- the code shape, with module-level objects *)
Definition mobj := text.                                   (* the name of a module-level object *)
Definition mstore := list (mobj * list ident).             (* its current elements (latest binding first) *)

Definition ms_get (ms : mstore) (o : mobj) : list ident :=
  match tlookup o ms with Some l => l | None => [] end.

Definition ms_add (ms : mstore) (o : mobj) (x : ident) : mstore := (o, x :: ms_get ms o) :: ms.

Record cfg := mk_cfg {
  c_pre : key -> bool;             (* the key exists, with a fresh object, before the first statement is parsed *)
  c_set : key -> option mobj;      (* default of the `setdefault` that creates the key: fresh / module-level object *)
  c_get : key -> option mobj }.    (* default of the lookups of the key: fresh / module-level object *)

Inductive slot := Absent | Own (l : list ident) | Alias (o : mobj).
Definition dctx := key -> slot.

Definition init_ctx (c : cfg) : dctx := fun k => if c_pre c k then Own [] else Absent.

(* ctx.get(key, D) *)
Definition lookup (c : cfg) (ms : mstore) (d : dctx) (k : key) : list ident :=
  match d k with
  | Own l => l
  | Alias o => ms_get ms o
  | Absent => match c_get c k with Some o => ms_get ms o | None => [] end
  end.

(* ctx.setdefault(key, D).add(x) *)
Definition register (c : cfg) (st : dctx * mstore) (x : ident) (k : key) : dctx * mstore :=
  let (d, ms) := st in
  match d k with
  | Own l => (upd d k (Own (x :: l)), ms)
  | Alias o => (d, ms_add ms o x)
  | Absent => match c_set c k with
              | Some o => (upd d k (Alias o), ms_add ms o x)
              | None => (upd d k (Own [x]), ms)
              end
  end.

Fixpoint run_stmts (c : cfg) (p : list dstmt) (st : dctx * mstore) (acc : list rdecl) : option (list rdecl) * mstore :=
  match p with
  | [] => (Some acc, snd st)
  | DDev x k :: q => run_stmts c q (fold_left (fun st k => register c st x k) (keys_of k) st) acc
  | DRead y x m :: q =>
      let mem := fun k x => tmem x (lookup c (snd st) (fst st) k) in
      match infer_expr mem m x with
      | None => (None, snd st)              (* the exception leaves whatever was registered so far *)
      | Some e => run_stmts c q st (acc ++ [(y, ekind_code e, infer_type mem m x)])
      end
  end.

(* one parse()+emit() in a process whose module-level objects hold [ms] *)
Definition run (c : cfg) (ms : mstore) (p : list dstmt) : option (list rdecl) * mstore :=
  run_stmts c p (init_ctx c, ms) [].

(* a sequence of parse()+emit() calls in one process *)
Fixpoint dsession (c : cfg) (ms : mstore) (ps : list (list dstmt)) : list (option (list rdecl)) :=
  match ps with
  | [] => []
  | p :: r => let (o, ms') := run c ms p in o :: dsession c ms' r
  end.

(* the shape the code has when no default is a module-level object *)
Definition cfg_fresh (pre : key -> bool) : cfg := mk_cfg pre (fun _ => None) (fun _ => None).

(* the guard of the statelessness theorem: a key that does not exist before the first statement is created and looked
   up with fresh defaults only *)
Definition cfg_ok (c : cfg) : bool :=
  forallb (fun k => c_pre c k || (match c_set c k with None => true | Some _ => false end
                                  && match c_get c k with None => true | Some _ => false end)) all_keys.

(* witness programs of the refutation: A declares a serial monitor called x; B, unrelated, a potentiometer of the same name *)
Definition n_x : ident := txt "x".
Definition n_y : ident := txt "y".
Definition leak_A : list dstmt := [DDev n_x DSerial].
Definition leak_B : list dstmt := [DDev n_x DPot; DRead n_y n_x MRead].
