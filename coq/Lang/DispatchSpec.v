(* SPECIFICATION of the line-accounting half of C07 (hand-written; the observed table is
   generated into Gen/Dispatch.v by harness/gen/dispatch.py from the current /repo).

   The property: every logical line is translated, or rejected with an error, or belongs to the
   small fixed set of lines without meaning on the device (imports, the target() call, pass,
   global declarations, comments, docstrings, host-only print); no other statement disappears
   from the firmware without a diagnostic.

   [allowed]    = that fixed set.
   [known_gaps] = the (kind, context) pairs that the current tree silently drops although they
                  are not in the fixed set: each kind listed there is a genuine finding of C07
                  (known_findings.d/C07.json has one entry per kind, with the witness script).
                  Since the repair "fix: reject statements the transpiler cannot translate instead
                  of dropping them" one kind is left: the documented host-side calls
                  SerialMonitor.connect()/close().
   [former_gaps] = the pairs that were listed until that repair; they are now REJECTED, which
                  [pinned] demands.
   [pinned]     = what the supported subset must do (so that a mutation that starts rejecting or
                  dropping a supported statement changes a checked fact).
   No proofs in this file. *)
From Coq Require Import List Bool Arith.
Import ListNotations.

Inductive stmt_kind :=
| K_assign
| K_augassign
| K_assign_ret_prefix
| K_annassign
| K_tuple_assign
| K_chained_assign
| K_subscript_assign
| K_attr_assign
| K_lambda_assign
| K_walrus_expr
| K_dev_known_method
| K_dev_unknown_method
| K_dev_unknown_method_args
| K_serial_unknown_method
| K_undeclared_method_call
| K_undeclared_func_call
| K_sleep_call
| K_print_call
| K_pass_stmt
| K_global_decl
| K_nonlocal_decl
| K_import_plain
| K_import_as
| K_from_import
| K_from_import_star
| K_from_import_reduino
| K_from_import_core
| K_target_call
| K_del_stmt
| K_assert_stmt
| K_raise_stmt
| K_return_value
| K_return_bare
| K_yield_stmt
| K_await_stmt
| K_bare_expr
| K_docstring
| K_string_expr
| K_comment_line
| K_semicolon_join
| K_semicolon_calls
| K_backslash_continuation
| K_bracket_continuation
| K_if_inline_body
| K_while_inline_body
| K_ternary_stmt
| K_with_stmt
| K_match_stmt
| K_class_def
| K_nested_def
| K_async_def
| K_decorator
| K_continue_in_while
| K_continue_in_for
| K_continue_outside_loop
| K_break_in_while
| K_break_in_for
| K_break_outside_loop
| K_while_else
| K_for_else
| K_for_over_list
| K_for_over_name
| K_for_range_1arg
| K_for_range_2args
| K_for_range_3args
| K_try_finally
| K_try_except_else
| K_if_stmt
| K_while_stmt
| K_serial_host_call
| K_while_true_stmt
| K_try_except
| K_blank_line.

(* AfterLoop: at column 0 AFTER the block of the main `while True:` - Python never reaches such a line *)
Inductive context := Top | Nested | Func | MainLoop | AfterLoop.
Inductive outcome := Translated | Rejected | Ignored.
Definition row := (stmt_kind * context * outcome)%type.

Definition kind_id (k : stmt_kind) : nat :=
  match k with
  | K_assign => 0
  | K_augassign => 1
  | K_assign_ret_prefix => 2
  | K_annassign => 3
  | K_tuple_assign => 4
  | K_chained_assign => 5
  | K_subscript_assign => 6
  | K_attr_assign => 7
  | K_lambda_assign => 8
  | K_walrus_expr => 9
  | K_dev_known_method => 10
  | K_dev_unknown_method => 11
  | K_dev_unknown_method_args => 12
  | K_serial_unknown_method => 13
  | K_undeclared_method_call => 14
  | K_undeclared_func_call => 15
  | K_sleep_call => 16
  | K_print_call => 17
  | K_pass_stmt => 18
  | K_global_decl => 19
  | K_nonlocal_decl => 20
  | K_import_plain => 21
  | K_import_as => 22
  | K_from_import => 23
  | K_from_import_star => 24
  | K_from_import_reduino => 25
  | K_from_import_core => 26
  | K_target_call => 27
  | K_del_stmt => 28
  | K_assert_stmt => 29
  | K_raise_stmt => 30
  | K_return_value => 31
  | K_return_bare => 32
  | K_yield_stmt => 33
  | K_await_stmt => 34
  | K_bare_expr => 35
  | K_docstring => 36
  | K_string_expr => 37
  | K_comment_line => 38
  | K_semicolon_join => 39
  | K_semicolon_calls => 40
  | K_backslash_continuation => 41
  | K_bracket_continuation => 42
  | K_if_inline_body => 43
  | K_while_inline_body => 44
  | K_ternary_stmt => 45
  | K_with_stmt => 46
  | K_match_stmt => 47
  | K_class_def => 48
  | K_nested_def => 49
  | K_async_def => 50
  | K_decorator => 51
  | K_continue_in_while => 52
  | K_continue_in_for => 53
  | K_continue_outside_loop => 54
  | K_break_in_while => 55
  | K_break_in_for => 56
  | K_break_outside_loop => 57
  | K_while_else => 58
  | K_for_else => 59
  | K_for_over_list => 60
  | K_for_over_name => 61
  | K_for_range_1arg => 62
  | K_for_range_2args => 63
  | K_for_range_3args => 64
  | K_try_finally => 65
  | K_try_except_else => 66
  | K_if_stmt => 67
  | K_while_stmt => 68
  | K_serial_host_call => 69
  | K_while_true_stmt => 70
  | K_try_except => 71
  | K_blank_line => 72
  end.
Definition kind_eqb (a b : stmt_kind) : bool := Nat.eqb (kind_id a) (kind_id b).
Definition ctx_id (c : context) : nat := match c with Top => 0 | Nested => 1 | Func => 2 | MainLoop => 3 | AfterLoop => 4 end.
Definition ctx_eqb (a b : context) : bool := Nat.eqb (ctx_id a) (ctx_id b).
Definition outcome_eqb (a b : outcome) : bool :=
  match a, b with Translated, Translated | Rejected, Rejected | Ignored, Ignored => true | _, _ => false end.

Definition all_kinds : list stmt_kind :=
  [K_assign; K_augassign; K_assign_ret_prefix; K_annassign; K_tuple_assign;
   K_chained_assign; K_subscript_assign; K_attr_assign; K_lambda_assign; K_walrus_expr;
   K_dev_known_method; K_dev_unknown_method; K_dev_unknown_method_args; K_serial_unknown_method; K_undeclared_method_call;
   K_undeclared_func_call; K_sleep_call; K_print_call; K_pass_stmt; K_global_decl;
   K_nonlocal_decl; K_import_plain; K_import_as; K_from_import; K_from_import_star;
   K_from_import_reduino; K_from_import_core; K_target_call; K_del_stmt; K_assert_stmt;
   K_raise_stmt; K_return_value; K_return_bare; K_yield_stmt; K_await_stmt;
   K_bare_expr; K_docstring; K_string_expr; K_comment_line; K_semicolon_join;
   K_semicolon_calls; K_backslash_continuation; K_bracket_continuation; K_if_inline_body; K_while_inline_body;
   K_ternary_stmt; K_with_stmt; K_match_stmt; K_class_def; K_nested_def;
   K_async_def; K_decorator; K_continue_in_while; K_continue_in_for; K_continue_outside_loop;
   K_break_in_while; K_break_in_for; K_break_outside_loop; K_while_else; K_for_else;
   K_for_over_list; K_for_over_name; K_for_range_1arg; K_for_range_2args; K_for_range_3args;
   K_try_finally; K_try_except_else; K_if_stmt; K_while_stmt; K_serial_host_call;
   K_while_true_stmt; K_try_except; K_blank_line].
Definition all_contexts : list context := [Top; Nested; Func; MainLoop; AfterLoop].

Definition row_kind (r : row) : stmt_kind := fst (fst r).
Definition row_ctx (r : row) : context := snd (fst r).
Definition row_outcome (r : row) : outcome := snd r.

Fixpoint lookup (k : stmt_kind) (c : context) (t : list row) : option outcome :=
  match t with
  | [] => None
  | (k', c', o) :: r => if kind_eqb k k' && ctx_eqb c c' then Some o else lookup k c r
  end.

(* ------------------------------------------------------------ the fixed set of the property *)
(* imports, the target() call, pass, global declarations, comments, docstrings (any bare string
   literal), host-only print.  (`nonlocal` was counted with the global declarations while the parser
   dropped every unknown line; it has no valid use in the supported subset - Python refuses it
   outside a nested function - and the repaired parser rejects it: pinned below.) *)
Definition allowed (k : stmt_kind) : bool :=
  match k with
  | K_print_call
  | K_pass_stmt
  | K_global_decl
  | K_import_plain
  | K_import_as
  | K_from_import
  | K_from_import_star
  | K_from_import_reduino
  | K_from_import_core
  | K_target_call
  | K_docstring
  | K_string_expr
  | K_comment_line
  | K_blank_line => true          (* not a statement at all *)
  | _ => false
  end.

(* ------------------------------------------------------------ what the tree still drops silently *)
(* kinds dropped in all four contexts: the documented host-side methods of SerialMonitor (finding
   F-C07-drop-serial-host-call) *)
Definition gap_kinds : list stmt_kind := [K_serial_host_call].
Definition gap_pairs : list (stmt_kind * context) := [].
(* (after the main loop the call is rejected like every other statement: no gap there) *)
Definition reachable_contexts : list context := [Top; Nested; Func; MainLoop].
Definition known_gaps : list (stmt_kind * context) :=
  flat_map (fun k => map (pair k) reachable_contexts) gap_kinds ++ gap_pairs.
Definition known_gap (k : stmt_kind) (c : context) : bool :=
  existsb (fun p => kind_eqb k (fst p) && ctx_eqb c (snd p)) known_gaps.

(* ------------------------------------------------------------ what was dropped until the repair *)
(* `continue` left the list with "fix: translate `continue` instead of silently dropping it"; everything
   below with "fix: reject statements the transpiler cannot translate instead of dropping them" *)
Definition former_gap_kinds : list stmt_kind :=
  [K_annassign; K_chained_assign; K_subscript_assign; K_attr_assign;
   K_walrus_expr; K_dev_unknown_method; K_dev_unknown_method_args; K_serial_unknown_method;
   K_undeclared_method_call; K_del_stmt; K_assert_stmt; K_raise_stmt;
   K_yield_stmt; K_await_stmt; K_semicolon_join; K_backslash_continuation;
   K_bracket_continuation; K_if_inline_body; K_while_inline_body; K_with_stmt;
   K_match_stmt; K_class_def; K_async_def; K_decorator;
   K_while_else; K_for_else; K_for_over_list; K_for_over_name;
   K_try_finally; K_try_except_else; K_nonlocal_decl].
(* a `def` inside a block / function / the main loop (at column 0 it is an ordinary function) *)
Definition former_gap_pairs : list (stmt_kind * context) :=
  [(K_nested_def, Nested); (K_nested_def, Func); (K_nested_def, MainLoop)].
Definition former_gaps : list (stmt_kind * context) :=
  flat_map (fun k => map (pair k) all_contexts) former_gap_kinds ++ former_gap_pairs.
Definition former_gap (k : stmt_kind) (c : context) : bool :=
  existsb (fun p => kind_eqb k (fst p) && ctx_eqb c (snd p)) former_gaps.

Definition silently_ignored (r : row) : bool := outcome_eqb (row_outcome r) Ignored.
Definition row_ok (r : row) : bool :=
  negb (silently_ignored r) || allowed (row_kind r) || known_gap (row_kind r) (row_ctx r).

Definition complete (t : list row) : bool :=
  forallb (fun k => forallb (fun c => match lookup k c t with Some _ => true | None => false end) all_contexts) all_kinds.

(* ------------------------------------------------------------ what the supported subset must do *)
Definition translated_kinds : list stmt_kind :=
  [K_assign; K_assign_ret_prefix; K_augassign; K_tuple_assign; K_dev_known_method; K_sleep_call; K_bare_expr; K_break_in_while; K_break_in_for; K_continue_in_while; K_continue_in_for; K_for_range_1arg; K_if_stmt; K_while_stmt; K_try_except].
(* after the main loop nothing may be accepted: every statement there is unreachable in Python, so a
   translation would put it into a phase Python never runs it in (a second `while True:` merged into
   loop(), a `def` emitted as a function) and a silent skip would lose it without a diagnostic.  A
   comment line stays a comment line; the other lines of the fixed set (imports, target(), pass,
   print, global, docstrings) may be skipped or rejected - never translated. *)
Definition pinned_after_loop (k : stmt_kind) : option outcome :=
  match k with
  | K_comment_line | K_blank_line => Some Ignored
  | _ => if allowed k then None else Some Rejected
  end.
Definition after_loop_ok (r : row) : bool :=
  match row_ctx r with
  | AfterLoop => negb (outcome_eqb (row_outcome r) Translated)
  | _ => true
  end.
Definition pinned (k : stmt_kind) (c : context) : option outcome :=
  if ctx_eqb c AfterLoop then pinned_after_loop k
  else if existsb (kind_eqb k) translated_kinds then Some Translated
  else if allowed k then Some Ignored
  else match k, c with
       | K_return_value, Func | K_return_bare, Func => Some Translated
       | K_return_value, _ | K_return_bare, _ => Some Rejected      (* Python: 'return' outside function *)
       | K_break_outside_loop, _ => Some Rejected                    (* Python: 'break' outside loop; main loop: refused *)
       | K_continue_outside_loop, MainLoop => Some Translated        (* ends the current pass of loop(): `return;` *)
       | K_continue_outside_loop, _ => Some Rejected                 (* Python: 'continue' not properly in loop *)
       | K_nested_def, Top => Some Translated
       | _, _ => if former_gap k c then Some Rejected else None   (* unsupported statement: a diagnostic, never silence *)
       end.
Definition row_pinned_ok (r : row) : bool :=
  after_loop_ok r &&
  match pinned (row_kind r) (row_ctx r) with
  | Some o => outcome_eqb o (row_outcome r)
  | None => true
  end.
