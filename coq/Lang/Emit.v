(* C05 - what emit() (emitter.py 2450-3165) makes of the split program, as an abstract
   event trace: device configuration hoisted to the top of setup(), configuration emitted
   in place, the statements of setup(), then N passes of loop() each starting with the
   injected housekeeping.  Also: the [break] guard of _parse_simple_lines, parse()'s rejection of
   top-level statements after the main loop, the C lifetime of variables (every assigned name is a
   sketch global - also one first assigned inside [while True:] or promoted out of a block - so
   nothing is re-created or re-initialised), the reference (CPython) execution of the same items,
   and the temporal monitors that the harness also runs (extracted) on real firmware traces.
   No proofs in this file. *)
From Coq Require Import ZArith List Bool.
From RV Require Import Lang.Split.
Import ListNotations.
Open Scope Z_scope.

(* ------------------------------------------------------------------ events *)
Inductive res :=
| RPin (p : Z)            (* a pin: configured by pinMode *)
| RSer                    (* the UART: Serial.begin *)
| RServo (p : Z)          (* the Servo object attached to pin p: attach *)
| RLcd (l : name).        (* an LCD object: begin / init *)

Inductive ev :=
| EMark (id : Z)                 (* observable user statement number id *)
| EVal (x : name) (v : Z)        (* mon.write(x) printed v *)
| ECfg (r : res) (mode : Z)      (* pinMode(p, mode) 0 INPUT 1 OUTPUT 2 INPUT_PULLUP; begin/attach: mode 0 *)
| EUse (r : res) (w : bool)      (* a command touching r; w = output (write) / input (read) *)
| EPoll (p : Z)                  (* injected button sample: digitalRead(p) at the head of loop() *)
| ETick (l : name)               (* injected LCD animation tick *)
| EHand (id : Z)                 (* marker printed by an on_click handler called from a poll *)
| EHUse (r : res) (w : bool).    (* a command issued by such a handler *)

Definition res_eqb (a b : res) : bool :=
  match a, b with
  | RPin p, RPin q => p =? q
  | RSer, RSer => true
  | RServo p, RServo q => p =? q
  | RLcd l, RLcd m => name_eqb l m
  | _, _ => false
  end.

(* ------------------------------------------------------------------ device configuration *)
Definition pm (mode : Z) (pins : list Z) : list ev := map (fun p => ECfg (RPin p) mode) pins.
Definition wr (pins : list Z) : list ev := map (fun p => EUse (RPin p) true) pins.

Definition ultra_cfg (pins : list Z) : list ev :=
  match pins with t :: e :: _ => [ECfg (RPin t) 1; ECfg (RPin e) 0] | _ => [] end.

Definition servo_cfg (pins : list Z) : list ev :=
  match pins with p :: _ => [ECfg (RServo p) 0; EUse (RServo p) true] | [] => [] end.

(* emit() pass 1 over the top-level nodes of setup_body (lines 2635-2812): what goes to the
   top of setup() for a device declared before the main loop *)
Definition hoist_setup (d : decl) : list ev :=
  match d_kind d with
  | KButton => match d_pins d with
               | p :: _ => [ECfg (RPin p) 2; EUse (RPin p) false]     (* pinMode + setup sample *)
               | [] => [] end
  | KServo => servo_cfg (d_pins d)                                     (* attach + initial write *)
  | KMotor => pm 1 (d_pins d) ++ wr (d_pins d)                         (* pin modes + safe stop *)
  | KLcd => ECfg (RLcd (d_name d)) 0 ::                                (* begin/init *)
            match d_pins d with
            | bl :: _ => [ECfg (RPin bl) 1; EUse (RPin bl) true]       (* backlight pin *)
            | [] => [] end ++ [EUse (RLcd (d_name d)) true]            (* clear *)
  | KBuzzer => pm 1 (d_pins d)
  | KPot => pm 0 (d_pins d)
  | KLed | KRGB | KUltra | KSerial => []
  end.

(* emit() pass 1 over the top-level nodes of loop_body (lines 2826-2960) *)
Definition hoist_loop (d : decl) : list ev :=
  match d_kind d with
  | KButton => match d_pins d with
               | p :: _ => [ECfg (RPin p) 2; EUse (RPin p) false]     (* pinMode + setup sample (since 97f26e6) *)
               | [] => [] end
  | KServo => servo_cfg (d_pins d)
  | KMotor => pm 1 (d_pins d) ++ wr (d_pins d)
  | KLed => pm 1 (d_pins d)
  | KRGB => pm 1 (d_pins d)
  | KUltra => ultra_cfg (d_pins d)
  | KPot => pm 0 (d_pins d)
  | KBuzzer | KLcd | KSerial => []                                      (* not hoisted *)
  end.

Definition hoisted_kind (k : kind) : bool :=
  match k with KBuzzer | KLcd | KSerial => false | _ => true end.

(* _emit_block at the declaration itself.  [top]: the node is a top-level node of
   setup_body / loop_body (then pass 1 has already claimed the Buzzer / DCMotor keys). *)
Definition inplace_cfg (top in_setup : bool) (d : decl) : list ev :=
  match d_kind d with
  | KSerial => [ECfg RSer 0]                                            (* Serial.begin, wherever it is *)
  | KLed => if in_setup then pm 1 (d_pins d) else []
  | KRGB => if in_setup then pm 1 (d_pins d) else []
  | KUltra => if in_setup then ultra_cfg (d_pins d) else []
  | KMotor => if in_setup then (if top then [] else pm 1 (d_pins d)) ++ wr (d_pins d) else []
  | KBuzzer => if in_setup && negb top then pm 1 (d_pins d) else []
  | KServo | KButton | KPot | KLcd => []
  end.

Fixpoint find_decl (nm : name) (tab : list decl) : option decl :=
  match tab with
  | [] => None
  | d :: r => if name_eqb nm (d_name d) then Some d else find_decl nm r
  end.

(* the resources a command on device [d] touches *)
Definition dev_use (d : decl) : list ev :=
  match d_kind d with
  | KLed | KRGB | KMotor | KBuzzer => wr (d_pins d)
  | KServo => match d_pins d with p :: _ => [EUse (RServo p) true] | [] => [] end
  | KButton => []                                                       (* is_pressed reads the cached sample *)
  | KPot => map (fun p => EUse (RPin p) false) (d_pins d)
  | KUltra => match d_pins d with t :: e :: _ => [EUse (RPin t) true; EUse (RPin e) false] | _ => [] end
  | KLcd => [EUse (RLcd (d_name d)) true]
  | KSerial => [EUse RSer true]
  end.

Definition uses (tab : list decl) (dev : option name) : list ev :=
  match dev with
  | None => []
  | Some nm => match find_decl nm tab with Some d => dev_use d | None => [] end
  end.

(* ------------------------------------------------------------------ the dedup sets of emit() *)
(* One list of keys stands for pin_mode_emitted, ultrasonic_pin_modes, loop_ultrasonic_modes,
   button_init_emitted, servo_attach_emitted and lcd_init_emitted: a key is (device name, pin, tag) and the tag
   says which set / which role:   1 Buzzer "OUTPUT"   10,11,12 RGBLed channel "0","1","2"   20,21,22 DCMotor
   in1,in2,enable   30 Button mode   40 Potentiometer "INPUT"   50,51 Ultrasonic trig/echo declared in setup()
   (ultrasonic_pin_modes)   60,61 Ultrasonic trig/echo hoisted from the loop (loop_ultrasonic_modes)
   100 Led (the 2-tuple (name, pin))   70 button_init_emitted   71 servo_attach_emitted   72 lcd_init_emitted
   (the last three are per name: pin 0). *)
Definition key := (name * Z * Z)%type.

Definition key_eqb (a b : key) : bool :=
  name_eqb (fst (fst a)) (fst (fst b)) && (snd (fst a) =? snd (fst b)) && (snd a =? snd b).

Definition kmem (k : key) (seen : list key) : bool := existsb (key_eqb k) seen.

(* [pinMode(p, mode)] for every pin whose key (nm, p, tag + i*step) has not been emitted yet *)
Fixpoint pm_dedup (nm : name) (mode tag step : Z) (pins : list Z) (seen : list key) : list ev * list key :=
  match pins with
  | [] => ([], seen)
  | p :: r =>
      if kmem (nm, p, tag) seen then pm_dedup nm mode (tag + step) step r seen
      else let (t, s') := pm_dedup nm mode (tag + step) step r ((nm, p, tag) :: seen) in
           (ECfg (RPin p) mode :: t, s')
  end.

(* emit() pass 1 over the top-level nodes of setup_body, with the dedup sets *)
Definition hoist_setupD (d : decl) (seen : list key) : list ev * list key :=
  let nm := d_name d in
  match d_kind d with
  | KButton => match d_pins d with
               | p :: _ =>
                   if kmem (nm, 0, 70) seen then ([], seen)
                   else let (t, s') := pm_dedup nm 2 30 0 [p] seen in
                        (t ++ [EUse (RPin p) false], (nm, 0, 70) :: s')
               | [] => ([], seen) end
  | KServo => if kmem (nm, 0, 71) seen then ([], seen) else (servo_cfg (d_pins d), (nm, 0, 71) :: seen)
  | KMotor => let (t, s') := pm_dedup nm 1 20 1 (d_pins d) seen in (t ++ wr (d_pins d), s')
  | KLcd => if kmem (nm, 0, 72) seen then ([], seen) else (hoist_setup d, (nm, 0, 72) :: seen)
  | KBuzzer => pm_dedup nm 1 1 0 (d_pins d) seen
  | KPot => pm_dedup nm 0 40 0 (d_pins d) seen
  | KLed | KRGB | KUltra | KSerial => ([], seen)
  end.

(* ... of loop_body.  The Led line is appended unconditionally (emitter.py 2895). *)
Definition hoist_loopD (d : decl) (seen : list key) : list ev * list key :=
  let nm := d_name d in
  match d_kind d with
  | KButton => match d_pins d with
               | p :: _ =>                                   (* emitter.py 2837-2847: pinMode by key, then the *)
                   let (t, s') := pm_dedup nm 2 30 0 [p] seen in      (* start-up sample once per name *)
                   if kmem (nm, 0, 70) s' then (t, s')
                   else (t ++ [EUse (RPin p) false], (nm, 0, 70) :: s')
               | [] => ([], seen) end
  | KServo => if kmem (nm, 0, 71) seen then ([], seen) else (servo_cfg (d_pins d), (nm, 0, 71) :: seen)
  | KMotor => let (t, s') := pm_dedup nm 1 20 1 (d_pins d) seen in (t ++ wr (d_pins d), s')
  | KLed => (pm 1 (d_pins d), seen)
  | KRGB => pm_dedup nm 1 10 1 (d_pins d) seen
  | KUltra => match d_pins d with
              | t :: e :: _ =>
                  let (a, s1) := pm_dedup nm 1 60 0 [t] seen in
                  let (b, s2) := pm_dedup nm 0 61 0 [e] s1 in (a ++ b, s2)
              | _ => ([], seen) end
  | KPot => pm_dedup nm 0 40 0 (d_pins d) seen
  | KBuzzer | KLcd | KSerial => ([], seen)
  end.

(* _emit_block at a declaration that is a top-level node of setup_body / loop_body (pass 2) *)
Definition inplaceD (in_setup : bool) (d : decl) (seen : list key) : list ev * list key :=
  let nm := d_name d in
  match d_kind d with
  | KSerial => ([ECfg RSer 0], seen)
  | KLed => if in_setup then pm_dedup nm 1 100 0 (d_pins d) seen else ([], seen)
  | KRGB => if in_setup then pm_dedup nm 1 10 1 (d_pins d) seen else ([], seen)
  | KUltra => if in_setup then
                match d_pins d with
                | t :: e :: _ =>
                    let (a, s1) := pm_dedup nm 1 50 0 [t] seen in
                    let (b, s2) := pm_dedup nm 0 51 0 [e] s1 in (a ++ b, s2)
                | _ => ([], seen) end
              else ([], seen)
  | KMotor => if in_setup then let (t, s') := pm_dedup nm 1 20 1 (d_pins d) seen in (t ++ wr (d_pins d), s')
              else ([], seen)
  | KBuzzer => if in_setup then pm_dedup nm 1 1 0 (d_pins d) seen else ([], seen)
  | KServo | KButton | KPot | KLcd => ([], seen)
  end.

(* ------------------------------------------------------------------ which declaration a command resolves to *)
(* Led / RGBLed / DCMotor / Buzzer (dicts re-assigned by _emit_block at every declaration) and Potentiometer
   (resolved by the parser, in source order): the textually most recent declaration of the name.
   Servo: one [Servo __servo_<name>] object per NAME, attached once - to the pin of the first Servo declaration of
   that name in pass-1 order; every write of that name goes to this object.
   Ultrasonic: one helper [__redu_ultrasonic_measure_<name>] per NAME, generated after pass 2 from the LAST
   Ultrasonic declaration of that name; every measurement of that name uses these pins. *)
Definition same_kn (a b : decl) : bool := kind_eqb (d_kind a) (d_kind b) && name_eqb (d_name a) (d_name b).

Definition first_of (G : list decl) (d : decl) : decl :=
  match find (same_kn d) G with Some x => x | None => d end.

Definition redirect (G : list decl) (d : decl) : decl :=
  match d_kind d with
  | KServo => first_of G d
  | KUltra => first_of (rev G) d
  | _ => d
  end.

(* the state pass 2 carries from one top-level statement to the next: the binding table (most recent first)
   and the dedup keys *)
Record tstate := mkT { ts_tab : list decl; ts_seen : list key }.

Definition adv (G : list decl) (in_setup : bool) (st : tstate) (s : stmt) : tstate :=
  match s with
  | SDecl dd => mkT (redirect G dd :: ts_tab st) (snd (inplaceD in_setup dd (ts_seen st)))
  | _ => st
  end.

Definition adv_all (G : list decl) (in_setup : bool) (st : tstate) (l : list (list name * stmt)) : tstate :=
  fold_left (fun st ds => adv G in_setup st (snd ds)) l st.

(* ------------------------------------------------------------------ the break guard (parser.py 2355-2360) *)
Fixpoint bg (main : bool) (ld : nat) (s : stmt) : bool :=
  match s with
  | SBreak => negb (Nat.eqb ld 0) && negb (main && Nat.eqb ld 1)
  | SIf _ b e => forallb (bg main ld) b && forallb (bg main ld) e
  | SFor _ b => forallb (bg main (S ld)) b
  | SWhile _ b => forallb (bg main (S ld)) b
  | STry b h => forallb (bg main ld) b && forallb (bg main ld) h     (* handler bodies inherit main_loop / loop_depth *)
  | _ => true
  end.

Definition item_ok (it : item) : bool :=
  match it with
  | IStmt s => bg false 0 s
  | IMainLoop b => forallb (bg true 1) b
  | IFunc _ b => forallb (bg false 0) b
  end.

(* parse() does not raise "cannot break out of the main loop()" / "'break' outside loop" *)
Definition breaks_ok (its : list item) : bool := forallb item_ok its.

(* one main loop, and it is the last top-level item: parse() raises "statements after the main loop are
   unreachable" for ANY top-level statement (another [while True:], a def, a plain statement) after the first
   column-0 [while True:] block *)
Definition is_main (it : item) : bool := match it with IMainLoop _ => true | _ => false end.
Definition no_main (its : list item) : bool := forallb (fun it => negb (is_main it)) its.

Fixpoint main_last (its : list item) : bool :=
  match its with
  | [] => true
  | [IMainLoop _] => true
  | it :: r => negb (is_main it) && main_last r
  end.

(* no [while True:] at all, or exactly one and nothing after it *)
Definition one_main_last (its : list item) : bool := main_last its.

(* parse() accepts the program *)
Definition transl_ok (its : list item) : bool := breaks_ok its && one_main_last its.

(* ------------------------------------------------------------------ variable store *)
Record vstate := mkV { v_vars : list (name * Z); v_undef : bool }.

Fixpoint vlookup (x : name) (l : list (name * Z)) : option Z :=
  match l with
  | [] => None
  | (y, v) :: r => if name_eqb x y then Some v else vlookup x r
  end.

Fixpoint vset (x : name) (v : Z) (l : list (name * Z)) : list (name * Z) :=
  match l with
  | [] => [(x, v)]
  | (y, w) :: r => if name_eqb x y then (x, v) :: r else (y, w) :: vset x v r
  end.

(* reading a name that has no value: CPython NameError / C++ use before declaration;
   the run goes on with 0 and the sticky flag says the run is outside the model *)
Definition vread (x : name) (vs : vstate) : Z * vstate :=
  match vlookup x (v_vars vs) with
  | Some v => (v, vs)
  | None => (0, mkV (v_vars vs) true)
  end.

Definition vwrite (x : name) (v : Z) (vs : vstate) : vstate := mkV (vset x v (v_vars vs)) (v_undef vs).

Definition eval (e : rhs) (vs : vstate) : Z * vstate :=
  match e with
  | RConst z => (z, vs)
  | RAdd x z => let (v, vs') := vread x vs in (v + z, vs')
  end.

(* [T x = <default>;] for each promoted name *)
Definition reset (nn : list name) (vs : vstate) : vstate := fold_left (fun s x => vwrite x 0 s) nn vs.

(* locals of loop() go out of scope at the end of a pass (there are none: [Split.classify]) *)
Definition drop (nn : list name) (vs : vstate) : vstate :=
  mkV (filter (fun kv => negb (mem_name (fst kv) nn)) (v_vars vs)) (v_undef vs).

(* ------------------------------------------------------------------ statements *)
Inductive mode := MPy | MC.      (* reference CPython execution | the emitted C++ *)

(* The emitted C++ re-initialises nothing: the declaration promoted out of a block is a sketch global at setup depth 0
   and at the body level of the main loop, and the default-initialised [VarDecl(hoisted)] of a deeper level is dropped
   by the enclosing block's rewrite (it used to become [x = <default>;] at the head of the block).  The two modes now
   run the same statements; the parameter stays because the theorems are equations between the two. *)
Definition resets_here (m : mode) (top in_setup : bool) : bool := false.

(* a nested [while x:] is run for at most [while_fuel] iterations; a run that needs more is outside the model
   (sticky flag, as for a read of an unbound name) *)
Definition while_fuel : nat := 64.

Definition out_of_fuel (vs : vstate) : vstate := mkV (v_vars vs) true.

(* [T x = <default>;] in front of a block for the names promoted out of it: nowhere ([resets_here]) *)
Definition pre_reset (m : mode) (top in_setup : bool) (declared : list name) (nn : list name) (vs : vstate) : vstate :=
  if resets_here m top in_setup then reset (fresh declared nn) vs else vs.

(* result: store, trace, "a break is propagating".  An [except] handler never runs: nothing in this fragment raises
   (in CPython as in C++); it matters for the break guard, for promotion and for the IR only. *)
Fixpoint run_stmt (m : mode) (tab : list decl) (top in_setup : bool) (declared : list name)
         (s : stmt) (vs : vstate) {struct s} : vstate * list ev * bool :=
  let blk := fix go (d : list name) (l : list stmt) (v : vstate) : vstate * list ev * bool :=
               match l with
               | [] => (v, [], false)
               | s1 :: r =>
                   match run_stmt m tab false in_setup d s1 v with
                   | (v1, t1, true) => (v1, t1, true)
                   | (v1, t1, false) =>
                       match go (d ++ assigned_stmt s1) r v1 with (v2, t2, b2) => (v2, t1 ++ t2, b2) end
                   end
               end in
  match s with
  | SMark id dev => (vs, uses tab dev ++ [EMark id], false)
  | SDecl d => (vs, inplace_cfg top in_setup d, false)
  | SSet x e => let (v, vs1) := eval e vs in (vwrite x v vs1, [], false)
  | SShow dev x => let (v, vs1) := vread x vs in (vs1, uses tab (Some dev) ++ [EVal x v], false)
  | SAnim l => (vs, uses tab (Some l), false)
  | SBreak => (vs, [], true)
  | SIf x body els =>
      let (c, vs1) := vread x (pre_reset m top in_setup declared (assigned_stmt s) vs) in
      if c =? 0 then blk declared els vs1 else blk declared body vs1
  | SFor cnt body =>
      (fix iter (k : nat) (v : vstate) : vstate * list ev * bool :=
         match k with
         | O => (v, [], false)
         | S k' =>
             match blk declared body v with
             | (v1, t1, true) => (v1, t1, false)            (* break leaves this loop only *)
             | (v1, t1, false) => match iter k' v1 with (v2, t2, b2) => (v2, t1 ++ t2, b2) end
             end
         end) cnt (pre_reset m top in_setup declared (assigned_stmt s) vs)
  | SWhile x body =>
      (fix iter (k : nat) (v : vstate) : vstate * list ev * bool :=
         match k with
         | O => (out_of_fuel v, [], false)
         | S k' =>
             let (c, v0) := vread x v in
             if c =? 0 then (v0, [], false)
             else match blk declared body v0 with
                  | (v1, t1, true) => (v1, t1, false)       (* break leaves this loop only *)
                  | (v1, t1, false) => match iter k' v1 with (v2, t2, b2) => (v2, t1 ++ t2, b2) end
                  end
         end) while_fuel (pre_reset m top in_setup declared (assigned_stmt s) vs)
  | STry body _ => blk declared body (pre_reset m top in_setup declared (assigned_stmt s) vs)
  end.

(* a block of statements parsed one after the other in the same ctx *)
Fixpoint run_list (m : mode) (tab : list decl) (top in_setup : bool) (d : list name)
         (l : list stmt) (v : vstate) : vstate * list ev * bool :=
  match l with
  | [] => (v, [], false)
  | s1 :: r =>
      match run_stmt m tab top in_setup d s1 v with
      | (v1, t1, true) => (v1, t1, true)
      | (v1, t1, false) =>
          match run_list m tab top in_setup (d ++ assigned_stmt s1) r v1 with
          | (v2, t2, b2) => (v2, t1 ++ t2, b2)
          end
      end
  end.

(* top-level statements each carry the var_declared they were parsed with *)
Fixpoint run_ann (m : mode) (tab : list decl) (in_setup : bool)
         (l : list (list name * stmt)) (v : vstate) : vstate * list ev * bool :=
  match l with
  | [] => (v, [], false)
  | (d, s1) :: r =>
      match run_stmt m tab true in_setup d s1 v with
      | (v1, t1, true) => (v1, t1, true)
      | (v1, t1, false) =>
          match run_ann m tab in_setup r v1 with (v2, t2, b2) => (v2, t1 ++ t2, b2) end
      end
  end.

(* the top-level statements of setup() / loop() as emit() prints them: a device declaration emits its
   (dedup-filtered) in-place configuration and re-binds its name; any other statement runs with the bindings
   in force at that point of the text *)
Definition top_ev (m : mode) (in_setup : bool) (st : tstate) (d : list name) (s : stmt) (v : vstate)
  : vstate * list ev * bool :=
  match s with
  | SDecl dd => (v, fst (inplaceD in_setup dd (ts_seen st)), false)
  | _ => run_stmt m (ts_tab st) true in_setup d s v
  end.

Fixpoint run_annT (G : list decl) (m : mode) (in_setup : bool) (st : tstate)
         (l : list (list name * stmt)) (v : vstate) : vstate * list ev * bool :=
  match l with
  | [] => (v, [], false)
  | (d, s1) :: r =>
      match top_ev m in_setup st d s1 v with
      | (v1, t1, true) => (v1, t1, true)
      | (v1, t1, false) =>
          match run_annT G m in_setup (adv G in_setup st s1) r v1 with (v2, t2, b2) => (v2, t1 ++ t2, b2) end
      end
  end.

(* ------------------------------------------------------------------ housekeeping *)
Record hstate := mkH { h_prev : list (name * bool); h_cnt : list (Z * nat) }.

Fixpoint blookup (x : name) (l : list (name * bool)) : bool :=
  match l with
  | [] => false                                  (* bool __redu_button_prev_x = false; *)
  | (y, v) :: r => if name_eqb x y then v else blookup x r
  end.

Fixpoint clookup (p : Z) (l : list (Z * nat)) : nat :=
  match l with
  | [] => O
  | (q, k) :: r => if p =? q then k else clookup p r
  end.

(* the next digitalRead of pin p; the world is the oracle [inp pin k] = k-th level read *)
Definition sample (inp : Z -> nat -> bool) (p : Z) (h : hstate) : bool * hstate :=
  let k := clookup p (h_cnt h) in
  (inp p k, mkH (h_prev h) ((p, S k) :: h_cnt h)).

Definition set_prev (b : name) (v : bool) (h : hstate) : hstate := mkH ((b, v) :: h_prev h) (h_cnt h).

Definition handler_events (tab : list decl) (body : list stmt) : list ev :=
  flat_map (fun s => match s with
                     | SMark id dev =>
                         map (fun e => match e with EUse r w => EHUse r w | _ => e end) (uses tab dev) ++ [EHand id]
                     | _ => [] end) body.

Fixpoint find_func (f : name) (fs : list (name * list stmt)) : list stmt :=
  match fs with
  | [] => []
  | (g, b) :: r => if name_eqb f g then b else find_func f r
  end.

Record program := mkP {
  p_items : list item;
  p_tab : list decl;                     (* every declaration of the file *)
  p_top_setup : list decl;               (* declarations that are top-level nodes of setup_body *)
  p_top_loop : list decl;                (* ... of loop_body *)
  p_setup : list (list name * stmt);
  p_loop : list (list name * stmt);
  p_polls : list name;
  p_ticks : list name;
  p_funcs : list (name * list stmt);
  p_locals : list name
}.

Definition transl (its : list item) : program :=
  let sp := split_d [] its in
  mkP its
      (flat_map decls_stmt (all_stmts its))
      (flat_map top_decl (fst (split its)))
      (flat_map top_decl (snd (split its)))
      (fst sp) (snd sp)
      (poll_names its) (tick_names its) (funcs its) (locals_of its).

(* ButtonPoll: only buttons that are top-level declarations are in button_decls; a later declaration of the
   same name replaces the earlier one (button_decls[node.name] = node in both pass-1 loops) *)
Definition button_decl (p : program) (b : name) : option decl :=
  match find_decl b (filter is_button (rev (p_top_setup p ++ p_top_loop p))) with
  | Some d => Some d
  | None => None
  end.

(* pass 1 of emit(): hoisted configuration, threading the dedup keys through setup_body then loop_body *)
Fixpoint hoist_fold (f : decl -> list key -> list ev * list key) (l : list decl) (seen : list key)
  : list ev * list key :=
  match l with
  | [] => ([], seen)
  | d :: r => let (t1, s1) := f d seen in let (t2, s2) := hoist_fold f r s1 in (t1 ++ t2, s2)
  end.

Definition hoistsD (p : program) : list ev * list key :=
  let (t1, s1) := hoist_fold hoist_setupD (p_top_setup p) [] in
  let (t2, s2) := hoist_fold hoist_loopD (p_top_loop p) s1 in (t1 ++ t2, s2).

Definition p_G (p : program) : list decl := p_top_setup p ++ p_top_loop p.

(* the dicts after pass 1: a later setup declaration overwrites an earlier one, a loop declaration is entered
   only if the name is still absent; names declared elsewhere (nested blocks, functions) are looked up last *)
Definition st0 (p : program) : tstate :=
  mkT (map (redirect (p_G p)) (rev (p_top_setup p) ++ p_top_loop p) ++ p_tab p) (snd (hoistsD p)).

Definition stS (p : program) : tstate := adv_all (p_G p) true (st0 p) (p_setup p).

(* functions are emitted after pass 2, from copies of the dicts *)
Definition p_tabF (p : program) : list decl := ts_tab (adv_all (p_G p) false (stS p) (p_loop p)).

(* ButtonPoll (emitter.py 1110-1128): next = digitalRead(pin); value = next; if (next && !prev) handler(); prev = next.
   Since 97f26e6 the cached value is stored before the handler is called; is_pressed() reads that cache and touches no
   pin, so the order is not visible in this event vocabulary (it is C15's clause). *)
Definition poll_one (inp : Z -> nat -> bool) (p : program) (b : name) (h : hstate) : hstate * list ev :=
  match button_decl p b with
  | Some d =>
      match d_pins d with
      | pin :: _ =>
          let (lvl, h1) := sample inp pin h in
          let click := lvl && negb (blookup b (h_prev h1)) in
          (set_prev b lvl h1,
           EPoll pin :: (if click then match d_handler d with
                                       | Some f => handler_events (p_tabF p) (find_func f (p_funcs p))
                                       | None => [] end else []))
      | [] => (h, [])
      end
  | None => (h, [])
  end.

Fixpoint poll_all (inp : Z -> nat -> bool) (p : program) (bs : list name) (h : hstate) : hstate * list ev :=
  match bs with
  | [] => (h, [])
  | b :: r => let (h1, t1) := poll_one inp p b h in
              let (h2, t2) := poll_all inp p r h1 in (h2, t1 ++ t2)
  end.

(* LCDTick: one tick call per animation that setup() has registered for a known LCD *)
Definition is_lcd (d : decl) : bool := kind_eqb (d_kind d) KLcd.

Definition anim_count (p : program) (l : name) : nat :=
  match find_decl l (filter is_lcd (p_top_setup p)) with
  | Some _ => length (filter (name_eqb l) (flat_map anims_stmt (map snd (p_setup p))))
  | None => O
  end.

Definition tick_events (p : program) : list ev :=
  flat_map (fun l => repeat (ETick l) (anim_count p l)) (p_ticks p).

(* ------------------------------------------------------------------ setup() and loop() *)
Definition setup_sample (inp : Z -> nat -> bool) (d : decl) (h : hstate) : hstate :=
  match d_kind d, d_pins d with
  | KButton, pin :: _ => let (lvl, h1) := sample inp pin h in set_prev (d_name d) lvl h1
  | _, _ => h
  end.

Definition hoists (p : program) : list ev := fst (hoistsD p).

Definition v0 : vstate := mkV [] false.
Definition h0 : hstate := mkH [] [].

(* button_init_emitted: only the first top-level declaration of a Button name (setup_body first, then the top of
   loop_body) takes the start-up sample *)
Fixpoint first_buttons (seen : list name) (l : list decl) : list decl :=
  match l with
  | [] => []
  | d :: r =>
      if is_button d then
        if mem_name (d_name d) seen then first_buttons seen r else d :: first_buttons (d_name d :: seen) r
      else first_buttons seen r
  end.

Definition setup_h (inp : Z -> nat -> bool) (p : program) : hstate :=
  fold_left (fun h d => setup_sample inp d h) (first_buttons [] (p_top_setup p ++ p_top_loop p)) h0.

Definition run_setup (m : mode) (inp : Z -> nat -> bool) (p : program) : vstate * hstate * list ev :=
  match run_annT (p_G p) m true (st0 p) (p_setup p) v0 with
  | (v, t, _) => (v, setup_h inp p, hoists p ++ t)
  end.

(* one pass of loop(): polls, ticks, user statements; returns also whether the pass was cut short *)
Definition run_pass (m : mode) (inp : Z -> nat -> bool) (p : program) (v : vstate) (h : hstate)
  : vstate * hstate * list ev * bool :=
  let (h1, tp) := poll_all inp p (p_polls p) h in
  match run_annT (p_G p) m false (stS p) (p_loop p) v with
  | (v1, tb, brk) =>
      (match m with MC => drop (p_locals p) v1 | MPy => v1 end, h1, tp ++ tick_events p ++ tb, brk)
  end.

Fixpoint run_passes (m : mode) (inp : Z -> nat -> bool) (p : program) (n : nat) (v : vstate) (h : hstate)
  : vstate * list (list ev) :=
  match n with
  | O => (v, [])
  | S n' =>
      match run_pass m inp p v h with
      | (v1, h1, t, _) => let (v2, ts) := run_passes m inp p n' v1 h1 in (v2, t :: ts)
      end
  end.

(* the firmware: setup trace, then the traces of n passes *)
Definition exec_phases (inp : Z -> nat -> bool) (n : nat) (its : list item) : list ev * list (list ev) * bool :=
  let p := transl its in
  match run_setup MC inp p with
  | (v, h, ts) => let (v', tl) := run_passes MC inp p n v h in (ts, tl, v_undef v')
  end.

Definition exec (inp : Z -> nat -> bool) (n : nat) (its : list item) : list ev :=
  match exec_phases inp n its with (ts, tl, _) => ts ++ concat tl end.

(* ------------------------------------------------------------------ the reference: what Python does *)
Fixpoint py_loop (tab : list decl) (d : list name) (body : list stmt) (n : nat) (v : vstate)
  : vstate * list (list ev) :=
  match n with
  | O => (v, [])
  | S n' =>
      match run_list MPy tab true false d body v with
      | (v1, t, _) => let (v2, ts) := py_loop tab d body n' v1 in (v2, t :: ts)
      end
  end.

(* statements run in textual order; the first [while True:] never terminates, so nothing
   after it is ever reached; it is observed for n passes *)
Fixpoint py_items (tab : list decl) (d : list name) (its : list item) (n : nat) (v : vstate)
  : vstate * list ev * list (list ev) :=
  match its with
  | [] => (v, [], [])
  | IStmt s :: r =>
      match run_stmt MPy tab true true d s v with
      | (v1, t1, _) =>
          match py_items tab (d ++ assigned_stmt s) r n v1 with (v2, t2, tl) => (v2, t1 ++ t2, tl) end
      end
  | IMainLoop body :: _ => let (v1, tl) := py_loop tab d body n v in (v1, [], tl)
  | IFunc _ _ :: r => py_items tab d r n v
  end.

Definition py_phases (n : nat) (its : list item) : list ev * list (list ev) * bool :=
  match py_items (flat_map decls_stmt (all_stmts its)) [] its n v0 with
  | (v, ts, tl) => (ts, tl, v_undef v)
  end.

(* what a user can tell apart: the numbered statements and the printed values *)
Definition is_obs (e : ev) : bool := match e with EMark _ | EVal _ _ => true | _ => false end.
Definition obs (t : list ev) : list ev := filter is_obs t.

Definition py_exec (n : nat) (its : list item) : list ev :=
  match py_phases n its with (ts, tl, _) => obs ts ++ concat (map obs tl) end.

(* ------------------------------------------------------------------ temporal monitors *)
Definition compat (r : res) (m : Z) (w : bool) : bool :=
  match r with
  | RPin _ => if w then m =? 1 else (m =? 0) || (m =? 2)
  | _ => true
  end.

Definition has_cfg (cfg : list (res * Z)) (r : res) (w : bool) : bool :=
  existsb (fun c => res_eqb r (fst c) && compat r (snd c) w) cfg.

(* every command on a resource is preceded by a fitting configuration of that resource *)
Fixpoint cbu_go (cfg : list (res * Z)) (t : list ev) : bool :=
  match t with
  | [] => true
  | ECfg r m :: t' => cbu_go ((r, m) :: cfg) t'
  | EUse r w :: t' => has_cfg cfg r w && cbu_go cfg t'
  | EHUse r w :: t' => has_cfg cfg r w && cbu_go cfg t'
  | EPoll p :: t' => has_cfg cfg (RPin p) false && cbu_go cfg t'
  | ETick l :: t' => has_cfg cfg (RLcd l) true && cbu_go cfg t'
  | _ :: t' => cbu_go cfg t'
  end.

Definition cbu (t : list ev) : bool := cbu_go [] t.

(* the configurations a trace has established, and what one event needs from them *)
Definition cstep (c : list (res * Z)) (e : ev) : list (res * Z) :=
  match e with ECfg r m => (r, m) :: c | _ => c end.
Definition cfgs (t : list ev) (c : list (res * Z)) : list (res * Z) := fold_left cstep t c.

Definition safe (c : list (res * Z)) (e : ev) : bool :=
  match e with
  | EUse r w => has_cfg c r w
  | EHUse r w => has_cfg c r w
  | EPoll p => has_cfg c (RPin p) false
  | ETick l => has_cfg c (RLcd l) true
  | _ => true
  end.

Definition pin_cfgs (t : list ev) : list (Z * Z) :=
  flat_map (fun e => match e with ECfg (RPin p) m => [(p, m)] | _ => [] end) t.

Definition functional (l : list (Z * Z)) : bool :=
  forallb (fun a => forallb (fun b => negb (fst a =? fst b) || (snd a =? snd b)) l) l.

(* no pin is ever configured to two different modes *)
Definition one_mode (t : list ev) : bool := functional (pin_cfgs t).

Definition is_hk (e : ev) : bool :=
  match e with EPoll _ | ETick _ | EHand _ | EHUse _ _ => true | _ => false end.

Fixpoint skip_hand (t : list ev) : list ev :=
  match t with EHand _ :: r => skip_hand r | EHUse _ _ :: r => skip_hand r | _ => t end.

Fixpoint eat_polls (ps : list Z) (t : list ev) : option (list ev) :=
  match ps with
  | [] => Some t
  | p :: ps' =>
      match t with
      | EPoll q :: r => if p =? q then eat_polls ps' (skip_hand r) else None
      | _ => None
      end
  end.

Fixpoint eat_ticks (ls : list name) (t : list ev) : option (list ev) :=
  match ls with
  | [] => Some t
  | l :: ls' =>
      match t with
      | ETick k :: r => if name_eqb l k then eat_ticks ls' r else None
      | _ => None
      end
  end.

(* a pass = exactly the expected polls (each followed only by its handler's output), then
   exactly the expected ticks, then user events only *)
Definition hk_ok (ps : list Z) (ls : list name) (t : list ev) : bool :=
  match eat_polls ps t with
  | Some t1 =>
      match eat_ticks ls t1 with
      | Some t2 => forallb (fun e => negb (is_hk e)) t2
      | None => false
      end
  | None => false
  end.

(* the pins polled at the head of each pass, in order, and the ticks, in order *)
Definition poll_pins (p : program) : list Z :=
  flat_map (fun b => match button_decl p b with
                     | Some d => match d_pins d with pin :: _ => [pin] | [] => [] end
                     | None => [] end) (p_polls p).

Definition tick_list (p : program) : list name :=
  flat_map (fun l => repeat l (anim_count p l)) (p_ticks p).

(* ------------------------------------------------------------------ guards *)
(* device placement *)
Definition flat_stmt (s : stmt) : bool :=
  match s with SIf _ _ _ | SFor _ _ | SWhile _ _ | STry _ _ => false | _ => true end.

Fixpoint nodup_names (l : list name) : bool :=
  match l with [] => true | x :: r => negb (mem_name x r) && nodup_names r end.

Definition stmt_dev (s : stmt) : list name :=
  match s with
  | SMark _ (Some d) => [d]
  | SShow d _ => [d]
  | SAnim l => [l]
  | _ => []
  end.

Fixpoint devs_stmt (s : stmt) : list name :=
  match s with
  | SIf _ b e => flat_map devs_stmt b ++ flat_map devs_stmt e
  | SFor _ b => flat_map devs_stmt b
  | SWhile _ b => flat_map devs_stmt b
  | STry b h => flat_map devs_stmt b ++ flat_map devs_stmt h
  | _ => stmt_dev s
  end.

(* devices are declared by top-level statements only (not inside if / for / while / try blocks) *)
Definition nested_decl_free (s : stmt) : bool :=
  match s with
  | SDecl _ => true
  | _ => match decls_stmt s with [] => true | _ => false end
  end.

Definition names_in (nms : list name) (known : list name) : bool := forallb (fun x => mem_name x known) nms.

(* statements of setup() in order: a device is used only after its own declaration *)
Fixpoint setup_order (known : list name) (l : list stmt) : bool :=
  match l with
  | [] => true
  | s :: r => names_in (devs_stmt s) known && setup_order (map d_name (top_decl s) ++ known) r
  end.

(* the resources a declaration needs configured, with the mode the emitter gives them *)
Definition decl_pin_modes (d : decl) : list (Z * Z) :=
  match d_kind d with
  | KLed | KRGB | KMotor | KBuzzer => map (fun p => (p, 1)) (d_pins d)
  | KButton => match d_pins d with p :: _ => [(p, 2)] | [] => [] end
  | KPot => map (fun p => (p, 0)) (d_pins d)
  | KUltra => match d_pins d with t :: e :: _ => [(t, 1); (e, 0)] | _ => [] end
  | KLcd => match d_pins d with bl :: _ => [(bl, 1)] | [] => [] end
  | KServo | KSerial => []
  end.

(* a command on the device bound to [nm] in table [tab] touches only resources configured in [cfg] *)
Definition uses_ok (cfg : list (res * Z)) (tab : list decl) (nm : name) : bool :=
  forallb (safe cfg) (uses tab (Some nm)).

(* setup(), statement by statement, with the bindings and dedup keys of that point of the text: the in-place
   configuration of a declaration is self-contained given what precedes it (a DCMotor's safe-stop writes), and
   every device a statement mentions - at any nesting depth - resolves to configured resources *)
Fixpoint setup_chk (G : list decl) (st : tstate) (cfg : list (res * Z)) (l : list (list name * stmt)) : bool :=
  match l with
  | [] => true
  | (_, s) :: r =>
      match s with
      | SDecl dd =>
          let t := fst (inplaceD true dd (ts_seen st)) in
          cbu_go cfg t && setup_chk G (adv G true st s) (cfgs t cfg) r
      | _ => forallb (uses_ok cfg (ts_tab st)) (devs_stmt s) && setup_chk G st cfg r
      end
  end.

(* the configuration events setup()'s top-level declarations emit in place *)
Fixpoint setup_cfgs (G : list decl) (st : tstate) (l : list (list name * stmt)) : list ev :=
  match l with
  | [] => []
  | (_, s) :: r =>
      match s with
      | SDecl dd => fst (inplaceD true dd (ts_seen st)) ++ setup_cfgs G (adv G true st s) r
      | _ => setup_cfgs G st r
      end
  end.

Fixpoint loop_chk (G : list decl) (st : tstate) (cfg : list (res * Z)) (l : list (list name * stmt)) : bool :=
  match l with
  | [] => true
  | (_, s) :: r =>
      match s with
      | SDecl _ => loop_chk G (adv G false st s) cfg r
      | _ => forallb (uses_ok cfg (ts_tab st)) (devs_stmt s) && loop_chk G st cfg r
      end
  end.

Definition count_name (x : name) (l : list name) : nat := length (filter (name_eqb x) l).

(* everything setup() has configured when the first pass starts *)
Definition cfg_setup (p : program) : list (res * Z) :=
  cfgs (setup_cfgs (p_G p) (st0 p) (p_setup p)) (cfgs (hoists p) []).

(* Device placement, the guard of configured-before-use.  Structural part: devices are declared by top-level
   statements only; loop-top declarations are of the hoisted kinds; a Buzzer / LCD / SerialMonitor name is bound
   once in the whole file; a device name is bound more than once only in programs with a single main loop as last
   item; no pin is given two modes by the declarations.  Resolution part (static: no input history, no N, no
   branch outcome enters): with the bindings and dedup keys emit() has at each point of the text, the hoisted block
   is self-contained, every statement of setup() mentions only devices whose resolved pins are configured by the
   hoisted block or by an earlier in-place configuration, every statement of loop(), every injected poll / tick
   and every handler only devices configured by the end of setup(). *)
Definition well_placed (its : list item) : bool :=
  let p := transl its in
  let G := p_G p in
  let cS := cfg_setup p in
  forallb nested_decl_free (all_stmts its) &&
  forallb (fun d => hoisted_kind (d_kind d)) (p_top_loop p) &&
  forallb (fun d => hoisted_kind (d_kind d) || Nat.eqb (count_name (d_name d) (map d_name (p_tab p))) 1) (p_tab p) &&
  (nodup_names (map d_name (p_tab p)) || one_main_last its) &&
  cbu_go [] (hoists p) &&
  setup_chk G (st0 p) (cfgs (hoists p) []) (p_setup p) &&
  loop_chk G (stS p) cS (p_loop p) &&
  forallb (fun pin => has_cfg cS (RPin pin) false) (poll_pins p) &&
  forallb (fun l => has_cfg cS (RLcd l) true) (tick_list p) &&
  forallb (uses_ok cS (p_tabF p)) (flat_map devs_stmt (flat_map snd (p_funcs p))) &&
  functional (flat_map decl_pin_modes (p_tab p)).

(* the guard of the first version of this model: unique device names, declared before use *)
Definition well_placed_unique (its : list item) : bool :=
  let p := transl its in
  let sl := fst (split its) in
  let ll := snd (split its) in
  let known := map d_name (p_top_setup p) ++ map d_name (p_top_loop p) in
  nodup_names (map d_name (p_tab p)) &&
  forallb nested_decl_free (all_stmts its) &&
  forallb (fun d => hoisted_kind (d_kind d)) (p_top_loop p) &&
  setup_order [] sl &&
  names_in (flat_map devs_stmt ll) known &&
  names_in (flat_map devs_stmt (flat_map snd (p_funcs p))) known &&
  functional (flat_map decl_pin_modes (p_tab p)).
