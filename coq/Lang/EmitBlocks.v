(* C07 - the block structure of the FIRMWARE: what the emitter does with the control-flow
   nodes the parser built, and how a reader of C++ sees the result.

     parse(): if/elif/else and try/except probing      parser.py:2537-2755   to_ir (grouping of the
                                                       flat block skeleton of Lang/Lex.v into nodes)
     _emit_block: IfStatement / WhileLoop /             emitter.py:1143-1361  emit_ir / emit_list
                  ForRangeLoop / TryStatement
     emit(): function sections, setup(), loop()        emitter.py:3076-3188  emit_section

   Model side: [ir] is the control skeleton of the IR (every non-control node is a leaf that
   carries the C++ lines the emitter writes for it, relative to the current indentation; a
   statement of the fixed set - pass, print, docstring, global, import - yields NO node);
   [emit_list] writes the lines exactly like _emit_block: one `if (c) {` / `else if (c) {`
   stanza per branch IN EVERY CASE (also when the branch body emitted nothing), `else {` iff
   the else body holds at least one node, `while (c) {`, `for (int v = 0; v < n; ++v) {`,
   `try {` and one `catch (...) {` per handler.

   Specification side: [c_read] is how C++ groups lines into compound statements (a line
   ending in `{` opens one, a line `}` closes the innermost open one; blank lines and `//`
   comment lines belong to nothing), [py_cs] maps PYTHON's block tree (the [stree] of Lang/Lex.v,
   equal to Python's own block structure by C07_roundtrip_partial / C07_collect_block_partial)
   header by header to the compound statements it must become, and [c_paths] / [py_paths] give
   every statement the list of conditions under which it runs (for a member of an if chain:
   its own condition and the NEGATION of every earlier condition of the chain).

   No proofs in this file. *)
From Coq Require Import ZArith List Bool.
From RV Require Import Base.Wire Base.Text Lang.Lex.
Import ListNotations.
Open Scope Z_scope.

(* ---------------------------------------------------------------- the IR control skeleton *)

Inductive ir :=
| ILeaf (cl : list text)                                   (* C++ lines of one non-control node, unindented *)
| IIf (brs : list (text * list ir)) (els : list ir)        (* IfStatement(branches, else_body) *)
| IWhile (c : text) (b : list ir)                          (* WhileLoop(condition, body) *)
| IFor (v n : text) (b : list ir)                          (* ForRangeLoop(var_name, count, body) *)
| ITry (b : list ir) (hs : list (text * list ir)).         (* TryStatement; a handler = (what stands between `catch (` and `)`, body) *)

(* ---------------------------------------------------------------- C++ text pieces *)

Definition s_if := [105;102].                               (* if *)
Definition s_else_if := [101;108;115;101;32;105;102].       (* else if *)
Definition s_else := [101;108;115;101].                     (* else *)
Definition s_while := [119;104;105;108;101].                (* while *)
Definition s_try := [116;114;121].                          (* try *)
Definition s_catch := [99;97;116;99;104].                   (* catch *)
Definition s_for_int := [102;111;114;32;40;105;110;116;32].  (* for (int  *)
Definition s_eq0 := [32;61;32;48;59;32].                    (*  = 0;  *)
Definition s_lt := [32;60;32].                              (*  <  *)
Definition s_inc := [59;32;43;43].                          (* ; ++ *)
Definition s_open := [32;123].                              (*  { *)
Definition s_close := [125].                                (* } *)
Definition s_two := [32;32].                                (* one indentation step of the emitter *)
Definition s_lpar := [32;40].                               (*  ( *)
Definition s_rpar := [41].                                  (* ) *)

(* the text of a compound-statement header, without the ` {` *)
Definition h_cond (kw c : text) : text := kw ++ s_lpar ++ c ++ s_rpar.
Definition h_if (c : text) := h_cond s_if c.
Definition h_else_if (c : text) := h_cond s_else_if c.
Definition h_while (c : text) := h_cond s_while c.
Definition h_catch (c : text) := h_cond s_catch c.
Definition h_for (v n : text) : text := s_for_int ++ v ++ s_eq0 ++ v ++ s_lt ++ n ++ s_inc ++ v ++ s_rpar.

Definition open_line (ind h : text) : text := ind ++ h ++ s_open.
Definition close_line (ind : text) : text := ind ++ s_close.

(* ---------------------------------------------------------------- _emit_block *)

Fixpoint emit_ir (ind : text) (n : ir) {struct n} : list text :=
  let fix emit_l (ind : text) (l : list ir) {struct l} : list text :=
    match l with [] => [] | x :: r => emit_ir ind x ++ emit_l ind r end in
  let blk (h : text) (b : list ir) : list text :=
    open_line ind h :: emit_l (ind ++ s_two) b ++ [close_line ind] in
  match n with
  | ILeaf cl => map (fun l => ind ++ l) cl
  | IIf brs els =>
      (fix go (first : bool) (bs : list (text * list ir)) {struct bs} : list text :=
         match bs with
         | [] => []
         | (c, b) :: r => blk (if first then h_if c else h_else_if c) b ++ go false r
         end) true brs
      ++ match els with [] => [] | _ :: _ => blk s_else els end
  | IWhile c b => blk (h_while c) b
  | IFor v k b => blk (h_for v k) b
  | ITry b hs =>
      blk s_try b ++
      (fix go (l : list (text * list ir)) {struct l} : list text :=
         match l with
         | [] => []
         | (c, hb) :: r => blk (h_catch c) hb ++ go r
         end) hs
  end.

Fixpoint emit_list (ind : text) (l : list ir) : list text :=
  match l with [] => [] | x :: r => emit_ir ind x ++ emit_list ind r end.

Definition emit_blk (ind h : text) (b : list ir) : list text :=
  open_line ind h :: emit_list (ind ++ s_two) b ++ [close_line ind].

Fixpoint emit_brs (ind : text) (first : bool) (bs : list (text * list ir)) : list text :=
  match bs with
  | [] => []
  | (c, b) :: r => emit_blk ind (if first then h_if c else h_else_if c) b ++ emit_brs ind false r
  end.

Definition emit_else (ind : text) (els : list ir) : list text :=
  match els with [] => [] | _ :: _ => emit_blk ind s_else els end.

Fixpoint emit_hs (ind : text) (hs : list (text * list ir)) : list text :=
  match hs with
  | [] => []
  | (c, hb) :: r => emit_blk ind (h_catch c) hb ++ emit_hs ind r
  end.

(* emit(): one section per user function, then setup() and loop(): header line, the body at
   one indentation step (a placeholder comment when setup()/loop() has no line), `}`, a blank line *)
Definition emit_section (hdr : text) (placeholder : list text) (b : list ir) : list text :=
  let body := emit_list s_two b in
  (hdr ++ s_open) :: (if is_nil body then placeholder else body) ++ [s_close; []].

Fixpoint emit_sections (ss : list (text * list text * list ir)) : list text :=
  match ss with
  | [] => []
  | (hdr, ph, b) :: r => emit_section hdr ph b ++ emit_sections r
  end.

(* ---------------------------------------------------------------- how C++ groups lines *)

Inductive ctree := CLine (s : text) | CBlock (h : text) (b : list ctree).

Inductive cclass := COpen (h : text) | CClose | CPlain (s : text) | CSkip.

Definition c_class (l : text) : cclass :=
  let s := lstrip l in
  match s with
  | [] => CSkip
  | c :: r =>
      if (c =? 125) && is_nil r then CClose
      else if (c =? 47) && match r with d :: _ => d =? 47 | [] => false end then CSkip
      else match rev s with
           | a :: q =>
               if a =? 123
               then COpen (rev (match q with b :: q' => if b =? 32 then q' else q | [] => q end))
               else CPlain s
           | [] => CPlain s
           end
  end.

(* a frame = (header of the compound statement being read, its items so far, last first);
   the bottom frame is the translation unit (its header is never looked at) *)
Definition frame : Type := (text * list ctree)%type.

Definition c_step (l : text) (fs : list frame) : option (list frame) :=
  match c_class l, fs with
  | CSkip, _ => Some fs
  | CPlain s, (h, c) :: r => Some ((h, CLine s :: c) :: r)
  | COpen h', _ :: _ => Some ((h', []) :: fs)
  | CClose, (h1, c1) :: (h2, c2) :: r => Some ((h2, CBlock h1 (rev c1) :: c2) :: r)
  | _, _ => None
  end.

Fixpoint c_run (ls : list text) (fs : list frame) : option (list frame) :=
  match ls with
  | [] => Some fs
  | l :: r => match c_step l fs with Some fs' => c_run r fs' | None => None end
  end.

(* None: a `}` without an open block, or a block still open at the end *)
Definition c_read (ls : list text) : option (list ctree) :=
  match c_run ls [([], [])] with
  | Some [(_, c)] => Some (rev c)
  | _ => None
  end.

(* ---------------------------------------------------------------- what the IR must look like to a C++ reader *)

Definition leaf_c (cl : list text) : list ctree :=
  match c_read cl with Some ts => ts | None => [] end.

Fixpoint ir_c (n : ir) {struct n} : list ctree :=
  let fix irs (l : list ir) {struct l} : list ctree :=
    match l with [] => [] | x :: r => ir_c x ++ irs r end in
  match n with
  | ILeaf cl => leaf_c cl
  | IIf brs els =>
      (fix go (first : bool) (bs : list (text * list ir)) {struct bs} : list ctree :=
         match bs with
         | [] => []
         | (c, b) :: r => CBlock (if first then h_if c else h_else_if c) (irs b) :: go false r
         end) true brs
      ++ match els with [] => [] | _ :: _ => [CBlock s_else (irs els)] end
  | IWhile c b => [CBlock (h_while c) (irs b)]
  | IFor v k b => [CBlock (h_for v k) (irs b)]
  | ITry b hs =>
      CBlock s_try (irs b) ::
      (fix go (l : list (text * list ir)) {struct l} : list ctree :=
         match l with
         | [] => []
         | (c, hb) :: r => CBlock (h_catch c) (irs hb) :: go r
         end) hs
  end.

Fixpoint irs_c (l : list ir) : list ctree :=
  match l with [] => [] | x :: r => ir_c x ++ irs_c r end.

Fixpoint brs_c (first : bool) (bs : list (text * list ir)) : list ctree :=
  match bs with
  | [] => []
  | (c, b) :: r => CBlock (if first then h_if c else h_else_if c) (irs_c b) :: brs_c false r
  end.

Definition else_c (els : list ir) : list ctree :=
  match els with [] => [] | _ :: _ => [CBlock s_else (irs_c els)] end.

Fixpoint hs_c (hs : list (text * list ir)) : list ctree :=
  match hs with
  | [] => []
  | (c, hb) :: r => CBlock (h_catch c) (irs_c hb) :: hs_c r
  end.

(* guard: the lines of every leaf are a closed piece of C++ (every block they open they close) *)
Definition leaf_ok (cl : list text) : bool :=
  match c_read cl with Some _ => true | None => false end.

Fixpoint ir_ok (n : ir) {struct n} : bool :=
  let fix oks (l : list ir) {struct l} : bool :=
    match l with [] => true | x :: r => ir_ok x && oks r end in
  match n with
  | ILeaf cl => leaf_ok cl
  | IIf brs els =>
      (fix go (bs : list (text * list ir)) {struct bs} : bool :=
         match bs with [] => true | (_, b) :: r => oks b && go r end) brs && oks els
  | IWhile _ b => oks b
  | IFor _ _ b => oks b
  | ITry b hs =>
      oks b && (fix go (l : list (text * list ir)) {struct l} : bool :=
                  match l with [] => true | (_, hb) :: r => oks hb && go r end) hs
  end.

Fixpoint irs_ok (l : list ir) : bool :=
  match l with [] => true | x :: r => ir_ok x && irs_ok r end.
Fixpoint brs_ok (bs : list (text * list ir)) : bool :=
  match bs with [] => true | (_, b) :: r => irs_ok b && brs_ok r end.

(* a section header: starts with a visible character other than '/', '}' *)
Definition hdr_ok (h : text) : bool :=
  match h with
  | c :: _ => negb (is_space c) && negb (c =? 47) && negb (c =? 125)
  | [] => false
  end.

(* placeholder lines of an empty setup()/loop(): comment or blank lines only *)
Definition ph_ok (ph : list text) : bool :=
  forallb (fun l => match c_class l with CSkip => true | _ => false end) ph.

Fixpoint sections_ok (ss : list (text * list text * list ir)) : bool :=
  match ss with
  | [] => true
  | (h, ph, b) :: r => hdr_ok h && ph_ok ph && irs_ok b && sections_ok r
  end.

Fixpoint sections_c (ss : list (text * list text * list ir)) : list ctree :=
  match ss with
  | [] => []
  | (h, _, b) :: r => CBlock h (irs_c b) :: sections_c r
  end.

(* ---------------------------------------------------------------- from Python's block tree to the IR *)

Section FromPython.
  (* the statement layer is not modelled here: what a simple statement becomes (the nodes, each
     with its C++ lines; no node for a line of the fixed set) and how header texts translate *)
  Variable tr : text -> list (list text).
  Variable cx : text -> text.              (* if/elif/while header -> condition as C text *)
  Variable fv fn : text -> text.           (* for header -> loop variable, count *)
  Variable ex : text -> text.              (* except header -> text between `catch (` and `)` *)

  (* one sibling after the bodies have been converted *)
  Inductive piece := PLeaf (cls : list (list text)) | PBlk (k : hkind) (h : text) (b : list ir).

  (* the probing loops of parse(): a KIf takes the KElif* KElse? that follow it, a KTry the KExcept*;
     read from the right: st = (pending elif branches, pending else body, pending handlers) *)
  Definition gstate : Type := (list (text * list ir) * list ir * list (text * list ir))%type.
  Definition g0 : gstate := ([], [], []).

  Definition group_step (p : piece) (acc : gstate * list ir) : gstate * list ir :=
    let '((pb, pe, ph), out) := acc in
    match p with
    | PLeaf cls => (g0, map ILeaf cls ++ out)
    | PBlk KIf h b => (g0, IIf ((cx h, b) :: pb) pe :: out)
    | PBlk KElif h b => (((cx h, b) :: pb, pe, []), out)
    | PBlk KElse _ b => (([], b, []), out)
    | PBlk KTry _ b => (g0, ITry b ph :: out)
    | PBlk KExcept h b => (([], [], (ex h, b) :: ph), out)
    | PBlk KWhile h b => (g0, IWhile (cx h) b :: out)
    | PBlk KFor h b => (g0, IFor (fv h) (fn h) b :: out)
    end.

  Definition group (ps : list piece) : list ir := snd (fold_right group_step (g0, []) ps).

  Fixpoint conv (t : stree) {struct t} : piece :=
    let fix convs (l : list stree) {struct l} : list piece :=
      match l with [] => [] | x :: r => conv x :: convs r end in
    match t with
    | SLeaf s => PLeaf (tr s)
    | SBlock k h body => PBlk k h (group (convs body))
    end.

  Definition to_ir (ns : list stree) : list ir := group (map conv ns).

  (* SPEC: Python's block tree, header by header, as compound statements.  An `else` whose body
     yields no node at all is not written (it could not change what runs); every other header
     of the script is there, once, in order, around exactly its own statements. *)
  Definition leaf_cs (cls : list (list text)) : list ctree := flat_map leaf_c cls.

  Definition yields_node (t : stree) : bool :=
    match t with SLeaf s => negb (is_nil (tr s)) | SBlock k _ _ =>
      match k with KIf | KTry | KWhile | KFor => true | _ => false end end.

  Fixpoint py_c (t : stree) {struct t} : list ctree :=
    let fix pys (l : list stree) {struct l} : list ctree :=
      match l with [] => [] | x :: r => py_c x ++ pys r end in
    match t with
    | SLeaf s => leaf_cs (tr s)
    | SBlock KIf h b => [CBlock (h_if (cx h)) (pys b)]
    | SBlock KElif h b => [CBlock (h_else_if (cx h)) (pys b)]
    | SBlock KElse _ b => if existsb yields_node b then [CBlock s_else (pys b)] else []
    | SBlock KTry _ b => [CBlock s_try (pys b)]
    | SBlock KExcept h b => [CBlock (h_catch (ex h)) (pys b)]
    | SBlock KWhile h b => [CBlock (h_while (cx h)) (pys b)]
    | SBlock KFor h b => [CBlock (h_for (fv h) (fn h)) (pys b)]
    end.

  Fixpoint py_cs (l : list stree) : list ctree :=
    match l with [] => [] | x :: r => py_c x ++ py_cs r end.

  (* guard: elif/else only directly after if/elif, except only directly after try/except (what
     Python's grammar - and parse_m - guarantee), at every level; leaves are closed pieces of C++ *)
  Inductive prevk := PvNone | PvIf | PvTry.
  Definition after (k : hkind) : prevk :=
    match k with KIf | KElif => PvIf | KTry | KExcept => PvTry | _ => PvNone end.
  Definition may_follow (p : prevk) (k : hkind) : bool :=
    match k, p with
    | KElif, PvIf | KElse, PvIf | KExcept, PvTry => true
    | KElif, _ | KElse, _ | KExcept, _ => false
    | _, _ => true
    end.

  Fixpoint chain_ok_t (t : stree) {struct t} : bool :=
    let fix oks (p : prevk) (l : list stree) {struct l} : bool :=
      match l with
      | [] => true
      | x :: r => match x with
                  | SLeaf _ => chain_ok_t x && oks PvNone r
                  | SBlock k _ _ => may_follow p k && chain_ok_t x && oks (after k) r
                  end
      end in
    match t with
    | SLeaf s => forallb leaf_ok (tr s)
    | SBlock _ _ b => oks PvNone b
    end.

  Fixpoint chain_ok (p : prevk) (l : list stree) : bool :=
    match l with
    | [] => true
    | x :: r => match x with
                | SLeaf _ => chain_ok_t x && chain_ok PvNone r
                | SBlock k _ _ => may_follow p k && chain_ok_t x && chain_ok (after k) r
                end
    end.
End FromPython.

(* ---------------------------------------------------------------- under which conditions a line runs *)

(* one step of a path: a member of an if chain (the conditions of the earlier members, which must
   all have been false, and its own - None for `else`), or any other compound statement *)
Inductive pstep := PChain (neg : list text) (own : option text) | POther (h : text).

Inductive hshape := HIf (c : text) | HElseIf (c : text) | HElse | HOther.

Definition s_if_lpar := s_if ++ s_lpar.
Definition s_else_if_lpar := s_else_if ++ s_lpar.

(* the condition is identified by the header text after `if (` (closing parenthesis included) *)
Definition h_shape (h : text) : hshape :=
  match drop_prefix s_else_if_lpar h with
  | Some c => HElseIf c
  | None => match drop_prefix s_if_lpar h with
            | Some c => HIf c
            | None => if text_eqb h s_else then HElse else HOther
            end
  end.

Fixpoint c_path_t (pre : list pstep) (chain : list text) (t : ctree) {struct t} : list (list pstep * text) * list text :=
  let fix go (pre : list pstep) (chain : list text) (l : list ctree) {struct l} : list (list pstep * text) :=
    match l with
    | [] => []
    | x :: r => let '(ps, chain') := c_path_t pre chain x in ps ++ go pre chain' r
    end in
  match t with
  | CLine s => ([(pre, s)], [])
  | CBlock h b =>
      match h_shape h with
      | HIf c => (go (pre ++ [PChain [] (Some c)]) [] b, [c])
      | HElseIf c => (go (pre ++ [PChain chain (Some c)]) [] b, chain ++ [c])
      | HElse => (go (pre ++ [PChain chain None]) [] b, [])
      | HOther => (go (pre ++ [POther h]) [] b, [])
      end
  end.

Fixpoint c_paths2 (pre : list pstep) (chain : list text) (l : list ctree) : list (list pstep * text) * list text :=
  match l with
  | [] => ([], chain)
  | x :: r => let '(ps, chain') := c_path_t pre chain x in
              let '(qs, chain'') := c_paths2 pre chain' r in (ps ++ qs, chain'')
  end.

Definition c_paths (pre : list pstep) (chain : list text) (l : list ctree) : list (list pstep * text) :=
  fst (c_paths2 pre chain l).

(* the lines of the firmware with the conditions each runs under *)
Definition fw_paths (ls : list text) : option (list (list pstep * text)) :=
  option_map (c_paths [] []) (c_read ls).

(* SPEC, stated on Python's block tree: the C++ lines of every statement with the conditions
   Python puts the statement under *)
Section PyPaths.
  Variable tr : text -> list (list text).
  Variable cx : text -> text.
  Variable fv fn : text -> text.
  Variable ex : text -> text.

  Definition cond_id (c : text) : text := c ++ s_rpar.

  Fixpoint py_path_t (pre : list pstep) (chain : list text) (t : stree) {struct t} : list (list pstep * text) * list text :=
    let fix go (pre : list pstep) (chain : list text) (l : list stree) {struct l} : list (list pstep * text) :=
      match l with
      | [] => []
      | x :: r => let '(ps, chain') := py_path_t pre chain x in ps ++ go pre chain' r
      end in
    match t with
    | SLeaf s => c_paths2 pre chain (leaf_cs (tr s))
    | SBlock KIf h b => (go (pre ++ [PChain [] (Some (cond_id (cx h)))]) [] b, [cond_id (cx h)])
    | SBlock KElif h b => (go (pre ++ [PChain chain (Some (cond_id (cx h)))]) [] b, chain ++ [cond_id (cx h)])
    | SBlock KElse _ b => if existsb (yields_node tr) b then (go (pre ++ [PChain chain None]) [] b, []) else ([], chain)
    | SBlock KTry _ b => (go (pre ++ [POther s_try]) [] b, [])
    | SBlock KExcept h b => (go (pre ++ [POther (h_catch (ex h))]) [] b, [])
    | SBlock KWhile h b => (go (pre ++ [POther (h_while (cx h))]) [] b, [])
    | SBlock KFor h b => (go (pre ++ [POther (h_for (fv h) (fn h))]) [] b, [])
    end.

  Fixpoint py_paths2 (pre : list pstep) (chain : list text) (l : list stree) : list (list pstep * text) * list text :=
    match l with
    | [] => ([], chain)
    | x :: r => let '(ps, chain') := py_path_t pre chain x in
                let '(qs, chain'') := py_paths2 pre chain' r in (ps ++ qs, chain'')
    end.

  Definition py_paths (pre : list pstep) (chain : list text) (l : list stree) : list (list pstep * text) :=
    fst (py_paths2 pre chain l).
End PyPaths.
