(* C05 - pin EXPRESSIONS with a run-time environment.

   [Emit.v] gives every device literal pins, so "same text, different value" cannot be said there.  Here a
   device's pin argument is an expression over the sketch's int globals ([5], [pin], [pin + 1]); the emitted
   C++ mentions that expression by its TEXT, wherever the emitter puts a line that needs it:

     - emit() pass 1 (emitter.py 2742-3061) puts the configuration of the hoisted kinds at the TOP of setup()
       (Buzzer, DCMotor, Button declared before the main loop; Led, RGBLed, Ultrasonic, DCMotor, Button declared
       at the top of [while True:]): the text is evaluated there, i.e. with the static initialisers of the
       globals, before any statement of the prologue has run;
     - _emit_block (emitter.py 1711-1892) puts the pinMode of a prologue Led / RGBLed / Ultrasonic / DCMotor at
       the declaration's own position;
     - every such pinMode line is de-duplicated by a KEY.  The real keys are (device name, pin text, role);
       the key function is a parameter of this model ([keying]) so that the theorems can say what the name in
       the key is needed for;
     - a command ([red.toggle()]) mentions the pin text of the declaration the name is bound to and evaluates
       it when the command runs.

   The firmware is EXECUTED ([fw]): the trace carries numeric pins.  No proofs in this file. *)
From Coq Require Import ZArith List Bool.
Import ListNotations.
Open Scope Z_scope.

(* ------------------------------------------------------------------ pin expressions *)
Inductive pexp :=
| PLit (z : Z)                 (* 5 *)
| PVar (x : Z)                 (* pin      (variables are numbered) *)
| PAdd (x : Z) (k : Z).        (* pin + k  (emitted as "(pin + k)") *)

(* same emitted text *)
Definition pexp_eqb (a b : pexp) : bool :=
  match a, b with
  | PLit z, PLit w => z =? w
  | PVar x, PVar y => x =? y
  | PAdd x k, PAdd y j => (x =? y) && (k =? j)
  | _, _ => false
  end.

Definition mentions (x : Z) (e : pexp) : bool :=
  match e with PLit _ => false | PVar y => x =? y | PAdd y _ => x =? y end.

Definition env := list (Z * Z).

Fixpoint look (x : Z) (r : env) : Z :=
  match r with
  | [] => 0                                      (* int x = 0; *)
  | (y, v) :: t => if x =? y then v else look x t
  end.

Definition upd (x v : Z) (r : env) : env := (x, v) :: r.

Definition peval (r : env) (e : pexp) : Z :=
  match e with PLit z => z | PVar x => look x r | PAdd x k => look x r + k end.

(* ------------------------------------------------------------------ the straight-line machine *)
Definition pkey := (Z * pexp * Z)%type.           (* device name, pin text, role tag *)

Definition pkey_eqb (a b : pkey) : bool :=
  (fst (fst a) =? fst (fst b)) && pexp_eqb (snd (fst a)) (snd (fst b)) && (snd a =? snd b).

Definition pkmem (k : pkey) (seen : list pkey) : bool := existsb (pkey_eqb k) seen.

(* what setup() / loop() consist of, in the order of the emitted text *)
Inductive act :=
| ASet (x : Z) (e : pexp)              (* x = e; *)
| AReq (k : pkey) (e : pexp) (m : Z)    (* emit-time: [if key not in set: set.add(key); lines.append(pinMode(e, m))] *)
| ACfg (e : pexp) (m : Z)              (* pinMode(e, m); appended unconditionally (loop-top Led) *)
| AUse (e : pexp) (w : bool).          (* digitalWrite / analogWrite / tone (w) or digitalRead / pulseIn (not w) on e *)

Inductive pev :=
| PCfg (p m : Z)                       (* pinMode(p, m) executed with the numeric pin p *)
| PUse (p : Z) (w : bool).

(* emit and run in one go: the program is straight-line, so the order in which emit() visits the requests is the
   order in which the surviving lines execute *)
Fixpoint fw (seen : list pkey) (r : env) (l : list act) : list pev :=
  match l with
  | [] => []
  | ASet x e :: t => fw seen (upd x (peval r e) r) t
  | AReq k e m :: t => if pkmem k seen then fw seen r t else PCfg (peval r e) m :: fw (k :: seen) r t
  | ACfg e m :: t => PCfg (peval r e) m :: fw seen r t
  | AUse e w :: t => PUse (peval r e) w :: fw seen r t
  end.

(* ------------------------------------------------------------------ the monitor (numeric pins) *)
Definition pcompat (m : Z) (w : bool) : bool := if w then m =? 1 else (m =? 0) || (m =? 2).

Definition phas (cfg : list (Z * Z)) (p : Z) (w : bool) : bool :=
  existsb (fun c => (p =? fst c) && pcompat (snd c) w) cfg.

Fixpoint pcbu_go (cfg : list (Z * Z)) (t : list pev) : bool :=
  match t with
  | [] => true
  | PCfg p m :: t' => pcbu_go ((p, m) :: cfg) t'
  | PUse p w :: t' => phas cfg p w && pcbu_go cfg t'
  end.

Definition pcbu (t : list pev) : bool := pcbu_go [] t.

(* ------------------------------------------------------------------ the static guard *)
(* [V]: the pin texts whose CURRENT value has been configured (with the mode).  An assignment to x forgets every
   text that mentions x; a request whose key is already in the set configures nothing. *)
Definition vset := list (pexp * Z).

Definition vhas (V : vset) (e : pexp) (w : bool) : bool :=
  existsb (fun c => pexp_eqb e (fst c) && pcompat (snd c) w) V.

Definition vkill (x : Z) (V : vset) : vset := filter (fun c => negb (mentions x (fst c))) V.

Fixpoint static_ok (seen : list pkey) (V : vset) (l : list act) : bool :=
  match l with
  | [] => true
  | ASet x _ :: t => static_ok seen (vkill x V) t
  | AReq k e m :: t => if pkmem k seen then static_ok seen V t else static_ok (k :: seen) ((e, m) :: V) t
  | ACfg e m :: t => static_ok seen ((e, m) :: V) t
  | AUse e w :: t => vhas V e w && static_ok seen V t
  end.

(* ------------------------------------------------------------------ programs *)
Inductive qkind := QLed | QRGB | QUltra | QBuzzer | QMotor | QButton.

Definition qkind_eqb (a b : qkind) : bool :=
  match a, b with
  | QLed, QLed | QRGB, QRGB | QUltra, QUltra | QBuzzer, QBuzzer | QMotor, QMotor | QButton, QButton => true
  | _, _ => false
  end.

Inductive pstmt :=
| QSet (x : Z) (e : pexp)                          (* x = e   /   x += k  is  x = x + k *)
| QDecl (k : qkind) (nm : Z) (pins : list pexp)    (* nm = Kind(pins...) *)
| QCmd (nm : Z).                                   (* a command on nm *)

Record pprog := mkQ { q_pre : list pstmt; q_loop : list pstmt }.

Definition keying := Z -> pexp -> Z -> pkey.
Definition kf_real : keying := fun nm e tag => (nm, e, tag).         (* emitter.py: (node.name, pin_expr, role) *)
Definition kf_text : keying := fun _ e _ => (0, e, 0).               (* the text alone *)

(* requests for pins e0 e1 ... with tags tag, tag+step, ... *)
Fixpoint reqs (kf : keying) (nm : Z) (m tag step : Z) (pins : list pexp) : list act :=
  match pins with
  | [] => []
  | e :: r => AReq (kf nm e tag) e m :: reqs kf nm m (tag + step) step r
  end.

Definition uses_w (pins : list pexp) : list act := map (fun e => AUse e true) pins.

Definition ultra_reqs (kf : keying) (nm : Z) (tag : Z) (pins : list pexp) : list act :=
  match pins with
  | t :: e :: _ => [AReq (kf nm t tag) t 1; AReq (kf nm e (tag + 1)) e 0]
  | _ => []
  end.

Definition zmem (x : Z) (l : list Z) : bool := existsb (Z.eqb x) l.

(* emit() pass 1 over the prologue's declarations; [bi] = button_init_emitted *)
Fixpoint qhoist_pre (kf : keying) (bi : list Z) (l : list pstmt) : list act * list Z :=
  match l with
  | [] => ([], bi)
  | QDecl QButton nm (e :: _) :: r =>
      if zmem nm bi then qhoist_pre kf bi r
      else let (t, b') := qhoist_pre kf (nm :: bi) r in (AReq (kf nm e 30) e 2 :: AUse e false :: t, b')
  | QDecl QBuzzer nm pins :: r =>
      let (t, b') := qhoist_pre kf bi r in (reqs kf nm 1 1 0 pins ++ t, b')
  | QDecl QMotor nm pins :: r =>
      let (t, b') := qhoist_pre kf bi r in (reqs kf nm 1 20 1 pins ++ uses_w pins ++ t, b')
  | _ :: r => qhoist_pre kf bi r
  end.

(* ... over the declarations at the top of [while True:] *)
Fixpoint qhoist_loop (kf : keying) (bi : list Z) (l : list pstmt) : list act :=
  match l with
  | [] => []
  | QDecl QButton nm (e :: _) :: r =>
      AReq (kf nm e 30) e 2 ::
      (if zmem nm bi then qhoist_loop kf bi r else AUse e false :: qhoist_loop kf (nm :: bi) r)
  | QDecl QMotor nm pins :: r => reqs kf nm 1 20 1 pins ++ uses_w pins ++ qhoist_loop kf bi r
  | QDecl QLed nm pins :: r => map (fun e => ACfg e 1) pins ++ qhoist_loop kf bi r
  | QDecl QRGB nm pins :: r => reqs kf nm 1 10 1 pins ++ qhoist_loop kf bi r
  | QDecl QUltra nm pins :: r => ultra_reqs kf nm 60 pins ++ qhoist_loop kf bi r
  | _ :: r => qhoist_loop kf bi r
  end.

(* bindings: (name, kind, pin texts), most recent first *)
Definition binding := (Z * qkind * list pexp)%type.

Fixpoint find_b (nm : Z) (tab : list binding) : option binding :=
  match tab with
  | [] => None
  | b :: r => if fst (fst b) =? nm then Some b else find_b nm r
  end.

Definition qdecl_of (s : pstmt) : list binding :=
  match s with QDecl k nm pins => [(nm, k, pins)] | _ => [] end.

Definition qdecls (l : list pstmt) : list binding := flat_map qdecl_of l.

(* the pins a command on this binding touches *)
Definition cmd_uses (b : binding) : list act :=
  match snd (fst b), snd b with
  | QUltra, t :: e :: _ => [AUse t true; AUse e false]
  | QUltra, _ => []
  | QButton, _ => []                                 (* is_pressed() reads the cached sample *)
  | _, pins => uses_w pins
  end.

(* an Ultrasonic name always measures with the helper generated from the LAST declaration of the name *)
Definition rebind (all_rev : list binding) (b : binding) : binding :=
  match snd (fst b) with
  | QUltra => match find_b (fst (fst b)) all_rev with Some b' => b' | None => b end
  | _ => b
  end.

(* _emit_block over the statements of setup() (in_setup) / loop() *)
Fixpoint lower (kf : keying) (all_rev : list binding) (in_setup : bool) (tab : list binding) (l : list pstmt)
  : list act * list binding :=
  match l with
  | [] => ([], tab)
  | QSet x e :: r => let (t, tb) := lower kf all_rev in_setup tab r in (ASet x e :: t, tb)
  | QCmd nm :: r =>
      let (t, tb) := lower kf all_rev in_setup tab r in
      (match find_b nm tab with Some b => cmd_uses b | None => [] end ++ t, tb)
  | QDecl k nm pins :: r =>
      let here :=
        if in_setup then
          match k with
          | QLed => reqs kf nm 1 100 0 pins
          | QRGB => reqs kf nm 1 10 1 pins
          | QUltra => ultra_reqs kf nm 50 pins
          | QBuzzer => reqs kf nm 1 1 0 pins
          | QMotor => reqs kf nm 1 20 1 pins ++ uses_w pins
          | QButton => []
          end
        else [] in
      let (t, tb) := lower kf all_rev in_setup (rebind all_rev (nm, k, pins) :: tab) r in (here ++ t, tb)
  end.

(* ButtonPoll at the head of every pass: each Button name once (first occurrence order of the harness = sorted
   names), on the pin text of the LAST top-level declaration of the name *)
Fixpoint button_names (seen : list Z) (l : list binding) : list Z :=
  match l with
  | [] => []
  | b :: r => match snd (fst b) with
              | QButton => if zmem (fst (fst b)) seen then button_names seen r
                           else fst (fst b) :: button_names (fst (fst b) :: seen) r
              | _ => button_names seen r
              end
  end.

Fixpoint insert_z (x : Z) (l : list Z) : list Z :=
  match l with [] => [x] | y :: r => if x <=? y then x :: l else y :: insert_z x r end.

Definition qpolls (all_rev : list binding) : list act :=
  flat_map (fun nm => match find_b nm all_rev with
                      | Some (_, QButton, e :: _) => [AUse e false]
                      | _ => [] end)
           (fold_right insert_z [] (button_names [] all_rev)).

(* the globals' static initialisers: a name whose FIRST assignment in the prologue is a literal starts with it *)
Fixpoint init_env (done : list Z) (l : list pstmt) : env :=
  match l with
  | [] => []
  | QSet x e :: r =>
      if zmem x done then init_env done r
      else match e with
           | PLit z => (x, z) :: init_env (x :: done) r
           | _ => init_env (x :: done) r
           end
  | _ :: r => init_env done r
  end.

Fixpoint repeat_acts (n : nat) (l : list act) : list act :=
  match n with O => [] | S n' => l ++ repeat_acts n' l end.

(* the whole sketch as one straight line: hoisted block, prologue, n passes *)
Definition sketch (kf : keying) (p : pprog) (n : nat) : list act :=
  let all_rev := rev (qdecls (q_pre p) ++ qdecls (q_loop p)) in
  let (h1, bi) := qhoist_pre kf [] (q_pre p) in
  let h2 := qhoist_loop kf bi (q_loop p) in
  let tab0 := map (rebind all_rev) (rev (qdecls (q_pre p)) ++ qdecls (q_loop p)) in
  let (a1, tab1) := lower kf all_rev true tab0 (q_pre p) in
  let (a2, _) := lower kf all_rev false tab1 (q_loop p) in
  h1 ++ h2 ++ a1 ++ repeat_acts n (qpolls all_rev ++ a2).

Definition run_sketch (kf : keying) (p : pprog) (n : nat) : list pev :=
  fw [] (init_env [] (q_pre p)) (sketch kf p n).

(* the guard of configured-before-use for pin expressions *)
Definition pins_tracked (kf : keying) (p : pprog) (n : nat) : bool := static_ok [] [] (sketch kf p n).
