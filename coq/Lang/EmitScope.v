(* C06 - "every identifier is declared ONCE in its scope": the block structure of the C++ text that
   emitter._emit_block produces, and the C++ rule it has to respect.

   Model file (no proofs).  Two halves:

   1. [tok] / [scan]: a function body as the flat sequence of what matters for C++ block scoping - a block opens
      (with the names its header declares: for-init variable, catch parameter, function parameters - they
      share the declarative region of the block, C++17 [basic.scope.block]), a block closes, a name is
      declared.  [scan] is the compiler's scope stack: declaring a name that the innermost scope already
      holds is the error "redeclaration of ...".

   2. [node] / [emit_node]: what each IR node kind contributes to that sequence, written line by line from
      the branches of _emit_block (emitter.py 1070-2465): every device call that needs helper locals
      declares them inside an anonymous block of its own; exceptions are ButtonPoll (one bool per button,
      in the enclosing block) and LCDGlyph (an array whose name carries a per-LCD counter).
      Only blocks that (transitively) contain a declaration are listed; the harness prunes declaration-free
      blocks from the real text before comparing.  The IR's nesting is flattened: [NOpen h] ... [NClose]. *)
From Coq Require Import ZArith List Bool.
From Coq Require Strings.Byte.
From RV Require Import Base.Wire Base.Text Base.TextC.
Import ListNotations.
Open Scope Z_scope.

(* ------------------------------------------------------------------ names *)
Inductive cname :=
| CUser (x : text)               (* a name the script chose: variable, parameter, for variable, catch target *)
| CTmpl (x : text)               (* a fixed helper local of an emitter template: __redu_speed, __redu_i, ... *)
| CGlyph (lcd : text) (k : Z)    (* __redu_lcd_glyph_<lcd>_<k> *)
| CBtnNext (b : text).           (* __redu_button_next_<b> *)

Definition cname_eqb (a b : cname) : bool :=
  match a, b with
  | CUser x, CUser y => text_eqb x y
  | CTmpl x, CTmpl y => text_eqb x y
  | CGlyph l k, CGlyph m j => text_eqb l m && (k =? j)
  | CBtnNext x, CBtnNext y => text_eqb x y
  | _, _ => false
  end.

Fixpoint cmem (a : cname) (l : list cname) : bool :=
  match l with [] => false | b :: r => cname_eqb a b || cmem a r end.

Fixpoint cnodup (l : list cname) : bool :=
  match l with [] => true | a :: r => negb (cmem a r) && cnodup r end.

(* text literals: "..." below is a list of bytes (ASCII), turned into code points by [tx]
   (a type of our own: Coq's [string] would be extracted as an OCaml type of that name) *)
Inductive tlit := TLit (l : list Byte.byte).
Definition tlit_of_bytes (l : list Byte.byte) : tlit := TLit l.
Definition bytes_of_tlit (t : tlit) : list Byte.byte := match t with TLit l => l end.
Declare Scope tlit_scope.
Delimit Scope tlit_scope with tl.
String Notation tlit tlit_of_bytes bytes_of_tlit : tlit_scope.
Open Scope tlit_scope.

Definition tx (s : tlit) : text := map (fun b => Z.of_N (Byte.to_N b)) (bytes_of_tlit s).

Definition render (n : cname) : text :=
  match n with
  | CUser x => x
  | CTmpl x => x
  | CGlyph l k => tx "__redu_lcd_glyph_" ++ l ++ tx "_" ++ str_Z k
  | CBtnNext b => tx "__redu_button_next_" ++ b
  end.

(* ------------------------------------------------------------------ C++ block scoping *)
Inductive tok :=
| TOpen (hdr : list cname)
| TClose
| TDecl (x : cname).

(* the scope stack, innermost first.  None: a redeclaration, or a brace that closes the function body *)
Fixpoint scan (stk : list (list cname)) (l : list tok) : option (list (list cname)) :=
  match l with
  | [] => Some stk
  | TOpen h :: r => if cnodup h then scan (h :: stk) r else None
  | TClose :: r =>
      match stk with
      | _ :: (s :: u) => scan (s :: u) r
      | _ => None
      end
  | TDecl x :: r =>
      match stk with
      | top :: u => if cmem x top then None else scan ((x :: top) :: u) r
      | [] => None
      end
  end.

(* a whole function: parameters and the outermost block share one scope; all inner blocks closed at the end *)
Definition fn_ok (params : list cname) (body : list tok) : bool :=
  cnodup params && match scan [params] body with Some [_] => true | _ => false end.

(* the first name that is declared twice in one scope (for the report) *)
Fixpoint first_redecl (stk : list (list cname)) (l : list tok) : option cname :=
  match l with
  | [] => None
  | TOpen h :: r => first_redecl (h :: stk) r
  | TClose :: r => first_redecl (tl stk) r
  | TDecl x :: r =>
      match stk with
      | top :: u => if cmem x top then Some x else first_redecl ((x :: top) :: u) r
      | [] => first_redecl [[x]] r
      end
  end.

(* ------------------------------------------------------------------ the emitter's templates *)
Inductive dur := DNone | DLit | DExpr.      (* an optional duration argument: absent / number literal / run-time expression *)

Inductive node :=
| NPlain                                    (* emits no declaration: VarAssign, ExprStmt, Return, Break, Continue, Sleep,
                                               SerialWrite, Led on/off/toggle, Buzzer stop, DCMotor stop/coast, device
                                               declarations, every LCD call except glyph *)
| NVarDecl (x : text)                       (* local VarDecl: <type> x = e; *)
| NOpen (h : list text)                     (* a block of the IR opens: if/elif/else arm, while, try, handler []; for [v];
                                               catch (E &t) [t]; Repeat [__i] *)
| NClose
| NButtonPoll (b : text)
| NLcdDecl (l : text)                       (* an LCDDecl met by _emit_block registers the LCD *)
| NGlyph (l : text)
| NServoWrite | NServoWriteUs
| NMotorSetSpeed | NMotorBackward | NMotorInvert | NMotorRamp | NMotorRunFor
| NRgbUpdate                                (* RGBLed set_color / on / off *)
| NLedSetBrightness | NLedBlink | NRgbFade | NRgbBlink
| NLedFade                                  (* fade_in and fade_out *)
| NLedFlash (empty : bool)
| NBuzzerPlayTone (d : dur)
| NBuzzerBeep (on_lit off_lit : bool)
| NBuzzerSweep (d_lit : bool)
| NBuzzerMelody (known : bool).

Record est := { e_lcds : list text; e_buttons : list text; e_glyph : list (text * Z) }.

Fixpoint counter (l : text) (g : list (text * Z)) : Z :=
  match g with [] => 0 | (m, k) :: r => if text_eqb l m then k else counter l r end.

Definition d (s : tlit) : tok := TDecl (CTmpl (tx s)).
Definition o : tok := TOpen [].
Definition ofor (s : tlit) : tok := TOpen [CTmpl (tx s)].
Definition c : tok := TClose.

(* _emit_motor_drive_lines with wrap_block=False *)
Definition drive : list tok := [d "__redu_speed"; d "__redu_effective"; d "__redu_abs"; d "__redu_pwm"].

(* _emit_duration_ms *)
Definition duration (v : tlit) (lit : bool) : list tok :=
  if lit then [d v] else [TDecl (CTmpl (tx v ++ tx "_arg")); d v].

Definition emit_node (st : est) (n : node) : est * list tok :=
  match n with
  | NPlain => (st, [])
  | NVarDecl x => (st, [TDecl (CUser x)])
  | NOpen h => (st, [TOpen (map CUser h)])
  | NClose => (st, [TClose])
  | NButtonPoll b => (st, if tmem b (e_buttons st) then [TDecl (CBtnNext b)] else [])
  | NLcdDecl l => ({| e_lcds := l :: e_lcds st; e_buttons := e_buttons st; e_glyph := e_glyph st |}, [])
  | NGlyph l =>
      if tmem l (e_lcds st) then
        let k := counter l (e_glyph st) + 1 in
        ({| e_lcds := e_lcds st; e_buttons := e_buttons st; e_glyph := (l, k) :: e_glyph st |}, [TDecl (CGlyph l k)])
      else (st, [])
  | NServoWrite => (st, [o; d "__redu_angle"; d "__redu_span"; d "__redu_pulse"; c])
  | NServoWriteUs => (st, [o; d "__redu_pulse"; d "__redu_span"; d "__redu_angle"; c])
  | NMotorSetSpeed => (st, o :: drive ++ [c])
  | NMotorBackward => (st, o :: d "__redu_backward" :: drive ++ [c])
  | NMotorInvert => (st, o :: drive ++ [c])
  | NMotorRamp =>
      (st, [o; d "__redu_start"; d "__redu_target"; d "__redu_duration"; d "__redu_steps"; d "__redu_delay";
            ofor "__redu_i"; d "__redu_fraction"; d "__redu_value"] ++ drive ++ [c; c])
  | NMotorRunFor => (st, o :: d "__redu_duration" :: drive ++ [c])
  | NRgbUpdate => (st, [o; d "__redu_red"; d "__redu_green"; d "__redu_blue"; c])
  | NLedSetBrightness => (st, [o; d "__redu_brightness"; c])
  | NLedBlink => (st, [o; d "__redu_times"; ofor "__redu_i"; c; c])
  | NRgbFade =>
      (st, [o; d "__redu_duration"; d "__redu_steps"; d "__redu_start_red"; d "__redu_start_green"; d "__redu_start_blue";
            d "__redu_target_red"; d "__redu_target_green"; d "__redu_target_blue"; d "__redu_same";
            o; d "__redu_step_delay"; d "__redu_delay_ms";
            ofor "__redu_i"; d "__redu_num_red"; d "__redu_red"; d "__redu_num_green"; d "__redu_green";
            d "__redu_num_blue"; d "__redu_blue"; c; c; c])
  | NRgbBlink =>
      (st, [o; d "__redu_times"; d "__redu_delay"; d "__redu_delay_ms"; d "__redu_original_red"; d "__redu_original_green";
            d "__redu_original_blue"; d "__redu_original_state"; d "__redu_target_red"; d "__redu_target_green";
            d "__redu_target_blue"; ofor "__redu_i"; c; c])
  | NLedFade => (st, [o; d "__redu_step"; d "__redu_value"; c])
  | NLedFlash true => (st, [])
  | NLedFlash false => (st, [o; d "__redu_pattern"; d "__redu_pattern_len"; ofor "__redu_i"; d "__redu_value"; c; c])
  | NBuzzerPlayTone du =>
      (st, [o; d "__redu_freq"; o; d "__redu_tone"; c] ++
           match du with DNone => [] | DLit => duration "__redu_duration" true | DExpr => duration "__redu_duration" false end ++ [c])
  | NBuzzerBeep a b =>
      (st, [o; d "__redu_freq_target"] ++ duration "__redu_on_ms" a ++ duration "__redu_off_ms" b ++
           [d "__redu_times"; ofor "__redu_i"; o; d "__redu_tone"; c; c; c])
  | NBuzzerSweep a =>
      (st, [o; d "__redu_start"; d "__redu_end"] ++ duration "__redu_total" a ++
           [d "__redu_steps"; d "__redu_step_delay"; ofor "__redu_i"; d "__redu_progress"; d "__redu_freq";
            o; d "__redu_tone"; c; c; c])
  | NBuzzerMelody false => (st, [])
  | NBuzzerMelody true =>
      (st, [o; d "__redu_tempo"; d "__redu_beat_ms"; d "__redu_freqs"; d "__redu_beats"; d "__redu_melody_len";
            ofor "__redu_i"; d "__redu_freq"; d "__redu_duration"; d "__redu_tone"; c; c])
  end.

Fixpoint emit_block (st : est) (l : list node) : est * list tok :=
  match l with
  | [] => (st, [])
  | n :: r =>
      let (s1, t1) := emit_node st n in
      let (s2, t2) := emit_block s1 r in
      (s2, t1 ++ t2)
  end.

(* the nodes of the device-call templates: everything that is neither a user declaration, a block boundary of
   the IR, a ButtonPoll nor an LCD glyph *)
Definition is_template (n : node) : bool :=
  match n with
  | NVarDecl _ | NOpen _ | NClose | NButtonPoll _ | NGlyph _ => false
  | _ => true
  end.

(* what the script itself (and the parser's ButtonPoll list) declares: the projection the guard speaks about *)
Definition user_tok (st : est) (n : node) : list tok :=
  match n with
  | NVarDecl x => [TDecl (CUser x)]
  | NOpen h => [TOpen (map CUser h)]
  | NClose => [TClose]
  | NButtonPoll b => if tmem b (e_buttons st) then [TDecl (CBtnNext b)] else []
  | _ => []
  end.

Definition user_proj (st : est) (l : list node) : list tok := flat_map (user_tok st) l.

(* emit(): setup_body, then loop_body with the state setup left behind, then every function with a COPY of the
   final state *)
Definition emit_program (st : est) (setup loop : list node) (fns : list (list text * list node))
  : list tok * list tok * list (list cname * list tok) :=
  let (s1, ts) := emit_block st setup in
  let (s2, tl) := emit_block s1 loop in
  (ts, tl, map (fun pf => (map CUser (fst pf), snd (emit_block s2 (snd pf)))) fns).

(* ------------------------------------------------------------------ witnesses *)
Definition demo_state : est := {| e_lcds := [tx "lcd"]; e_buttons := [tx "btn"]; e_glyph := [] |}.

(* motor.invert(); sleep(); motor.invert(); lcd.glyph(..); lcd.glyph(..); for i: x = ..; led.blink() *)
Definition demo_block : list node :=
  [NButtonPoll (tx "btn"); NMotorInvert; NPlain; NMotorInvert; NGlyph (tx "lcd"); NGlyph (tx "lcd");
   NOpen [tx "i"]; NVarDecl (tx "x"); NLedBlink; NMotorRamp; NClose; NVarDecl (tx "x"); NBuzzerBeep false true].

(* the emitter with the anonymous block of DCMotorInvert left out (wrap_block=False) *)
Definition emit_node_unwrapped_invert (st : est) (n : node) : est * list tok :=
  match n with NMotorInvert => (st, drive) | _ => emit_node st n end.

Fixpoint emit_block_with (f : est -> node -> est * list tok) (st : est) (l : list node) : est * list tok :=
  match l with
  | [] => (st, [])
  | n :: r => let (s1, t1) := f st n in let (s2, t2) := emit_block_with f s1 r in (s2, t1 ++ t2)
  end.

Definition demo_glyph_names : list text := [tx "__redu_lcd_glyph_lcd_1"; tx "__redu_lcd_glyph_lcd_2"].
Definition name_redu_speed : text := tx "__redu_speed".
Definition drive_scope : list cname := map (fun s => CTmpl (tx s)) ["__redu_pwm"; "__redu_abs"; "__redu_effective"; "__redu_speed"].
