(* C10 - emit() as a function of the Program VALUE: sequence fields of IR nodes that may be one-shot.  Model only.

   ast.py      LCDGlyph(name, slot, bitmap: List[int])
   parser.py   RE_LCD_GLYPH handler:  body.append(LCDGlyph(name=name, slot=..., bitmap=bitmap_list))          -> [parse_with mk]
   emitter.py  _emit_block, LCDGlyph: counter = info["glyph_counter"] + 1 (a table local to this emit() call);
               ", ".join(str(value & 0x1F) for value in node.bitmap)  - walks the field ONCE per emit()       -> [emit_nodes]

   A sequence field holds either a re-iterable object (a list: [Plain]) or a one-shot iterator (a generator expression, map(...),
   iter(...), ...: [OneShot], the items not yet delivered).  Walking the field ([iter]) leaves a list as it was and leaves a
   one-shot iterator EMPTY.  [emit] therefore returns, besides the text, the Program as the call leaves it; [esession] is a sequence
   of parse() / emit() calls of one process over the Programs it keeps; [espec] is the specification: every emit() of a parsed
   script yields the text of that script, however often and in whatever interleaving.

   [mk] is the parser's way of storing the rows it has validated: [Plain] is the code as it is; [mk_masked_list] masks the rows
   to 5 bits while building the node (harmless: the emitter masks again); [mk_masked_gen] does the same with a generator
   expression (the first emit() is right, every later one renders an empty glyph). *)
From Coq Require Import ZArith List Bool String.
From RV Require Import Base.Wire Base.Text Lang.Order.
Import ListNotations.
Open Scope Z_scope.

Inductive seqv := Plain (l : list Z) | OneShot (l : list Z).

(* `for value in field` *)
Definition iter (s : seqv) : list Z * seqv :=
  match s with
  | Plain l => (l, Plain l)
  | OneShot l => (l, OneShot [])
  end.

Definition plain (s : seqv) : bool := match s with Plain _ => true | OneShot _ => false end.

Definition mask (v : Z) : Z := Z.land v 31.

(* the source statements and the IR nodes of the fragment *)
Inductive snode := SGlyph (lcd : ident) (slot : text) (rows : list Z) | SOther (t : text).
Inductive enode := EGlyph (lcd : ident) (slot : text) (rows : seqv) | EOther (t : text).

(* the emitted lines: `uint8_t <prefix>_glyph_<lcd>_<n>[8] = {vals};  <object>.createChar(slot, ...)` *)
Inductive eout := OGlyph (lcd : ident) (n : Z) (slot : text) (vals : list Z) | OText (t : text).

Definition parse_node (mk : list Z -> seqv) (s : snode) : enode :=
  match s with
  | SGlyph lcd slot rows => EGlyph lcd slot (mk rows)
  | SOther t => EOther t
  end.

Definition parse_with (mk : list Z -> seqv) (src : list snode) : list enode := map (parse_node mk) src.

Definition counts := list (ident * Z).
Definition count_of (c : counts) (x : ident) : Z := match tlookup x c with Some n => n | None => 0 end.

(* one emit(): the text and the Program as the call leaves it *)
Fixpoint emit_nodes (c : counts) (p : list enode) : list eout * list enode :=
  match p with
  | [] => ([], [])
  | EOther t :: q => let (o, q') := emit_nodes c q in (OText t :: o, EOther t :: q')
  | EGlyph lcd slot rows :: q =>
      let n := count_of c lcd + 1 in
      let (vals, rows') := iter rows in
      let (o, q') := emit_nodes ((lcd, n) :: c) q in
      (OGlyph lcd n slot (map mask vals) :: o, EGlyph lcd slot rows' :: q')
  end.

Definition emit (p : list enode) : list eout * list enode := emit_nodes [] p.

(* the specification: the text of a script *)
Fixpoint spec_nodes (c : counts) (src : list snode) : list eout :=
  match src with
  | [] => []
  | SOther t :: q => OText t :: spec_nodes c q
  | SGlyph lcd slot rows :: q =>
      let n := count_of c lcd + 1 in OGlyph lcd n slot (map mask rows) :: spec_nodes ((lcd, n) :: c) q
  end.

Definition spec_emit (src : list snode) : list eout := spec_nodes [] src.

(* ---------------------------------------------------------------- sessions of parse() / emit() calls in one process *)
Inductive eop := EParse (i : nat) | EEmit (i : nat).

Definition estore := list (nat * list enode).         (* the Program kept for script i (latest binding first) *)

Fixpoint slookup (i : nat) (s : estore) : option (list enode) :=
  match s with
  | [] => None
  | (j, p) :: r => if Nat.eqb i j then Some p else slookup i r
  end.

(* one result per EEmit: None = no Program was parsed for that script *)
Fixpoint esession (mk : list Z -> seqv) (srcs : list (list snode)) (ops : list eop) (st : estore) : list (option (list eout)) :=
  match ops with
  | [] => []
  | EParse i :: r =>
      match nth_error srcs i with
      | Some s => esession mk srcs r ((i, parse_with mk s) :: st)
      | None => esession mk srcs r st
      end
  | EEmit i :: r =>
      match slookup i st with
      | None => None :: esession mk srcs r st
      | Some p => let (o, p') := emit p in Some o :: esession mk srcs r ((i, p') :: st)
      end
  end.

Definition nmem (i : nat) (l : list nat) : bool := existsb (Nat.eqb i) l.

Fixpoint espec (srcs : list (list snode)) (ops : list eop) (parsed : list nat) : list (option (list eout)) :=
  match ops with
  | [] => []
  | EParse i :: r =>
      match nth_error srcs i with
      | Some _ => espec srcs r (i :: parsed)
      | None => espec srcs r parsed
      end
  | EEmit i :: r =>
      (if nmem i parsed then option_map spec_emit (nth_error srcs i) else None) :: espec srcs r parsed
  end.

(* ---------------------------------------------------------------- the parser's ways of storing the rows *)
(* the guard: the field is a list whose masked items are the masked rows of the script *)
Definition faithful (mk : list Z -> seqv) : Prop :=
  forall l, exists l', mk l = Plain l' /\ map mask l' = map mask l.

Definition mk_list (l : list Z) : seqv := Plain l.                          (* the code as it is *)
Definition mk_masked_list (l : list Z) : seqv := Plain (map mask l).        (* bitmap=[row & 0x1F for row in bitmap_list] *)
Definition mk_masked_gen (l : list Z) : seqv := OneShot (map mask l).       (* bitmap=(row & 0x1F for row in bitmap_list) *)

(* the flow of Reduino.target(), of the unit tests and of every comparison that re-parses: parse(i); emit(i) *)
Definition once_each (is : list nat) : list eop := flat_map (fun i => [EParse i; EEmit i]) is.

(* witness of the refutation: one script with two glyphs on one display *)
Definition n_lcd : ident := txt "lcd".
Definition w_rows1 : list Z := [0; 10; 31; 31; 14; 4; 0; 0].
Definition w_rows2 : list Z := [4; 14; 31; 4; 4; 4; 4; 32].
Definition w_src : list snode := [SOther (txt "begin"); SGlyph n_lcd (txt "0") w_rows1; SGlyph n_lcd (txt "1") w_rows2].

(* ---------------------------------------------------------------- wire helpers: which storage the inventory of the source shows *)
Definition mk_of (lazy : bool) : list Z -> seqv := if lazy then OneShot else Plain.
