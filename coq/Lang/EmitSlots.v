(* C08, emitter stage - the PLACES each IR field is written to, as reviewed on the emitter of /repo bb7ef48
   (the text after each entry is the emitted line with the field's own value cut out; the identifier is the
   first ten hex digits of its SHA-1).  Regenerated on every run (coq/Gen/EmitStage.v) and compared with this
   committed table by C08_emit_places_pinned: an emitter that writes a field anywhere else no longer matches.
   Model file: definitions only. *)
From Coq Require Import String Ascii ZArith List Bool.
From RV Require Import Base.Wire Base.Text Lang.Bind.
Import ListNotations.
Local Open Scope string_scope.

Definition expected_slots_src : list (text * list (text * list string)) := [
  (T "ButtonDecl", [
     (T "pin", ["1c09fdfd82"; "a6317998f9"; "322024b131"])
       (* pinMode(<>, _); | __redu_button_prev_dev = (digitalRead(<>) == HIGH); | bool __redu_button_next_dev = (digitalRead(<>) == HIGH); *);
     (T "on_click", ["1c41081d8d"])
       (* <>(); *)]);
  (T "BuzzerBeep", [
     (T "frequency", ["865a2fc717"])
       (* float __redu_freq_target = static_cast<float>(<>); *);
     (T "on_ms", ["63199cf314"])
       (* auto __redu_on_ms_arg = (<>); *);
     (T "off_ms", ["7d76d6b8a5"])
       (* auto __redu_off_ms_arg = (<>); *);
     (T "times", ["15a8a44892"])
       (* int __redu_times = static_cast<int>(<>); *)]);
  (T "BuzzerDecl", [
     (T "pin", ["1c09fdfd82"])
       (* pinMode(<>, _); *);
     (T "default_frequency", ["b868a21ede"])
       (* float __buzzer_last_dev = static_cast<float>(<>); *)]);
  (T "BuzzerMelody", [
     (T "melody", []);
     (T "tempo", ["c8d2e9c6e9"])
       (* float __redu_tempo = static_cast<float>(<>); *)]);
  (T "BuzzerPlayTone", [
     (T "frequency", ["1946510e90"])
       (* float __redu_freq = static_cast<float>(<>); *);
     (T "duration_ms", ["fbdf027114"])
       (* auto __redu_duration_arg = (<>); *)]);
  (T "BuzzerSweep", [
     (T "start_hz", ["1042a976de"])
       (* float __redu_start = static_cast<float>(<>); *);
     (T "end_hz", ["f270846d6c"])
       (* float __redu_end = static_cast<float>(<>); *);
     (T "duration_ms", ["8ed6ee94d0"])
       (* auto __redu_total_arg = (<>); *);
     (T "steps", ["2d1c42f3a6"])
       (* int __redu_steps = static_cast<int>(<>); *)]);
  (T "DCMotorBackward", [
     (T "speed", ["eb9711e684"])
       (* float __redu_backward = static_cast<float>(<>); *)]);
  (T "DCMotorDecl", [
     (T "in1", ["1c09fdfd82"; "0558223fc1"])
       (* pinMode(<>, _); | digitalWrite(<>, _); *);
     (T "in2", ["1c09fdfd82"; "0558223fc1"])
       (* pinMode(<>, _); | digitalWrite(<>, _); *);
     (T "enable", ["1c09fdfd82"; "1e51faaf96"])
       (* pinMode(<>, _); | analogWrite(<>, 0); *)]);
  (T "DCMotorRamp", [
     (T "target_speed", ["2ff42d46f9"])
       (* float __redu_target = static_cast<float>(<>); *);
     (T "duration_ms", ["21c52c0c83"])
       (* float __redu_duration = static_cast<float>(<>); *)]);
  (T "DCMotorRunFor", [
     (T "duration_ms", ["21c52c0c83"])
       (* float __redu_duration = static_cast<float>(<>); *);
     (T "speed", ["eb113f6e9f"])
       (* float __redu_speed = static_cast<float>(<>); *)]);
  (T "DCMotorSetSpeed", [
     (T "speed", ["eb113f6e9f"])
       (* float __redu_speed = static_cast<float>(<>); *)]);
  (T "LCDAnimate", [
     (T "animation", []);
     (T "row", ["3a617fd25e"])
       (* __redu_lcd_start_bounce(_, _, _, static_cast<int>(<>), _, _, _); *);
     (T "text", ["7e92d5d86c"])
       (* __redu_lcd_start_bounce(_, _, _, _, String(<>), _, _); *);
     (T "speed_ms", ["2b0d86bd73"])
       (* __redu_lcd_start_bounce(_, _, _, _, _, static_cast<unsigned long>(<>), _); *);
     (T "loop", ["de08b7effc"])
       (* __redu_lcd_start_bounce(_, _, _, _, _, _, <>); *)]);
  (T "LCDBacklight", [
     (T "on", ["51f9c6015d"])
       (* if (<>) { *)]);
  (T "LCDBrightness", [
     (T "level", ["2a51d25793"])
       (* __redu_lcd_brightness_dev = static_cast<int>(<>); *)]);
  (T "LCDDecl", [
     (T "rs", ["bdaaf60b0d"])
       (* LiquidCrystal __redu_lcd_dev(<>, _, _, _, _, _, _); *);
     (T "en", ["96b65253c3"])
       (* LiquidCrystal __redu_lcd_dev(_, _, <>, _, _, _, _); *);
     (T "d4", ["cc979bee3a"])
       (* LiquidCrystal __redu_lcd_dev(_, _, _, <>, _, _, _); *);
     (T "d5", ["23f3d0f5c1"])
       (* LiquidCrystal __redu_lcd_dev(_, _, _, _, <>, _, _); *);
     (T "d6", ["2160833891"])
       (* LiquidCrystal __redu_lcd_dev(_, _, _, _, _, <>, _); *);
     (T "d7", ["957c72f1b1"])
       (* LiquidCrystal __redu_lcd_dev(_, _, _, _, _, _, <>); *);
     (T "cols", ["e9bbe81f91"])
       (* const int __redu_lcd_cols_dev = static_cast<int>(<>); *);
     (T "rows", ["8da84c891d"])
       (* const int __redu_lcd_rows_dev = static_cast<int>(<>); *);
     (T "rw", ["ed8e58cc3b"])
       (* LiquidCrystal __redu_lcd_dev(_, <>, _, _, _, _, _); *);
     (T "backlight_pin", ["1c09fdfd82"; "cba39c1de1"])
       (* pinMode(<>, _); | analogWrite(<>, _); *);
     (T "i2c_addr", [])]);
  (T "LCDDisplay", [
     (T "on", ["51f9c6015d"])
       (* if (<>) { *)]);
  (T "LCDGlyph", [
     (T "slot", ["e2835826c8"])
       (* __redu_lcd_dev.createChar(static_cast<uint8_t>(<>), _); *);
     (T "bitmap", [])]);
  (T "LCDLine", [
     (T "row", ["770f56df6b"])
       (* __redu_lcd_write_aligned(_, _, 0, static_cast<int>(<>), _, _, _); *);
     (T "text", ["e467c020f6"])
       (* __redu_lcd_write_aligned(_, _, 0, _, String(<>), _, _); *);
     (T "align", []);
     (T "clear_row", ["dc8e355483"])
       (* __redu_lcd_write_aligned(_, _, 0, _, _, <>, _); *)]);
  (T "LCDMessage", [
     (T "top", ["b9ea4bbaaf"])
       (* __redu_lcd_write_aligned(_, _, 0, 0, String(<>), _, _); *);
     (T "bottom", ["c432bc42f8"])
       (* __redu_lcd_write_aligned(_, _, 0, 1, String(<>), _, _); *);
     (T "top_align", []);
     (T "bottom_align", []);
     (T "clear_rows", ["741d936e5f"; "5ee2ca1a24"])
       (* __redu_lcd_write_aligned(_, _, 0, 0, _, <>, _); | __redu_lcd_write_aligned(_, _, 0, 1, _, <>, _); *)]);
  (T "LCDProgress", [
     (T "row", ["51455abb20"])
       (* __redu_lcd_progress(_, _, static_cast<int>(<>), _, _, _, _, _); *);
     (T "value", ["adc94d50ee"])
       (* __redu_lcd_progress(_, _, _, static_cast<int>(<>), _, _, _, _); *);
     (T "max_value", ["3ce07990f4"])
       (* __redu_lcd_progress(_, _, _, _, static_cast<int>(<>), _, _, _); *);
     (T "width", ["70ccdb4d44"])
       (* __redu_lcd_progress(_, _, _, _, _, static_cast<int>(<>), _, _); *);
     (T "style", []);
     (T "label", ["14fcb82e28"])
       (* __redu_lcd_progress(_, _, _, _, _, _, _, String(<>)); *)]);
  (T "LCDWrite", [
     (T "col", ["5774ecd28b"])
       (* __redu_lcd_write_aligned(_, _, static_cast<int>(<>), _, _, _, _); *);
     (T "row", ["994af13e52"])
       (* __redu_lcd_write_aligned(_, _, _, static_cast<int>(<>), _, _, _); *);
     (T "text", ["d05f09a094"])
       (* __redu_lcd_write_aligned(_, _, _, _, String(<>), _, _); *);
     (T "clear_row", ["e063edf860"])
       (* __redu_lcd_write_aligned(_, _, _, _, _, <>, _); *);
     (T "align", [])]);
  (T "LedBlink", [
     (T "duration_ms", ["3c6a594843"])
       (* delay(<>); *);
     (T "times", ["03aab21479"])
       (* int __redu_times = <>; *)]);
  (T "LedDecl", [
     (T "pin", ["1c09fdfd82"])
       (* pinMode(<>, _); *)]);
  (T "LedFadeIn", [
     (T "step", ["b74673686d"])
       (* int __redu_step = <>; *);
     (T "delay_ms", ["3c6a594843"])
       (* delay(<>); *)]);
  (T "LedFadeOut", [
     (T "step", ["b74673686d"])
       (* int __redu_step = <>; *);
     (T "delay_ms", ["3c6a594843"])
       (* delay(<>); *)]);
  (T "LedFlashPattern", [
     (T "pattern", []);
     (T "delay_ms", ["3c6a594843"])
       (* delay(<>); *)]);
  (T "LedSetBrightness", [
     (T "value", ["5cbae8395f"])
       (* int __redu_brightness = <>; *)]);
  (T "PotentiometerDecl", [
     (T "pin", ["1c09fdfd82"])
       (* pinMode(<>, _); *)]);
  (T "RGBLedBlink", [
     (T "red", ["ad7fc6bfff"])
       (* int __redu_target_red = <>; *);
     (T "green", ["87c7bf983b"])
       (* int __redu_target_green = <>; *);
     (T "blue", ["7cc64dfb3f"])
       (* int __redu_target_blue = <>; *);
     (T "times", ["03aab21479"])
       (* int __redu_times = <>; *);
     (T "delay_ms", ["240558bd1d"])
       (* long __redu_delay = <>; *)]);
  (T "RGBLedDecl", [
     (T "red_pin", ["1c09fdfd82"])
       (* pinMode(<>, _); *);
     (T "green_pin", ["1c09fdfd82"])
       (* pinMode(<>, _); *);
     (T "blue_pin", ["1c09fdfd82"])
       (* pinMode(<>, _); *)]);
  (T "RGBLedFade", [
     (T "red", ["ad7fc6bfff"])
       (* int __redu_target_red = <>; *);
     (T "green", ["87c7bf983b"])
       (* int __redu_target_green = <>; *);
     (T "blue", ["7cc64dfb3f"])
       (* int __redu_target_blue = <>; *);
     (T "duration_ms", ["57971aaf05"])
       (* long __redu_duration = <>; *);
     (T "steps", ["4ea0fe55b3"])
       (* int __redu_steps = <>; *)]);
  (T "RGBLedOn", [
     (T "red", ["b3e260d52a"])
       (* int __redu_red = <>; *);
     (T "green", ["51b739210a"])
       (* int __redu_green = <>; *);
     (T "blue", ["aced1501b4"])
       (* int __redu_blue = <>; *)]);
  (T "RGBLedSetColor", [
     (T "red", ["b3e260d52a"])
       (* int __redu_red = <>; *);
     (T "green", ["51b739210a"])
       (* int __redu_green = <>; *);
     (T "blue", ["aced1501b4"])
       (* int __redu_blue = <>; *)]);
  (T "SerialMonitorDecl", [
     (T "baud", ["9bb396e227"])
       (* Serial.begin(<>); *)]);
  (T "SerialWrite", [
     (T "value", ["4bdd53e23d"])
       (* Serial.println(<>); *)]);
  (T "ServoDecl", [
     (T "pin", ["f5923ce3e8"])
       (* __servo_dev.attach(<>, _, _); *);
     (T "min_angle", ["e96d57a03d"])
       (* float __servo_min_angle_dev = static_cast<float>(<>); *);
     (T "max_angle", ["9ab48c4587"])
       (* float __servo_max_angle_dev = static_cast<float>(<>); *);
     (T "min_pulse_us", ["96efde738a"; "bd745ee2a8"; "2fc207dbae"])
       (* float __servo_min_pulse_dev = static_cast<float>(<>); | __servo_dev.attach(_, static_cast<int>(<>), _); | __servo_dev.writeMicroseconds(static_cast<int>(<>)); *);
     (T "max_pulse_us", ["0d1e6df29c"; "c04866d5e0"])
       (* float __servo_max_pulse_dev = static_cast<float>(<>); | __servo_dev.attach(_, _, static_cast<int>(<>)); *)]);
  (T "ServoWrite", [
     (T "angle", ["31b49444cf"])
       (* float __redu_angle = static_cast<float>(<>); *)]);
  (T "ServoWriteMicroseconds", [
     (T "pulse_us", ["bda1920dca"])
       (* float __redu_pulse = static_cast<float>(<>); *)]);
  (T "UltrasonicDecl", [
     (T "trig", ["1c09fdfd82"])
       (* pinMode(<>, _); *);
     (T "echo", ["1c09fdfd82"])
       (* pinMode(<>, _); *)])
].


Definition expected_places : list (text * list (text * list text)) := Eval vm_compute in
  map (fun kfs => (fst kfs, map (fun fp => (fst fp, map T (snd fp))) (snd kfs))) expected_slots_src.
