(* C07 - the statement nodes of _emit_block and the de-duplication sets it carries along.

     _emit_block(..., in_setup, emitted_pin_modes, ultrasonic_pin_modes)     emitter.py:861-889
     VarDecl / VarAssign / ExprStmt / ReturnStmt / BreakStmt / ContinueStmt   emitter.py:1652-1679
     LedDecl / BuzzerDecl / RGBLedDecl / DCMotorDecl                          emitter.py:1711-1760, 1869-1892
     UltrasonicDecl                                                           emitter.py:1762-1777

   The two sets are shared by every nested call (setup(), every block inside it, then the functions and
   loop() with in_setup = False).  Only DEVICE DECLARATIONS look at them: in setup() the pinMode line of a
   (device, pin, role) key is written the first time the key is seen.  Every statement node writes its
   lines whatever the sets hold - the same statement twice gives the same lines twice.

   Trees are written the way the firmware is: a compound statement is one stanza (`if (c)`, `else if (c)`,
   `else`, `while (c)`, `for (...)`, `try`, `catch (...)`) with its nodes; [opt] marks the `else` stanza,
   which is not written when it holds no node.

   No proofs in this file. *)
From Coq Require Import ZArith List Bool.
From RV Require Import Base.Wire Base.Text Lang.Lex Lang.EmitBlocks.
Import ListNotations.
Open Scope Z_scope.

Definition key := list text.
Fixpoint key_eqb (a b : key) : bool :=
  match a, b with
  | [], [] => true
  | x :: p, y :: q => text_eqb x y && key_eqb p q
  | _, _ => false
  end.
Definition kmem (k : key) (s : list key) : bool := existsb (key_eqb k) s.

(* (emitted_pin_modes, ultrasonic_pin_modes) *)
Definition sets : Type := (list key * list key)%type.

Inductive sn :=
| SStmt (cl : list text)                                     (* a statement node: the lines it is emitted as *)
| SDecl (us : bool) (pins : list (key * text)) (tail : list text)
      (* a device declaration: (key, pinMode line) pairs - us: looked up in the ultrasonic set -, and the lines
         written after them in setup() in every case (DCMotorDecl: the three idle writes) *)
| SRaw (cl : list text)                                      (* what a declaration turned out to write *)
| SCtl (opt : bool) (h : text) (kids : list sn).

Fixpoint pins_out (pins : list (key * text)) (s : list key) : list text * list key :=
  match pins with
  | [] => ([], s)
  | (k, l) :: r =>
      if kmem k s then pins_out r s
      else let '(ls, s') := pins_out r (k :: s) in (l :: ls, s')
  end.

Definition decl_out (in_setup us : bool) (pins : list (key * text)) (tail : list text) (st : sets) : list text * sets :=
  if in_setup then
    let '(pm, u) := st in
    if us then let '(ls, u') := pins_out pins u in (ls ++ tail, (pm, u'))
    else let '(ls, pm') := pins_out pins pm in (ls ++ tail, (pm', u))
  else ([], st).

Definition indent_all (ind : text) (cl : list text) : list text := map (fun l => ind ++ l) cl.

Fixpoint emit_sn (in_setup : bool) (ind : text) (n : sn) (st : sets) {struct n} : list text * sets :=
  match n with
  | SStmt cl => (indent_all ind cl, st)
  | SRaw cl => (indent_all ind cl, st)
  | SDecl us pins tail => let '(ls, st') := decl_out in_setup us pins tail st in (indent_all ind ls, st')
  | SCtl opt h kids =>
      if opt && is_nil kids then ([], st)
      else
        let '(ls, st') :=
          (fix go (l : list sn) (st : sets) {struct l} : list text * sets :=
             match l with
             | [] => ([], st)
             | x :: r => let '(a, s1) := emit_sn in_setup (ind ++ s_two) x st in
                         let '(c, s2) := go r s1 in (a ++ c, s2)
             end) kids st in
        (open_line ind h :: ls ++ [close_line ind], st')
  end.

Fixpoint emit_sl (in_setup : bool) (ind : text) (l : list sn) (st : sets) : list text * sets :=
  match l with
  | [] => ([], st)
  | x :: r => let '(a, s1) := emit_sn in_setup ind x st in
              let '(c, s2) := emit_sl in_setup ind r s1 in (a ++ c, s2)
  end.

(* ---------------------------------------------------------------- the same in two steps *)

(* step 1: decide what every declaration writes *)
Fixpoint res (in_setup : bool) (n : sn) (st : sets) {struct n} : sn * sets :=
  match n with
  | SDecl us pins tail => let '(ls, st') := decl_out in_setup us pins tail st in (SRaw ls, st')
  | SCtl opt h kids =>
      let '(k', st') :=
        (fix go (l : list sn) (st : sets) {struct l} : list sn * sets :=
           match l with
           | [] => ([], st)
           | x :: r => let '(a, s1) := res in_setup x st in
                       let '(c, s2) := go r s1 in (a :: c, s2)
           end) kids st in
      (SCtl opt h k', st')
  | _ => (n, st)
  end.

Fixpoint res_l (in_setup : bool) (l : list sn) (st : sets) : list sn * sets :=
  match l with
  | [] => ([], st)
  | x :: r => let '(a, s1) := res in_setup x st in
              let '(c, s2) := res_l in_setup r s1 in (a :: c, s2)
  end.

(* step 2: write the lines; nothing depends on a set any more *)
Fixpoint emit_p (ind : text) (n : sn) {struct n} : list text :=
  match n with
  | SStmt cl => indent_all ind cl
  | SRaw cl => indent_all ind cl
  | SDecl _ _ _ => []
  | SCtl opt h kids =>
      if opt && is_nil kids then []
      else open_line ind h :: flat_map (emit_p (ind ++ s_two)) kids ++ [close_line ind]
  end.
Definition emit_pl (ind : text) (l : list sn) : list text := flat_map (emit_p ind) l.

(* ---------------------------------------------------------------- SPEC *)

(* the script's part of a tree: every statement node and every stanza; what declarations write is blanked *)
Fixpoint stmt_only (n : sn) {struct n} : sn :=
  match n with
  | SStmt cl => SStmt cl
  | SDecl _ _ _ => SRaw []
  | SRaw _ => SRaw []
  | SCtl opt h kids => SCtl opt h (map stmt_only kids)
  end.

(* a is l with some lines left out *)
Inductive sub {A} : list A -> list A -> Prop :=
| sub_nil : forall l, sub [] l
| sub_skip : forall a x l, sub a l -> sub a (x :: l)
| sub_take : forall a x l, sub a l -> sub (x :: a) (x :: l).

(* how many times a line occurs *)
Fixpoint count_line (t : text) (l : list text) : nat :=
  match l with [] => O | x :: r => (if text_eqb t x then 1 else 0) + count_line t r end.

(* a tree without declarations *)
Fixpoint no_decl (n : sn) {struct n} : bool :=
  match n with
  | SDecl _ _ _ => false
  | SCtl _ _ kids => forallb no_decl kids
  | _ => true
  end.
