(* C08, emitter stage - the types of the regenerated table coq/Gen/EmitStage.v.
   Model file: definitions only.

   An IR node field holds None, a constant the parser folded, or C expression text.  The emitter branch of the
   node kind decides with a PRESENCE TEST whether the field is written into the C++ as an argument or whether
   the "argument omitted" code is written instead. *)
From Coq Require Import ZArith List Bool.
From RV Require Import Base.Wire Base.Text.
Import ListNotations.
Open Scope Z_scope.

Inductive ptest :=
| PAlways      (* the branch writes the field unconditionally (None is not a legal value of the field) *)
| PNotNone     (* `x is not None`: only None selects the omitted code *)
| PTruthy      (* `if x`: every falsy constant (0, 0.0, False, "") selects the omitted code as well *)
| PNoneAsZero  (* `x if x is not None else 0`: None is written as the integer constant 0 *)
| PUnread.     (* no value of the field changes the emitted text in the probed configuration *)

(* one field of one IR node kind, as observed on the current emitter by harness/gen/emitstage.py:
   ef_slots     for every probed presence pattern of the OTHER nullable fields: the identifiers of the emitted
                lines (text with the field's own value cut out) into which this field's value is written
   ef_falsy_def a falsy constant is written exactly like the (different) signature default of the parameter *)
Record efield := mkef { ef_name : text; ef_test : ptest; ef_slots : list (list text); ef_falsy_def : bool }.

Definition ptest_truthy (t : ptest) : bool := match t with PTruthy => true | _ => false end.
