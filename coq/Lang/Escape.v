(* C06 - string literals.

   [escape] is Reduino's _escape_string_literal (transpile/parser.py) as repaired by the
   fix "escape control characters in string literals": ONE pass over the characters,

     backslash -> backslash backslash        double quote -> backslash quote
     LF 10 -> backslash n      CR 13 -> backslash r      TAB 9 -> backslash t
     every other code point below 0x20, and DEL 0x7f -> backslash + THREE octal digits
     anything else (all of 0x20..0x7e but the two above, and every code point >= 0x80)
       -> the character itself; for a non-ASCII character the compiler stores its UTF-8
          bytes, as before the repair.

   (Python tests ord(ch) < 0x20; a code point is never negative.  The model tests
   0 <= c < 0x20, which is the same on every string and makes [escape] well defined on the
   whole of [list Z]: an - impossible - negative entry is passed through like any other
   ordinary character, so that the theorems need no side condition.)

   [escape_quotes_only] is the function BEFORE the repair (two str.replace passes, backslash
   and double quote only).  It is kept as the contrast that shows what the repair is for
   (Props/C06.v: C06_escape_control_needed, C06_old_escape_splice_corrupted).

   [clex_string] is a lexer for ONE ordinary (prefix-less, non-raw) C++ string literal that
   starts at a double quote, as g++ -std=gnu++17 reads it from a UTF-8 source file whose
   execution character set is UTF-8 too:

     * translation phase 2 (line splicing) is done on the fly: a backslash immediately
       followed by a line end (LF, CR LF, or a lone CR - GCC treats a lone CR as a line
       end) disappears, whatever the lexer state;
     * a line end (LF 10 or CR 13) inside the literal, or the end of the input before the
       closing quote: the literal is unterminated - the translation unit does not compile
       (result None);
     * simple escapes: backslash followed by one of  backslash, double quote, single quote,
       question mark, a b f n r t v ; octal escapes (1-3 digits, this includes the NUL
       escape) ; hexadecimal escapes (x followed by 1 or more hex digits);
     * any other character after a backslash (u / U universal character names, GNU e,
       unknown escapes that g++ accepts with a pedantic warning), a numeric escape above
       255, and GCC's splice of backslash-blanks-newline are OUTSIDE the model: None.
       None of them can occur in the image of [escape], where every backslash is followed
       by a backslash, a quote, one of n r t, or three octal digits (Proofs/EscapeP.v);
     * trigraphs (question mark, question mark, slash = backslash, ...) are NOT replaced:
       GCC disables trigraphs by default in every gnu++NN mode (they are removed from the
       language in C++17), so such a sequence is three ordinary characters.  (With
       -std=c++11/14 or -trigraphs they would be active; the Arduino cores and PlatformIO
       build with gnu++11 / gnu++17.)

   The decoded content is a list of code points for characters written verbatim (the
   compiler stores their UTF-8 encoding) and the numeric value for escapes (a code unit;
   for values < 128 the two notions coincide).  The second component is the unconsumed
   rest of the input (raw, not spliced).  No proofs in this file. *)
From Coq Require Import ZArith List Bool.
From RV Require Import Base.Wire.
Import ListNotations.
Open Scope Z_scope.

(* ---------------------------------------------------------------- escape *)

(* Python str.replace(c, by) for a one-character pattern c *)
Fixpoint replace1 (c : Z) (by_ : text) (s : text) : text :=
  match s with
  | [] => []
  | x :: r => if x =? c then by_ ++ replace1 c by_ r else x :: replace1 c by_ r
  end.

Definition BSL : Z := 92.   (* backslash *)
Definition DQ  : Z := 34.   (* double quote *)
Definition LF  : Z := 10.
Definition CR  : Z := 13.

(* before the repair: two successive whole-string replace passes *)
Definition escape_quotes_only (s : text) : text :=
  replace1 DQ [BSL; DQ] (replace1 BSL [BSL; BSL] s).

(* the other control characters: code points 0..31 (LF, CR, TAB are taken out first) and DEL *)
Definition is_ctl (c : Z) : bool := ((0 <=? c) && (c <? 32)) || (c =? 127).

(* backslash + exactly three octal digits (format spec 03o; c < 512) *)
Definition oct3 (c : Z) : text := [BSL; 48 + c / 64; 48 + (c / 8) mod 8; 48 + c mod 8].

Definition esc_char (c : Z) : text :=
  if c =? BSL then [BSL; BSL]
  else if c =? DQ then [BSL; DQ]
  else if c =? LF then [BSL; 110]
  else if c =? CR then [BSL; 114]
  else if c =? 9 then [BSL; 116]
  else if is_ctl c then oct3 c
  else [c].

Definition escape (s : text) : text := flat_map esc_char s.

(* which characters get a two-character escape / a four-character octal escape *)
Definition esc_simple (c : Z) : bool :=
  (c =? BSL) || (c =? DQ) || (c =? LF) || (c =? CR) || (c =? 9).
Definition esc_octal (c : Z) : bool := is_ctl c && negb (esc_simple c).

(* the literal as it appears in the emitted C++: quote, escape s, quote *)
Definition c_literal (s : text) : text := DQ :: escape s ++ [DQ].
Definition c_literal_old (s : text) : text := DQ :: escape_quotes_only s ++ [DQ].

(* ---------------------------------------------------------------- the C++ lexer *)

Definition simple_escape (c : Z) : option Z :=
  if c =? 92 then Some 92          (* backslash *)
  else if c =? 34 then Some 34     (* double quote *)
  else if c =? 39 then Some 39     (* single quote *)
  else if c =? 63 then Some 63     (* question mark *)
  else if c =? 97 then Some 7      (* a *)
  else if c =? 98 then Some 8      (* b *)
  else if c =? 102 then Some 12    (* f *)
  else if c =? 110 then Some 10    (* n *)
  else if c =? 114 then Some 13    (* r *)
  else if c =? 116 then Some 9     (* t *)
  else if c =? 118 then Some 11    (* v *)
  else None.

Definition is_octal (c : Z) : bool := (48 <=? c) && (c <=? 55).

Definition hex_value (c : Z) : option Z :=
  if (48 <=? c) && (c <=? 57) then Some (c - 48)
  else if (65 <=? c) && (c <=? 70) then Some (c - 55)
  else if (97 <=? c) && (c <=? 102) then Some (c - 87)
  else None.

Inductive lstate : Type :=
| LNorm                               (* inside the literal, not in an escape *)
| LEsc                                (* just after a backslash *)
| LOct (n : nat) (v : Z)              (* n octal digits read so far (1..3), value v *)
| LHex (seen : bool) (v : Z).         (* after backslash-x ; seen = at least one digit *)

(* [acc] is the decoded content so far, reversed *)
Fixpoint clex_go (st : lstate) (acc : text) (s : text) : option (text * text) :=
  match s with
  | [] => None                                          (* end of input: unterminated *)
  | c :: r =>
      (* what an ordinary (non-escape) position does with c *)
      let norm (acc : text) : option (text * text) :=
        if c =? DQ then Some (rev acc, r)
        else if (c =? LF) || (c =? CR) then None         (* raw line end: unterminated *)
        else if c =? BSL then clex_go LEsc acc r
        else clex_go LNorm (c :: acc) r in
      let step : option (text * text) :=
        match st with
        | LNorm => norm acc
        | LEsc =>
            match simple_escape c with
            | Some v => clex_go LNorm (v :: acc) r
            | None =>
                if is_octal c then clex_go (LOct 1 (c - 48)) acc r
                else if c =? 120 then clex_go (LHex false 0) acc r
                else None                                (* outside the model *)
            end
        | LOct n v =>
            if is_octal c && Nat.ltb n 3 then clex_go (LOct (S n) (v * 8 + (c - 48))) acc r
            else if 255 <? v then None
            else norm (v :: acc)
        | LHex seen v =>
            match hex_value c with
            | Some d => clex_go (LHex true (v * 16 + d)) acc r
            | None => if seen && (v <=? 255) then norm (v :: acc) else None
            end
        end in
      (* translation phase 2: backslash + line end vanishes, in every state *)
      if c =? BSL then
        match r with
        | d :: r1 =>
            if d =? LF then clex_go st acc r1
            else if d =? CR then
              match r1 with
              | e :: r2 => if e =? LF then clex_go st acc r2 else clex_go st acc r1
              | [] => clex_go st acc r1
              end
            else step
        | [] => step
        end
      else step
  end.

(* the input must start at the opening quote *)
Definition clex_string (s : text) : option (text * text) :=
  match s with
  | c :: r => if c =? DQ then clex_go LNorm [] r else None
  | [] => None
  end.

(* the guard the round-trip theorem NEEDED before the repair (and still needs for
   [escape_quotes_only]): no line-end character in the Python string *)
Definition no_line_end (s : text) : Prop := forall c, In c s -> c <> LF /\ c <> CR.

Fixpoint no_line_endb (s : text) : bool :=
  match s with [] => true | c :: r => negb ((c =? LF) || (c =? CR)) && no_line_endb r end.
