(* C06 - string literals.

   [escape] is Reduino's _escape_string_literal (transpile/parser.py:95): first every
   backslash is doubled, then every double quote gets a backslash in front - two
   successive whole-string str.replace passes, modelled as such (so that the order of the
   two passes is part of the model).

   [clex_string] is a lexer for ONE ordinary (prefix-less, non-raw) C++ string literal that
   starts at a double quote, as g++ -std=gnu++17 reads it from a UTF-8 source file whose
   execution character set is UTF-8 too:

     * translation phase 2 (line splicing) is done on the fly: a backslash immediately
       followed by a line end (LF, CR LF, or a lone CR - GCC treats a lone CR as a line
       end) disappears, whatever the lexer state;
     * a line end (LF 10 or CR 13) inside the literal, or the end of the input before the
       closing quote: the literal is unterminated - the translation unit does not compile
       (result None);
     * simple escapes: backslash followed by one of  backslash, double quote, single quote,
       question mark, a b f n r t v ; octal escapes (1-3 digits, this includes the NUL
       escape) ; hexadecimal escapes (x followed by 1 or more hex digits);
     * any other character after a backslash (u / U universal character names, GNU e,
       unknown escapes that g++ accepts with a pedantic warning), a numeric escape above
       255, and GCC's splice of backslash-blanks-newline are OUTSIDE the model: None.
       None of them can occur in the image of [escape], where every backslash is followed
       by a backslash or a quote (lemmas in Proofs/EscapeP.v);
     * trigraphs (question mark, question mark, slash = backslash, ...) are NOT replaced:
       GCC disables trigraphs by default in every gnu++NN mode (they are removed from the
       language in C++17), so such a sequence is three ordinary characters.  (With
       -std=c++11/14 or -trigraphs they would be active; the Arduino cores and PlatformIO
       build with gnu++11 / gnu++17.)

   The decoded content is a list of code points for characters written verbatim (the
   compiler stores their UTF-8 encoding) and the numeric value for escapes (a code unit;
   for values < 128 the two notions coincide).  The second component is the unconsumed
   rest of the input (raw, not spliced).  No proofs in this file. *)
From Coq Require Import ZArith List Bool.
From RV Require Import Base.Wire.
Import ListNotations.
Open Scope Z_scope.

(* ---------------------------------------------------------------- escape *)

(* Python str.replace(c, by) for a one-character pattern c *)
Fixpoint replace1 (c : Z) (by_ : text) (s : text) : text :=
  match s with
  | [] => []
  | x :: r => if x =? c then by_ ++ replace1 c by_ r else x :: replace1 c by_ r
  end.

Definition BSL : Z := 92.   (* backslash *)
Definition DQ  : Z := 34.   (* double quote *)
Definition LF  : Z := 10.
Definition CR  : Z := 13.

Definition escape (s : text) : text :=
  replace1 DQ [BSL; DQ] (replace1 BSL [BSL; BSL] s).

(* the literal as it appears in the emitted C++: quote, escape s, quote *)
Definition c_literal (s : text) : text := DQ :: escape s ++ [DQ].

(* ---------------------------------------------------------------- the C++ lexer *)

Definition simple_escape (c : Z) : option Z :=
  if c =? 92 then Some 92          (* backslash *)
  else if c =? 34 then Some 34     (* double quote *)
  else if c =? 39 then Some 39     (* single quote *)
  else if c =? 63 then Some 63     (* question mark *)
  else if c =? 97 then Some 7      (* a *)
  else if c =? 98 then Some 8      (* b *)
  else if c =? 102 then Some 12    (* f *)
  else if c =? 110 then Some 10    (* n *)
  else if c =? 114 then Some 13    (* r *)
  else if c =? 116 then Some 9     (* t *)
  else if c =? 118 then Some 11    (* v *)
  else None.

Definition is_octal (c : Z) : bool := (48 <=? c) && (c <=? 55).

Definition hex_value (c : Z) : option Z :=
  if (48 <=? c) && (c <=? 57) then Some (c - 48)
  else if (65 <=? c) && (c <=? 70) then Some (c - 55)
  else if (97 <=? c) && (c <=? 102) then Some (c - 87)
  else None.

Inductive lstate : Type :=
| LNorm                               (* inside the literal, not in an escape *)
| LEsc                                (* just after a backslash *)
| LOct (n : nat) (v : Z)              (* n octal digits read so far (1..3), value v *)
| LHex (seen : bool) (v : Z).         (* after backslash-x ; seen = at least one digit *)

(* [acc] is the decoded content so far, reversed *)
Fixpoint clex_go (st : lstate) (acc : text) (s : text) : option (text * text) :=
  match s with
  | [] => None                                          (* end of input: unterminated *)
  | c :: r =>
      (* what an ordinary (non-escape) position does with c *)
      let norm (acc : text) : option (text * text) :=
        if c =? DQ then Some (rev acc, r)
        else if (c =? LF) || (c =? CR) then None         (* raw line end: unterminated *)
        else if c =? BSL then clex_go LEsc acc r
        else clex_go LNorm (c :: acc) r in
      let step : option (text * text) :=
        match st with
        | LNorm => norm acc
        | LEsc =>
            match simple_escape c with
            | Some v => clex_go LNorm (v :: acc) r
            | None =>
                if is_octal c then clex_go (LOct 1 (c - 48)) acc r
                else if c =? 120 then clex_go (LHex false 0) acc r
                else None                                (* outside the model *)
            end
        | LOct n v =>
            if is_octal c && Nat.ltb n 3 then clex_go (LOct (S n) (v * 8 + (c - 48))) acc r
            else if 255 <? v then None
            else norm (v :: acc)
        | LHex seen v =>
            match hex_value c with
            | Some d => clex_go (LHex true (v * 16 + d)) acc r
            | None => if seen && (v <=? 255) then norm (v :: acc) else None
            end
        end in
      (* translation phase 2: backslash + line end vanishes, in every state *)
      if c =? BSL then
        match r with
        | d :: r1 =>
            if d =? LF then clex_go st acc r1
            else if d =? CR then
              match r1 with
              | e :: r2 => if e =? LF then clex_go st acc r2 else clex_go st acc r1
              | [] => clex_go st acc r1
              end
            else step
        | [] => step
        end
      else step
  end.

(* the input must start at the opening quote *)
Definition clex_string (s : text) : option (text * text) :=
  match s with
  | c :: r => if c =? DQ then clex_go LNorm [] r else None
  | [] => None
  end.

(* the guard of the round-trip theorem: no line-end character in the Python string
   (str.isprintable() implies it: LF and CR are category Cc) *)
Definition no_line_end (s : text) : Prop := forall c, In c s -> c <> LF /\ c <> CR.

Fixpoint no_line_endb (s : text) : bool :=
  match s with [] => true | c :: r => negb ((c =? LF) || (c =? CR)) && no_line_endb r end.
