(* emitter._exception_classes / _exception_class_decl (since the repair of F-C06-named-except): the exception classes named
   by the except clauses of a body are collected over the whole IR tree and each is declared once at file scope, so that the
   header  catch (<class> &...)  that _emit_block writes names a type.  Model file: definitions only. *)
From Coq Require Import ZArith List Bool.
From RV Require Import Base.Wire Base.Text.
Import ListNotations.
Open Scope Z_scope.

(* the IR as _nested_blocks sees it: a TryStatement (try body, handlers = (exception or none, body)); any other node with its
   nested statement lists (IfStatement: branches and else; loops: the body; simple statements: none) *)
Inductive enode : Type :=
| XTry (body : list enode) (hs : list (option text * list enode))
| XNode (blocks : list (list enode)).

(* list(dict.fromkeys(l)): first occurrences, order kept *)
Fixpoint dedup (l : list text) : list text :=
  match l with
  | [] => []
  | x :: r => x :: filter (fun y => negb (text_eqb x y)) (dedup r)
  end.

(* `h.exception for h in node.handlers if h.exception`: a handler without a class, or with an empty one, names nothing *)
Definition own (hs : list (option text * list enode)) : list text :=
  flat_map (fun h => match fst h with Some (c :: r) => [c :: r] | _ => [] end) hs.

(* _exception_classes(nodes), with its de-duplication at every level of the recursion *)
Fixpoint classes_node (n : enode) : list text :=
  match n with
  | XTry b hs =>
      own hs ++ dedup (flat_map classes_node b) ++ flat_map (fun h => dedup (flat_map classes_node (snd h))) hs
  | XNode bs => flat_map (fun b => dedup (flat_map classes_node b)) bs
  end.
Definition classes (l : list enode) : list text := dedup (flat_map classes_node l).

(* every class some handler of the tree names, with repetitions (the specification) *)
Fixpoint named_node (n : enode) : list text :=
  match n with
  | XTry b hs => own hs ++ flat_map named_node b ++ flat_map (fun h => flat_map named_node (snd h)) hs
  | XNode bs => flat_map (fun b => flat_map named_node b) bs
  end.
Definition named (l : list enode) : list text := flat_map named_node l.

(* emit(): setup body, loop body, then every function body *)
Definition program_classes (setup loop : list enode) (fns : list (list enode)) : list text :=
  classes (setup ++ loop ++ List.concat fns).

(* name.split("."): the components of a dotted name *)
Fixpoint split_dots (cur : text) (s : text) : list text :=
  match s with
  | [] => [rev cur]
  | c :: r => if c =? 46 then rev cur :: split_dots [] r else split_dots (c :: cur) r
  end.
Definition components (name : text) : list text := split_dots [] name.

(* what a declaration line introduces at file scope, and the qualified name it makes visible:
   struct C {};  or  namespace a { namespace b { struct C {}; } } *)
Definition decl_path (name : text) : list text := components name.
(* exception.replace(".", "::") as the list of components of the qualified name in the catch header *)
Fixpoint split_colons (cur : text) (s : text) : list text :=
  match s with
  | [] => [rev cur]
  | 58 :: 58 :: r => rev cur :: split_colons [] r
  | c :: r => split_colons (c :: cur) r
  end.
Fixpoint dots_to_colons (s : text) : text :=
  match s with [] => [] | c :: r => if c =? 46 then 58 :: 58 :: dots_to_colons r else c :: dots_to_colons r end.
Definition catch_path (name : text) : list text := split_colons [] (dots_to_colons name).

Definition k_struct : text := [115;116;114;117;99;116].
Definition k_namespace : text := [110;97;109;101;115;112;97;99;101].
(* the text of _exception_class_decl *)
Fixpoint wrap_ns (spaces_rev : list text) (decl : text) : text :=
  match spaces_rev with
  | [] => decl
  | sp :: r => wrap_ns r (k_namespace ++ [32] ++ sp ++ [32;123;32] ++ decl ++ [32;125])
  end.
Definition class_decl (name : text) : text :=
  let cs := components name in
  wrap_ns (rev (removelast cs)) (k_struct ++ [32] ++ last cs [] ++ [32;123;125;59]).

Definition demo_tree : list enode :=
  [ XNode []; XTry [XNode []] [(Some [86;69], [XNode []]); (None, []); (Some [97;46;66], [XTry [] [(Some [86;69], [])]])];
    XNode [[XTry [] [(Some [75;69], []); (Some [], [])]]; [XNode []]] ].
