(* C02 - which C++ overload a call of a user function reaches.

   The parser specialises a helper once per call signature (Lang/Decl.v: selected_functions) and the emitter
   writes one C++ function per variant.  Which of them a call executes is NOT decided by the parser: it is
   decided by the C++ compiler, from
     (1) the declarations that PRECEDE the call site in the translation unit -
         emitter.py emit():   <globals>  <prototype block>  <function definitions, emission order>  setup()  loop()
           prototypes = [f"{fn.return_type} {fn.name}({params});" for fn in ast.functions]        (fix bb7ef48)
         so inside the body of the i-th definition the compiler has seen the prototype block and the
         definitions 0..i; inside setup()/loop() it has seen everything;
     (2) overload resolution among the visible declarations of that name: every argument needs an implicit
         conversion sequence to the parameter type (exact match < promotion < conversion), a candidate wins
         when it is at least as good as every other one on every argument and better on one; no winner =
         the call is ill-formed (ambiguous).
   Parameter types are int / float / bool / String / __redu_list<..>; an argument EXPRESSION may also be a
   C++ double (a float literal, float * literal).  No proofs here. *)
From Coq Require Import ZArith QArith List Bool Arith.
From RV Require Import Base.Text Lang.PyAst Lang.PySem Lang.Infer Lang.Decl.
Import ListNotations.

(* ---- what the compiler remembers of a declaration: the name and the parameter type list ---- *)
Definition psig : Type := list cty.
Definition cdecl : Type := (ident * psig)%type.

Fixpoint ctys_eqb (a b : psig) : bool :=
  match a, b with
  | [], [] => true
  | x :: r, y :: s => cty_eqb x y && ctys_eqb r s
  | _, _ => false
  end.

Fixpoint mem_sig (s : psig) (l : list psig) : bool :=
  match l with [] => false | t :: r => ctys_eqb s t || mem_sig s r end.

(* a prototype and a definition (or two prototypes) with one parameter list are ONE function *)
Fixpoint dedup_acc (acc l : list psig) : list psig :=
  match l with
  | [] => acc
  | s :: r => if mem_sig s acc then dedup_acc acc r else dedup_acc (acc ++ [s]) r
  end.
Definition dedup (l : list psig) : list psig := dedup_acc [] l.

(* ---- the sketch, as far as name lookup is concerned ---- *)
Record sketch : Type := mk_sketch { sk_protos : list cdecl; sk_defs : list cdecl }.

(* emit(): one prototype per emitted function, in emission order, in front of the first body *)
Definition proto_block (defs : list cdecl) : list cdecl := defs.
Definition emit_sketch (defs : list cdecl) : sketch := mk_sketch (proto_block defs) defs.

(* the class of regressions that keys the prototypes by function name (dict.setdefault(fn.name, ...)):
   only the first variant of an overloaded helper is declared ahead of the bodies *)
Fixpoint first_per_name (seen : list ident) (defs : list cdecl) : list cdecl :=
  match defs with
  | [] => []
  | d :: r => if tmem (fst d) seen then first_per_name seen r else d :: first_per_name (fst d :: seen) r
  end.
Definition emit_sketch_one_proto_per_name (defs : list cdecl) : sketch := mk_sketch (first_per_name [] defs) defs.
(* ... and the state before fix bb7ef48: no prototype block at all *)
Definition emit_sketch_no_protos (defs : list cdecl) : sketch := mk_sketch [] defs.

(* where a call is written: in the body of the i-th emitted definition, or in setup()/loop() *)
Inductive site : Type := InBody (i : nat) | InMain.

Definition seen_decls (sk : sketch) (s : site) : list cdecl :=
  sk_protos sk ++ match s with InBody i => firstn (S i) (sk_defs sk) | InMain => sk_defs sk end.

Definition named (f : ident) (l : list cdecl) : list psig :=
  map snd (filter (fun d => text_eqb (fst d) f) l).

(* the overload set of name f at the call site *)
Definition candidates (sk : sketch) (s : site) (f : ident) : list psig := dedup (named f (seen_decls sk s)).

(* ---- C++ overload resolution on scalar types ---- *)
Inductive aty : Type := AT (c : cty) | ADouble.

Definition arith (c : cty) : bool := match c with CInt | CFloat | CBool => true | _ => false end.

(* rank of the implicit conversion sequence argument -> parameter: 0 identity, 1 integral promotion (bool -> int),
   2 conversion (integral, floating, floating-integral, boolean), None: no implicit conversion *)
Definition rank (a : aty) (p : cty) : option nat :=
  match a with
  | AT c =>
      if cty_eqb c p then Some 0%nat
      else match c, p with
           | CBool, CInt => Some 1%nat
           | _, _ => if arith c && arith p then Some 2%nat else None
           end
  | ADouble => if arith p then Some 2%nat else None       (* double -> float is a conversion, not a promotion *)
  end.

Fixpoint ranks (args : list aty) (ps : psig) : option (list nat) :=
  match args, ps with
  | [], [] => Some []
  | a :: r, p :: s => match rank a p, ranks r s with Some x, Some l => Some (x :: l) | _, _ => None end
  | _, _ => None
  end.

Fixpoint all_le (a b : list nat) : bool :=
  match a, b with
  | x :: r, y :: s => (x <=? y)%nat && all_le r s
  | _, _ => true
  end.
Fixpoint some_lt (a b : list nat) : bool :=
  match a, b with
  | x :: r, y :: s => (x <? y)%nat || some_lt r s
  | _, _ => false
  end.
Definition better (a b : list nat) : bool := all_le a b && some_lt a b.

Definition viable (args : list aty) (cands : list psig) : list (psig * list nat) :=
  flat_map (fun c => match ranks args c with Some r => [(c, r)] | None => [] end) cands.

Definition is_best (v : list (psig * list nat)) (cr : psig * list nat) : bool :=
  forallb (fun dr => ctys_eqb (fst cr) (fst dr) || better (snd cr) (snd dr)) v.

(* Some c: the call is well-formed and executes c;  None: no viable function or ambiguous *)
Definition pick (args : list aty) (cands : list psig) : option psig :=
  let v := viable args cands in
  match filter (is_best v) v with
  | [cr] => Some (fst cr)
  | _ => None
  end.

Definition cxx_resolve (sk : sketch) (s : site) (f : ident) (args : list aty) : option psig :=
  pick args (candidates sk s f).

Definition exact_args (ps : psig) : list aty := map AT ps.

(* ---- tie to the parser: the definitions emit() receives ---- *)
Definition params_of (d : fdef) : psig := map snd (fd_params d).
Definition emitted_decls (fe : fenv) : list cdecl :=
  map (fun nd => (fst nd, params_of (snd nd))) (selected_functions fe).

Definition opsig_eqb (a : option psig) (b : psig) : bool :=
  match a with Some x => ctys_eqb x b | None => false end.

(* the variant the parser means for a call of f written with argument labels sg: the definition stored under the
   signature the alias table resolves sg to.  The guard (evaluated once, at no particular place): that definition exists and
   either its parameter types ARE the argument types (no conversion at all), or C++ overload resolution among all
   emitted variants of f converts the arguments to exactly that variant *)
Definition meant_variant (fe : fenv) (f : ident) (sg : list ty) : option fdef :=
  sig_lookup (resolve_alias (fe_alias fe) f sg) (get_or [] (tlookup f (fe_defs fe))).

Definition is_emitted (fe : fenv) (f : ident) (ps : psig) : bool := mem_sig ps (named f (emitted_decls fe)).

Definition call_guard (fe : fenv) (f : ident) (sg : list ty) : bool :=
  match meant_variant fe f sg with
  | Some d =>
      is_emitted fe f (params_of d) &&
      (ctys_eqb (map cpp_type sg) (params_of d)
       || opsig_eqb (cxx_resolve (emit_sketch (emitted_decls fe)) InMain f (exact_args (map cpp_type sg))) (params_of d))
  | None => false
  end.

(* ---- the demo programs ----
   def sc(x): return tw(x) + 1         <- emitted ABOVE the helper it calls
   def tw(v): return v * 2
   x = 1.5 ; w = sc(x) *)
Definition n_sc : ident := [115;99].
Definition n_tw : ident := [116;119].
Definition i_x : ident := [120].
Definition i_v : ident := [118].
Definition i_w : ident := [119].
Definition fwd_overload_prog : list item :=
  [IDef n_sc (mk_fsrc [(i_x, None)] None
     (block_of [SReturn (Some (EBin Add (ECall n_tw [EName i_x] []) (EInt 1)))]));
   IDef n_tw (mk_fsrc [(i_v, None)] None (block_of [SReturn (Some (EBin Mult (EName i_v) (EInt 2)))]));
   IStmt (SAssign i_x (EFloat (3 # 2)));
   IStmt (SAssign i_w (ECall n_sc [EName i_x] []))].

(* def sc(x): return tw(x) + 1 ; def tw(v): return v * 0.5 ; w = sc(3)
   the variant sc(int) was typed when tw had no source yet: its result is labelled int *)
Definition fwd_stale_prog : list item :=
  [IDef n_sc (mk_fsrc [(i_x, None)] None
     (block_of [SReturn (Some (EBin Add (ECall n_tw [EName i_x] []) (EInt 1)))]));
   IDef n_tw (mk_fsrc [(i_v, None)] None (block_of [SReturn (Some (EBin Mult (EName i_v) (EFloat (1 # 2))))]));
   IStmt (SAssign i_w (ECall n_sc [EInt 3] []))].
