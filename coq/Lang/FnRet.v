(* C01, helper functions: the C return type of a helper and the value a call yields.

   parser.py: every `return e` inside a `def` appends the label _infer_expr_type gives e to
   fn_meta["return_types"] (in line order, nested blocks included); _parse_function emits the
   function with return type _cpp_type(_merge_return_types(return_types, has_void)).  The C++
   function converts the value of the executed return statement to that declared type; CPython
   returns the object itself.  [merge_ret] is _merge_return_types, [fexec] runs a body made of
   opaque statements, returns, ifs and loops; the Python side and the C side differ only in the
   conversion applied to the returned value ([retconv]).

   has_void: fn_meta is created with "has_void": False and the bare-return branch only does
   fn_meta.setdefault("has_void", True), which leaves it False - so the parser always calls
   _merge_return_types(types, False); [ret_type] models that.  [merge_ret] itself follows the
   function for both values of the flag (it is compared with the real function on both). *)
From Coq Require Import ZArith QArith List Bool.
From RV Require Import Base.Wire Base.Text Lang.StmtAst Lang.StmtSem.
Import ListNotations.
Open Scope Z_scope.

Inductive rty := RVoid | RTy (t : ty) | RReject.

Definition has_label (t : ty) (l : list ty) : bool := existsb (ty_eqb t) l.
Definition all_label (t : ty) (l : list ty) : bool := forallb (ty_eqb t) l.

Definition merge_ret (types : list ty) (has_void : bool) : rty :=
  match types with
  | [] => RVoid
  | _ =>
    if has_void then RReject
    else if has_label TyString types
         then (if all_label TyString types then RTy TyString else RReject)
    else if has_label TyFloat types then RTy TyFloat
    else if all_label TyBool types then RTy TyBool
    else RTy TyInt
  end.

(* ---- helper bodies ---- *)
Inductive fstmt : Type :=
| FDo (id : Z)                                   (* any statement that is not a return (opaque) *)
| FRet (e : ann)                                 (* return e *)
| FRetVoid                                       (* return *)
| FIf (c : ann) (th el : list fstmt)
| FWhile (c : ann) (body : list fstmt).

(* the return expressions in line order *)
Fixpoint ret_anns (s : fstmt) : list ann :=
  let fix go (l : list fstmt) : list ann := match l with [] => [] | x :: r => ret_anns x ++ go r end in
  match s with
  | FRet e => [e]
  | FIf _ a b => go a ++ go b
  | FWhile _ b => go b
  | _ => []
  end.
Definition body_rets (b : list fstmt) : list ann := flat_map ret_anns b.
Definition ret_type (b : list fstmt) : rty := merge_ret (map a_ty (body_rets b)) false.

(* how a body ends *)
Inductive fres := FFall | FVoid | FVal (v : val).

Section FnSem.
  Variable St : Type.
  Variable esem : Z -> St -> option val.              (* value of expression id in a state *)
  Variable dosem : Z -> St -> option (St * list ev).  (* effect of opaque statement id *)
  Variable retconv : val -> val.                      (* identity in Python, conversion to the declared type in C++ *)

  Fixpoint fexec (fuel : nat) (st : St) (b : list fstmt) {struct fuel} : option (St * list ev * fres) :=
    match fuel with
    | O => None
    | S f =>
      match b with
      | [] => Some (st, [], FFall)
      | s :: rest =>
        let continue_with := fun (r : option (St * list ev * fres)) =>
          match r with
          | Some (st1, e1, FFall) =>
              match fexec f st1 rest with
              | Some (st2, e2, o) => Some (st2, e1 ++ e2, o) | None => None end
          | other => other
          end in
        match s with
        | FDo id => continue_with (match dosem id st with Some (st1, e1) => Some (st1, e1, FFall) | None => None end)
        | FRet e => match esem (a_id e) st with Some v => Some (st, [], FVal (retconv v)) | None => None end
        | FRetVoid => Some (st, [], FVoid)
        | FIf c th el =>
            continue_with (match esem (a_id c) st with
                           | Some v => fexec f st (if truthy v then th else el)
                           | None => None end)
        | FWhile c body =>
            match esem (a_id c) st with
            | None => None
            | Some v =>
                if truthy v then
                  continue_with (match fexec f st body with
                                 | Some (st1, e1, FFall) =>
                                     match fexec f st1 [FWhile c body] with
                                     | Some (st2, e2, o) => Some (st2, e1 ++ e2, o) | None => None end
                                 | other => other end)
                else fexec f st rest
            end
        end
      end
    end.

  (* a call used as a value: the body must end in `return e` *)
  Definition fcall (fuel : nat) (st : St) (b : list fstmt) : option (St * list ev * val) :=
    match fexec fuel st b with
    | Some (st1, e1, FVal v) => Some (st1, e1, v)
    | _ => None
    end.
End FnSem.

Definition pcall {St} esem dosem := @fcall St esem dosem (fun v => v).
Definition ccall {St} esem dosem (rt : ty) := @fcall St esem dosem (conv rt).

(* ---- what "the same value" means ---- *)
Definition val_q (v : val) : Q :=
  match v with VI z => inject_Z z | VF q => q | VB b => if b then 1 else 0 | VS _ => 0 end.
Definition is_str (v : val) : bool := match v with VS _ => true | _ => false end.
(* the same number (True is 1, 3 is 3.0), or the same text *)
Definition same_number (a b : val) : Prop :=
  match a, b with
  | VS s, VS t => s = t
  | VS _, _ | _, VS _ => False
  | _, _ => Qeq (val_q a) (val_q b)
  end.
(* the serial line at value level (DESIGN C01: bool = 1/0, floats to their decimals): int-like values print as
   integers, floats as decimals *)
Inductive vkind := KIntLike | KFloat | KStr.
Definition kind_of (v : val) : vkind := match v with VI _ | VB _ => KIntLike | VF _ => KFloat | VS _ => KStr end.
Definition kind_of_ty (t : ty) : vkind := match t with TyInt | TyBool => KIntLike | TyFloat => KFloat | TyString => KStr end.
Definition vkind_eqb (a b : vkind) : bool :=
  match a, b with KIntLike, KIntLike | KFloat, KFloat | KStr, KStr => true | _, _ => false end.
Definition same_serial (a b : val) : Prop := same_number a b /\ kind_of a = kind_of b.

(* guard of the partial theorem: the return statements of the helper have one kind *)
Definition uniform_kind (ls : list ty) : bool :=
  match ls with [] => true | t :: r => forallb (fun u => vkind_eqb (kind_of_ty u) (kind_of_ty t)) r end.

(* bool <= int <= float; a string only as a string *)
Definition widens (l rt : ty) : bool :=
  match l, rt with
  | TyBool, (TyBool | TyInt | TyFloat) | TyInt, (TyInt | TyFloat) | TyFloat, TyFloat | TyString, TyString => true
  | _, _ => false
  end.

(* every return expression has the type its label says (the interface to the expression layer, as
   SemFacts.sem_facts for the statement layer) *)
Definition ret_facts {St} (esem : Z -> St -> option val) (b : list fstmt) : Prop :=
  forall e st v, In e (body_rets b) -> esem (a_id e) st = Some v -> has_ty (a_ty e) v = true.

(* ---- witnesses ---- *)
Definition mk_ann (id : Z) (t : ty) : ann := {| a_id := id; a_ty := t; a_const := false; a_fv := [] |}.
(* def credit(amount): if amount < 0: return False ; return amount + 10      (expressions: 0 = the test, 1 = False, 2 = amount + 10) *)
Definition credit_body : list fstmt := [FIf (mk_ann 0 TyBool) [FRet (mk_ann 1 TyBool)] []; FRet (mk_ann 2 TyInt)].
Definition credit_sem (id : Z) (amount : Z) : option val :=
  match id with 0 => Some (VB (amount <? 0)) | 1 => Some (VB false) | 2 => Some (VI (amount + 10)) | _ => None end.
(* def h(a): if a > 2: return a * 0.5 ; return a *)
Definition mixed_body : list fstmt := [FIf (mk_ann 0 TyBool) [FRet (mk_ann 1 TyFloat)] []; FRet (mk_ann 2 TyInt)].
Definition mixed_sem (id : Z) (a : Z) : option val :=
  match id with 0 => Some (VB (2 <? a)) | 1 => Some (VF (inject_Z a * (1 # 2))) | 2 => Some (VI a) | _ => None end.
Definition no_do (id : Z) (a : Z) : option (Z * list ev) := Some (a, []).
