(* C06 - which specialisations of the user functions reach the sketch (end of parse(),
   transpile/parser.py: "selected_functions"), and the C++ parameter lists they get (_cpp_type,
   emitter: "function_sections").

     for name, variants in defs_map.items():                 # dict: insertion order, names distinct
         keep = []
         used_signatures = call_signatures.get(name, [])
         if used_signatures:
             for sig in used_signatures:
                 canonical = signature_aliases.get(name, {}).get(sig, sig)
                 if canonical in variants and canonical not in keep:
                     keep.append(canonical)
         else:
             canonical = primary_signatures.get(name)
             if canonical is not None and canonical in variants: keep.append(canonical)
             elif variants:                                     keep.append(next(iter(variants.keys())))
         for sig in keep: selected_functions.append(variants[sig])

   A signature is the tuple of type labels of the arguments of one call ("int", "float", "bool",
   "String", "void", "list[...]"); an ALIAS sends a requested signature to the signature the variant
   finally got when the body re-binds a parameter to a value of another type (x = x / 2.0).  Several
   requested signatures may therefore resolve to ONE variant; C++ forbids defining it twice.
   No proofs here. *)
From Coq Require Import ZArith List Bool.
Import ListNotations.
Open Scope Z_scope.

(* type labels; LOther stands for any string outside _cpp_type's table *)
Inductive lbl : Type :=
| LInt | LFloat | LBool | LString | LVoid
| LList (e : lbl)
| LOther (code : Z).

Fixpoint lbl_eqb (a b : lbl) : bool :=
  match a, b with
  | LInt, LInt | LFloat, LFloat | LBool, LBool | LString, LString | LVoid, LVoid => true
  | LList x, LList y => lbl_eqb x y
  | LOther x, LOther y => x =? y
  | _, _ => false
  end.

Definition sig : Type := list lbl.

Fixpoint sig_eqb (a b : sig) : bool :=
  match a, b with
  | [], [] => true
  | x :: r, y :: s => lbl_eqb x y && sig_eqb r s
  | _, _ => false
  end.

Fixpoint mems (s : sig) (l : list sig) : bool :=
  match l with [] => false | t :: r => sig_eqb s t || mems s r end.

(* dict.get(sig, sig) on the alias table of one function *)
Fixpoint resolve (al : list (sig * sig)) (s : sig) : sig :=
  match al with
  | [] => s
  | (a, c) :: r => if sig_eqb a s then c else resolve r s
  end.

Record fentry : Type := {
  fe_variants : list sig;          (* keys of defs_map[name], insertion order *)
  fe_used : list sig;              (* call_signatures[name], order of first occurrence *)
  fe_aliases : list (sig * sig);   (* signature_aliases[name] *)
  fe_primary : option sig          (* primary_signatures.get(name) *)
}.

Fixpoint keep_used (al : list (sig * sig)) (variants used keep : list sig) : list sig :=
  match used with
  | [] => keep
  | s :: r =>
      let c := resolve al s in
      if mems c variants && negb (mems c keep)
      then keep_used al variants r (keep ++ [c])
      else keep_used al variants r keep
  end.

Definition select_one (fe : fentry) : list sig :=
  match fe_used fe with
  | [] =>
      match fe_primary fe with
      | Some c => if mems c (fe_variants fe) then [c]
                  else match fe_variants fe with [] => [] | f :: _ => [f] end
      | None => match fe_variants fe with [] => [] | f :: _ => [f] end
      end
  | _ => keep_used (fe_aliases fe) (fe_variants fe) (fe_used fe) []
  end.

(* the whole loop: (function name, signature) of every emitted definition, in emission order *)
Definition select (fs : list (Z * fentry)) : list (Z * sig) :=
  flat_map (fun nf => map (pair (fst nf)) (select_one (snd nf))) fs.

(* ---- C++ parameter types (_cpp_type) ---- *)
Inductive cty : Type := CInt | CFloat | CBool | CString | CVoid | CList (e : cty).

Fixpoint cpp_type (l : lbl) : cty :=
  match l with
  | LInt => CInt | LFloat => CFloat | LBool => CBool | LString => CString | LVoid => CVoid
  | LList e => CList (cpp_type e)
  | LOther _ => CInt                        (* mapping.get(py_type, "int") *)
  end.

Fixpoint known (l : lbl) : bool :=
  match l with LOther _ => false | LList e => known e | _ => true end.

Definition cpp_sig (s : sig) : list cty := map cpp_type s.

(* what the C++ compiler sees of a definition: its name and parameter type list *)
Definition cpp_defs (fs : list (Z * fentry)) : list (Z * list cty) :=
  map (fun ns => (fst ns, cpp_sig (snd ns))) (select fs).

Fixpoint cty_eqb (a b : cty) : bool :=
  match a, b with
  | CInt, CInt | CFloat, CFloat | CBool, CBool | CString, CString | CVoid, CVoid => true
  | CList x, CList y => cty_eqb x y
  | _, _ => false
  end.

Fixpoint ctys_eqb (a b : list cty) : bool :=
  match a, b with
  | [], [] => true
  | x :: r, y :: s => cty_eqb x y && ctys_eqb r s
  | _, _ => false
  end.

Fixpoint mem_def (n : Z) (t : list cty) (l : list (Z * list cty)) : bool :=
  match l with [] => false | (m, u) :: r => ((n =? m) && ctys_eqb t u) || mem_def n t r end.

(* executable: no function is defined twice with one parameter type list *)
Fixpoint no_redefinition (l : list (Z * list cty)) : bool :=
  match l with
  | [] => true
  | (n, t) :: r => negb (mem_def n t r) && no_redefinition r
  end.

(* ---- the class of regressions that drops the "not in keep" test ---- *)
Fixpoint keep_used_nodedup (al : list (sig * sig)) (variants used : list sig) : list sig :=
  match used with
  | [] => []
  | s :: r =>
      let c := resolve al s in
      if mems c variants then c :: keep_used_nodedup al variants r else keep_used_nodedup al variants r
  end.

(* def half(x): x = x / 2.0 ; return x      called as half(3) and half(2.5) *)
Definition half_entry : fentry :=
  {| fe_variants := [[LFloat]];
     fe_used := [[LInt]; [LFloat]];
     fe_aliases := [([LInt], [LFloat])];
     fe_primary := Some [LFloat] |}.

(* def twice(x): return x + x               called as twice(3) and twice("ab"): two real overloads *)
Definition twice_entry : fentry :=
  {| fe_variants := [[LInt]; [LString]];
     fe_used := [[LInt]; [LString]];
     fe_aliases := [];
     fe_primary := Some [LInt] |}.

(* never called: the primary variant is emitted *)
Definition unused_entry : fentry :=
  {| fe_variants := [[LInt; LInt]]; fe_used := []; fe_aliases := []; fe_primary := Some [LInt; LInt] |}.

Definition demo_fns : list (Z * fentry) := [(1, half_entry); (2, twice_entry); (3, unused_entry)].
