(* Specification side of the function / hoisting theorems of C02: function bodies made of (guarded)
   return statements, the typing environment of a function variant, and the witness programs of the
   refutations (stale promotion table, parameter declared from its last label). *)
From Coq Require Import ZArith QArith List Bool.
From RV Require Import Base.Wire Base.Text Lang.PyAst Lang.PySem Lang.Infer Lang.InferGuard Lang.InferSpec Lang.Decl.
Import ListNotations.
Open Scope Z_scope.

(* ---- bodies of the shape   [if c: return e | return e]*   (conditions have no typing effect) ---- *)
Definition ret_stmt (ge : bool * pexpr) : stmt :=
  if fst ge then SIf (BrCons (BCons (SReturn (Some (snd ge))) BNil) BrNil) ONone
  else SReturn (Some (snd ge)).
Definition ret_body (l : list (bool * pexpr)) : block := block_of (map ret_stmt l).

(* var_types inside the variant of a function parsed for call signature sg *)
Definition fn_tenv (cur : dctx) (params : list (ident * option text)) (sg : list ty) : tenv :=
  fold_left (fun G pl => tset G (fst (fst pl)) (snd pl)) (combine params sg) (d_types cur).

(* the functions table the body is typed with (the function's own entry exists, possibly empty) *)
Definition fn_table (fe : fenv) (name : ident) : ftable :=
  match tlookup name (fe_F fe) with Some _ => fe_F fe | None => aset (fe_F fe) name (FVariants []) end.

(* every return expression is inside the expression guard and has a scalar label *)
Definition ret_guard (F : ftable) (A : aliases) (C : option ictx) (G : tenv) (l : list (bool * pexpr)) : bool :=
  forallb (fun ge => guard F A C G (snd ge) && scalar (ety F A C G (snd ge))) l.

(* ---- names ---- *)
Definition z_p : ident := [112].
Definition z_q : ident := [113].
Definition z_k : ident := [107].
Definition z_f : ident := [102].
Definition z_g : ident := [103].
Definition z_a : ident := [97].
Definition z_b : ident := [98].
Definition z_x : ident := [120].
Definition z_out : ident := [111;117;116].
Definition z_mode : ident := [109;111;100;101].
Definition z_gain : ident := [103;97;105;110].
Definition z_count : ident := [99;111;117;110;116].
Definition z_limit : ident := [108;105;109;105;116].

Definition if_else (b1 b2 : list stmt) : stmt := SIf (BrCons (block_of b1) BrNil) (OSome (block_of b2)).

(* mode = 2
   if mode > 1: gain = 1.5  else: gain = 0.5          <- creates the shared promotion table
   def f(p): if p > 1: out = 1  else: out = 2 ; return out
   def g(p): k = 0 ; while k < 2: out = p * 0.5 ; k = k + 1 ; return out
   a = f(3) ; b = g(3) *)
Definition stale_prog : list item :=
  [IStmt (SAssign z_mode (EInt 2));
   IStmt (if_else [SAssign z_gain (EFloat (3 # 2))] [SAssign z_gain (EFloat (1 # 2))]);
   IDef z_f (mk_fsrc [(z_p, None)] None
     (block_of [if_else [SAssign z_out (EInt 1)] [SAssign z_out (EInt 2)]; SReturn (Some (EName z_out))]));
   IDef z_g (mk_fsrc [(z_p, None)] None
     (block_of [SAssign z_k (EInt 0);
                SWhile (block_of [SAssign z_out (EBin Mult (EName z_p) (EFloat (1 # 2)));
                                  SAssign z_k (EBin Add (EName z_k) (EInt 1))]);
                SReturn (Some (EName z_out))]));
   IStmt (SAssign z_a (ECall z_f [EInt 3] []));
   IStmt (SAssign z_b (ECall z_g [EInt 3] []))].

(* the same program without the top-level hoist: no shared table, g's local is typed from var_types *)
Definition fresh_prog : list item := tl (tl stale_prog).

(* def f(p): q = p * 2 ; p = 1 ; return q
   x = 2.5 ; a = f(x) *)
Definition relabel_prog : list item :=
  [IDef z_f (mk_fsrc [(z_p, None)] None
     (block_of [SAssign z_q (EBin Mult (EName z_p) (EInt 2)); SAssign z_p (EInt 1); SReturn (Some (EName z_q))]));
   IStmt (SAssign z_x (EFloat (5 # 2)));
   IStmt (SAssign z_a (ECall z_f [EName z_x] []))].

(* def debounce(count, limit): if count < 0: return False ; if count >= limit: return True ; return count + 1 *)
Definition debounce_rets : list (bool * pexpr) :=
  [(true, EBool false); (true, EBool true); (false, EBin Add (EName z_count) (EInt 1))].
Definition debounce_params : list (ident * option text) := [(z_count, None); (z_limit, None)].
