(* Constant-tracked list objects across parse() calls of one process.

   _eval_const folds a list display to a Python list OBJECT; the assignment handler stores that object in the per-parse
   dictionary of constants; the .append() / .remove() bookkeeping mutates it in place; len(name) and flash_pattern(name)
   read it.  Inside one parse() this is the store of Lang/ConstEnv.v.  This file adds what ConstEnv.v leaves implicit: the
   PROCESS - a sequence of parse() calls over whatever module-level objects the transpiler keeps - and one parameter,
   [memo]: does the evaluator hand out the object of an earlier fold of the same source text (a module-level memo of folded
   values keyed by source text) or a new object per evaluation (what the code does).  No proofs in this file. *)
From Coq Require Import ZArith List Bool.
From RV Require Import Base.Wire Base.Text Gen.SetSites.
Import ListNotations.
Open Scope Z_scope.

Definition ident := text.
Definition tmem (x : ident) (l : list ident) : bool := existsb (text_eqb x) l.

Inductive fstmt :=
| FAssign (x : ident) (lit : list Z)     (* x = [1, 0, 1]        a name-free list display *)
| FAppend (x : ident) (v : Z)            (* x.append(v) *)
| FRemove (x : ident) (v : Z)            (* x.remove(v) *)
| FLen (x : ident)                       (* n = len(x)           folded to a number in the firmware *)
| FFlash (x : ident).                    (* led.flash_pattern(x) the tracked contents become the firmware's array *)

Inductive fout := OLenIs (n : Z) | OPattern (l : list Z) | ORuntime.     (* ORuntime: not folded, left to the firmware *)

(* module-level objects: a heap of list objects and the memo (source text of the display -> object); the text of a
   name-free display is determined by its items, so the items are the key *)
Record mstore := mk_ms { ms_heap : list (list Z); ms_memo : list (list Z * nat) }.
Definition ms_empty : mstore := mk_ms [] [].

Fixpoint list_eqb (a b : list Z) : bool :=
  match a, b with
  | [], [] => true
  | x :: a', y :: b' => (x =? y) && list_eqb a' b'
  | _, _ => false
  end.

Fixpoint memo_find (k : list Z) (m : list (list Z * nat)) : option nat :=
  match m with
  | [] => None
  | (k', l) :: r => if list_eqb k k' then Some l else memo_find k r
  end.

Fixpoint set_nth (n : nat) (a : list Z) (l : list (list Z)) : list (list Z) :=
  match n, l with
  | O, _ :: r => a :: r
  | S k, x :: r => x :: set_nth k a r
  | _, [] => []
  end.

Fixpoint remove_first (v : Z) (l : list Z) : list Z :=
  match l with
  | [] => []
  | x :: r => if x =? v then r else x :: remove_first v r
  end.

(* where a name's list lives: in the per-parse heap (a new object) or in the module-level heap (the memo's object) *)
Inductive loc := Local (n : nat) | Shared (n : nat).

Record pstate := mk_ps { ps_env : list (ident * loc); ps_heap : list (list Z); ps_ms : mstore }.

Fixpoint env_find (x : ident) (e : list (ident * loc)) : option loc :=
  match e with
  | [] => None
  | (y, l) :: r => if text_eqb x y then Some l else env_find x r
  end.

Definition read (s : pstate) (l : loc) : list Z :=
  match l with Local n => nth n (ps_heap s) [] | Shared n => nth n (ms_heap (ps_ms s)) [] end.

Definition write (s : pstate) (l : loc) (v : list Z) : pstate :=
  match l with
  | Local n => mk_ps (ps_env s) (set_nth n v (ps_heap s)) (ps_ms s)
  | Shared n => mk_ps (ps_env s) (ps_heap s) (mk_ms (set_nth n v (ms_heap (ps_ms s))) (ms_memo (ps_ms s)))
  end.

Definition fstep (memo : bool) (s : pstate) (st : fstmt) : pstate * list fout :=
  match st with
  | FAssign x lit =>
      if memo then
        match memo_find lit (ms_memo (ps_ms s)) with
        | Some n => (mk_ps ((x, Shared n) :: ps_env s) (ps_heap s) (ps_ms s), [])
        | None =>
            let n := length (ms_heap (ps_ms s)) in
            (mk_ps ((x, Shared n) :: ps_env s) (ps_heap s)
                   (mk_ms (ms_heap (ps_ms s) ++ [lit]) ((lit, n) :: ms_memo (ps_ms s))), [])
        end
      else (mk_ps ((x, Local (length (ps_heap s))) :: ps_env s) (ps_heap s ++ [lit]) (ps_ms s), [])
  | FAppend x v =>
      match env_find x (ps_env s) with
      | Some l => (write s l (read s l ++ [v]), [])
      | None => (s, [])
      end
  | FRemove x v =>
      match env_find x (ps_env s) with
      | Some l => (write s l (remove_first v (read s l)), [])
      | None => (s, [])
      end
  | FLen x =>
      match env_find x (ps_env s) with
      | Some l => (s, [OLenIs (Z.of_nat (length (read s l)))])
      | None => (s, [ORuntime])
      end
  | FFlash x =>
      match env_find x (ps_env s) with
      | Some l => (s, [OPattern (read s l)])
      | None => (s, [ORuntime])
      end
  end.

Fixpoint frun (memo : bool) (s : pstate) (p : list fstmt) : pstate * list fout :=
  match p with
  | [] => (s, [])
  | st :: q => let (s1, o1) := fstep memo s st in let (s2, o2) := frun memo s1 q in (s2, o1 ++ o2)
  end.

(* one parse()+emit() in a process whose module-level objects hold [ms]: the dictionary and the per-parse heap start empty *)
Definition parse1 (memo : bool) (ms : mstore) (p : list fstmt) : list fout * mstore :=
  let (s, o) := frun memo (mk_ps [] [] ms) p in (o, ps_ms s).

(* a sequence of parse()+emit() calls in one process *)
Fixpoint fsession (memo : bool) (ms : mstore) (ps : list (list fstmt)) : list (list fout) :=
  match ps with
  | [] => []
  | p :: r => let (o, ms') := parse1 memo ms p in o :: fsession memo ms' r
  end.

(* what a script means on its own: transpiled in a new process *)
Definition alone (p : list fstmt) : list fout := fst (parse1 false ms_empty p).

(* ---- the tie to the current source: a memo needs a module-level object that some function of the transpiler mutates
   (or hands out); the inventory of harness/gen/setsites.py lists every such object *)
(* the verification hook's own log "_VERIF_IGNORED" (written only under REDUINO_VERIF=1, never read by the transpiler) *)
Definition hook_log : text := [95; 86; 69; 82; 73; 70; 95; 73; 71; 78; 79; 82; 69; 68].
Definition leaky_state (m : mstate) : bool := m_mutated m && negb (text_eqb (m_name m) hook_log).
Definition leaky_use (u : muse) : bool := negb (u_class u =? 0) && negb (text_eqb (u_name u) hook_log).
Definition memo_possible : bool := existsb leaky_state module_state || existsb leaky_use module_uses.

(* witness scripts of the refutation *)
Definition n_steps : ident := [115; 116; 101; 112; 115].
Definition leak_A : list fstmt := [FAssign n_steps [1; 0; 1]; FAppend n_steps 0; FAppend n_steps 1; FLen n_steps; FFlash n_steps].
Definition leak_B : list fstmt := [FAssign n_steps [1; 0; 1]; FLen n_steps; FFlash n_steps].
