(* C06 - file-scope definitions: emit() collects the global lines of all device declarations in one list and
   adds a line only when the very same TEXT is not there yet (emitter.py: `if line not in globals_`).
   A line is  <type> <name> = <initialiser>;  - the type is fixed by the role of the name, so a line is modelled
   as (name, initialiser).  Two declarations of one device name with different constructor arguments
   (Servo limits, Buzzer default frequency) give two lines for one name.  Model file, no proofs. *)
From Coq Require Import ZArith List Bool.
Import ListNotations.
Open Scope Z_scope.

Definition gline := (Z * Z)%type.

Definition same_line (a b : gline) : bool := (fst a =? fst b) && (snd a =? snd b).

Definition add_line (g : list gline) (l : gline) : list gline :=
  if existsb (same_line l) g then g else g ++ [l].

Definition globals (ls : list gline) : list gline := fold_left add_line ls [].

(* guard: whenever the emitter offers two lines for one name they have the same initialiser *)
Definition consistent (ls : list gline) : bool :=
  forallb (fun a => forallb (fun b => negb (fst a =? fst b) || (snd a =? snd b)) ls) ls.

(* arm = Servo(9) ; arm = Servo(10, min_angle=10):  float __servo_min_angle_arm = ...(0) and ...(10) *)
Definition rebound_servo : list gline := [(1, 0); (2, 180); (1, 10); (2, 180)].
