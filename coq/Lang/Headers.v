(* C06 - which library headers the emitter includes, and which library objects it instantiates
   (emit(), transpile/emitter.py: _ensure_servo_globals, _ensure_lcd_globals, the two collection
   passes over setup_body / loop_body, and the header part of "Stitch sections").

   The emitter walks the top-level device declarations of setup_body, then those of loop_body
   (the kinds it hoists from the head of the main loop).  Three flags decide the includes:

     ServoDecl            -> servo_used := True;  global  Servo __servo_<name>;          (once per name)
     LCDDecl, name known  -> nothing (the FIRST declaration of a name wins, whatever its interface)
     LCDDecl i2c          -> lcd_i2c_used := True;       global  LiquidCrystal_I2C __redu_lcd_<name>(...);
     LCDDecl parallel     -> lcd_parallel_used := True;  global  LiquidCrystal __redu_lcd_<name>(...);

     parts = [HEADER]                                  (#include <Arduino.h>)
     if servo_used:        #include <Servo.h>
     if lcd_parallel_used: #include <LiquidCrystal.h>
     if lcd_i2c_used:      #include <Wire.h>  #include <LiquidCrystal_I2C.h>

   The three tests are INDEPENDENT ifs.  No proofs here. *)
From Coq Require Import ZArith List Bool.
Import ListNotations.
Open Scope Z_scope.

Inductive lib : Type := LServo | LLcdPar | LLcdI2C.
Inductive hdr : Type := HArduino | HServo | HLiquidCrystal | HWire | HLiquidCrystalI2C.

Definition lib_eqb (a b : lib) : bool :=
  match a, b with LServo, LServo | LLcdPar, LLcdPar | LLcdI2C, LLcdI2C => true | _, _ => false end.

Definition hdr_eqb (a b : hdr) : bool :=
  match a, b with
  | HArduino, HArduino | HServo, HServo | HLiquidCrystal, HLiquidCrystal | HWire, HWire
  | HLiquidCrystalI2C, HLiquidCrystalI2C => true
  | _, _ => false
  end.

(* a top-level device declaration: its Python name, and its library class (None for the kinds
   that need no library: Led, RGBLed, Buzzer, DCMotor, Button, Potentiometer, Ultrasonic, Serial) *)
Definition decl : Type := (Z * option lib)%type.

Record hstate : Type := {
  h_servo : bool;
  h_par : bool;
  h_i2c : bool;
  h_lcd_names : list Z;              (* keys of lcd_state *)
  h_objs : list (Z * lib)            (* library objects among the globals, in order of creation *)
}.

Definition h0 : hstate := {| h_servo := false; h_par := false; h_i2c := false; h_lcd_names := []; h_objs := [] |}.

Fixpoint memz (a : Z) (l : list Z) : bool :=
  match l with [] => false | b :: r => (a =? b) || memz a r end.

Fixpoint mem_obj (n : Z) (k : lib) (l : list (Z * lib)) : bool :=
  match l with [] => false | (m, j) :: r => ((n =? m) && lib_eqb k j) || mem_obj n k r end.

Definition hstep (st : hstate) (d : decl) : hstate :=
  match d with
  | (_, None) => st
  | (n, Some LServo) =>
      {| h_servo := true; h_par := h_par st; h_i2c := h_i2c st; h_lcd_names := h_lcd_names st;
         h_objs := if mem_obj n LServo (h_objs st) then h_objs st else h_objs st ++ [(n, LServo)] |}
  | (n, Some LLcdPar) =>
      if memz n (h_lcd_names st) then st else
      {| h_servo := h_servo st; h_par := true; h_i2c := h_i2c st; h_lcd_names := h_lcd_names st ++ [n];
         h_objs := h_objs st ++ [(n, LLcdPar)] |}
  | (n, Some LLcdI2C) =>
      if memz n (h_lcd_names st) then st else
      {| h_servo := h_servo st; h_par := h_par st; h_i2c := true; h_lcd_names := h_lcd_names st ++ [n];
         h_objs := h_objs st ++ [(n, LLcdI2C)] |}
  end.

Definition hrun (ds : list decl) : hstate := fold_left hstep ds h0.

(* the header part of the stitching *)
Definition includes_of (st : hstate) : list hdr :=
  [HArduino] ++ (if h_servo st then [HServo] else []) ++
  (if h_par st then [HLiquidCrystal] else []) ++
  (if h_i2c st then [HWire; HLiquidCrystalI2C] else []).

Definition includes (ds : list decl) : list hdr := includes_of (hrun ds).
Definition objects (ds : list decl) : list (Z * lib) := h_objs (hrun ds).

(* what a sketch that instantiates class k must have included *)
Definition needs (k : lib) : list hdr :=
  match k with
  | LServo => [HServo]
  | LLcdPar => [HLiquidCrystal]
  | LLcdI2C => [HWire; HLiquidCrystalI2C]
  end.

Fixpoint mem_hdr (h : hdr) (l : list hdr) : bool :=
  match l with [] => false | g :: r => hdr_eqb h g || mem_hdr h r end.

(* executable form of the property clause *)
Definition headers_ok (incs : list hdr) (objs : list (Z * lib)) : bool :=
  forallb (fun o => forallb (fun h => mem_hdr h incs) (needs (snd o))) objs.

(* the class of regressions in which one library include is made to depend on the absence of
   another (if ... elif ...): kept as a definition so that its failure is a theorem *)
Definition includes_elif (st : hstate) : list hdr :=
  [HArduino] ++ (if h_servo st then [HServo] else []) ++
  (if h_par st then [HLiquidCrystal] else if h_i2c st then [HWire; HLiquidCrystalI2C] else []).

Definition both_lcds : list decl := [(1, Some LLcdPar); (2, Some LLcdI2C)].
Definition all_libs : list decl := [(3, Some LLcdI2C); (4, None); (1, Some LLcdPar); (5, Some LServo); (3, Some LLcdPar); (5, Some LServo)].
