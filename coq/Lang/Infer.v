(* Model of the type-label layer of transpile/parser.py (property C02):
   _infer_expr_type (line by line, INCLUDING its side effect on var_types),
   _cpp_type, _default_value_for_type, _merge_return_types, _merge_element_types,
   _annotation_to_type_label.  Faithful to the code including its defects.
   Labels are the strings "int" "float" "bool" "String" "void" "list[<label>]";
   any other string is [TOther s] (the harness codec guarantees canonical form:
   [TOther s] is never one of the known spellings nor of the shape list[...]). *)
From Coq Require Import ZArith List Bool.
From RV Require Import Base.Wire Base.Text Lang.PyAst Gen.InferTables.
Import ListNotations.
Open Scope Z_scope.

Inductive ty : Type :=
| TInt | TFloat | TBool | TString | TList (t : ty) | TVoid | TOther (s : text).

Fixpoint ty_eqb (a b : ty) : bool :=
  match a, b with
  | TInt, TInt | TFloat, TFloat | TBool, TBool | TString, TString | TVoid, TVoid => true
  | TList x, TList y => ty_eqb x y
  | TOther s, TOther t => text_eqb s t
  | _, _ => false
  end.

Definition is_list_ty (t : ty) : bool := match t with TList _ => true | _ => false end.
Definition is_string_ty (t : ty) : bool := match t with TString => true | _ => false end.
(* _list_element_type: "int" for a non-list label *)
Definition list_elem (t : ty) : ty := match t with TList e => e | _ => TInt end.

(* label spellings *)
Definition l_int : text := [105;110;116].
Definition l_float : text := [102;108;111;97;116].
Definition l_bool : text := [98;111;111;108].
Definition l_String : text := [83;116;114;105;110;103].
Definition l_void : text := [118;111;105;100].

(* a scalar label spelling -> label (used for the generated tables only) *)
Definition ty_of_simple_label (s : text) : ty :=
  if text_eqb s l_int then TInt else if text_eqb s l_float then TFloat
  else if text_eqb s l_bool then TBool else if text_eqb s l_String then TString
  else if text_eqb s l_void then TVoid else TOther s.

Fixpoint label_text (t : ty) : text :=
  match t with
  | TInt => l_int | TFloat => l_float | TBool => l_bool | TString => l_String | TVoid => l_void
  | TList e => [108;105;115;116;91] ++ label_text e ++ [93]
  | TOther s => s
  end.

(* ---- var_types : a Python dict name -> label; missing names read as "int" ---- *)
Definition tenv := list (ident * ty).
Definition tget (G : tenv) (x : ident) : ty :=
  match tlookup x G with Some t => t | None => TInt end.
(* dict assignment: replace in place, else append *)
Fixpoint tset (G : tenv) (x : ident) (t : ty) : tenv :=
  match G with
  | [] => [(x, t)]
  | (k, v) :: r => if text_eqb x k then (k, t) :: r else (k, v) :: tset r x t
  end.

(* ---- _merge_element_types (None = raises ValueError) ---- *)
Fixpoint ty_mem (t : ty) (l : list ty) : bool :=
  match l with [] => false | x :: r => ty_eqb t x || ty_mem t r end.
(* list(dict.fromkeys(types)) *)
Fixpoint dedupe_acc (seen : list ty) (l : list ty) : list ty :=
  match l with
  | [] => []
  | x :: r => if ty_mem x seen then dedupe_acc seen r else x :: dedupe_acc (x :: seen) r
  end.
Definition dedupe (l : list ty) : list ty := dedupe_acc [] l.

Definition merge_element_types (types : list ty) : option ty :=
  match types with
  | [] => Some TInt
  | _ =>
    let unique := dedupe types in
    match unique with
    | [u] => Some u
    | _ =>
      let list_types := filter is_list_ty unique in
      match list_types with
      | lt0 :: _ =>
          if negb (Nat.eqb (length list_types) (length unique)) then None    (* mixed list and scalar *)
          else if negb (Nat.eqb (length (dedupe list_types)) 1) then None     (* conflicting nested lists *)
          else Some lt0
      | [] =>
          if ty_mem TString unique then Some TString
          else if ty_mem TFloat unique then Some TFloat
          else if ty_mem TInt unique then Some TInt
          else if ty_mem TBool unique then Some TBool
          else match unique with u :: _ => Some u | [] => Some TInt end
      end
    end
  end.

(* ---- _merge_return_types(types, has_void) (None = raises ValueError) ---- *)
Definition is_empty_label (t : ty) : bool := match t with TOther [] => true | _ => false end.
Definition merge_return_types (types : list ty) (has_void : bool) : option ty :=
  let unique := dedupe (filter (fun t => negb (is_empty_label t)) types) in     (* {t for t in types if t} *)
  if has_void then match unique with [] => Some TVoid | _ => None end
  else match unique with
  | [] => Some TVoid
  | u0 :: _ =>
    if ty_mem TString unique then (if Nat.ltb 1 (length unique) then None else Some TString)
    else if ty_mem TFloat unique then Some TFloat
    else if forallb (ty_eqb TBool) unique then Some TBool                        (* unique == {"bool"} *)
    else if ty_mem TInt unique then Some TInt
    else if Nat.eqb (length unique) 1 then Some u0
    else Some TInt
  end.

(* the annotated-return override of _parse_function (lines 1643-1646) *)
Definition override_return (merged : ty) (annotated : option ty) (n_returns : nat) : ty :=
  match annotated with
  | None => merged
  | Some a =>
      if ty_eqb merged TVoid && negb (ty_eqb a TVoid) then a
      else if negb (ty_eqb a merged) && negb (Nat.eqb n_returns 0) then a
      else merged
  end.

(* _annotation_to_type_label on a simple name annotation (table generated from the code) *)
Definition annotation_label (name : option text) : ty :=
  match name with
  | None => ty_of_simple_label annotation_missing_label
  | Some n => match tlookup n annotation_labels with
              | Some l => ty_of_simple_label l
              | None => TInt end
  end.

(* ---- _cpp_type ---- *)
Inductive cty : Type := CInt | CFloat | CBool | CString | CVoid | CList (e : cty).
Fixpoint cpp_type (t : ty) : cty :=
  match t with
  | TList e => CList (cpp_type e)
  | TInt => CInt | TFloat => CFloat | TBool => CBool | TString => CString | TVoid => CVoid
  | TOther _ => CInt                                  (* mapping.get(py_type, "int") *)
  end.
Fixpoint cty_eqb (a b : cty) : bool :=
  match a, b with
  | CInt, CInt | CFloat, CFloat | CBool, CBool | CString, CString | CVoid, CVoid => true
  | CList x, CList y => cty_eqb x y
  | _, _ => false
  end.
Fixpoint cty_text (c : cty) : text :=
  match c with
  | CInt => l_int | CFloat => l_float | CBool => l_bool | CString => l_String | CVoid => l_void
  | CList e => [95;95;114;101;100;117;95;108;105;115;116;60] ++ cty_text e ++ [62]     (* __redu_list<e> *)
  end.
(* ---- _default_value_for_type (takes the C type) ---- *)
Definition default_value (c : cty) : text :=
  match c with
  | CBool => [102;97;108;115;101]                     (* false *)
  | CFloat => [48;46;48]                              (* 0.0 *)
  | CString => [34;34]                                (* "" *)
  | CList _ => cty_text c ++ [40;41]                  (* __redu_list<e>() *)
  | CInt | CVoid => [48]                              (* 0 *)
  end.

(* ---- the builtin call table (generated) ---- *)
Definition builtin_rets : list (text * ty) :=
  map (fun kv => (fst kv, ty_of_simple_label (snd kv))) builtin_ret_labels.

(* ---- the ctx argument: None, or the device-name sets the function looks at ---- *)
Record ictx := mk_ictx { ic_leds : list ident; ic_servos : list ident;
                         ic_serials : list ident; ic_ultras : list ident }.

Definition m_get_state : ident := [103;101;116;95;115;116;97;116;101].
Definition m_get_brightness : ident := [103;101;116;95;98;114;105;103;104;116;110;101;115;115].
Definition m_read : ident := [114;101;97;100].
Definition m_read_us : ident := [114;101;97;100;95;117;115].
Definition m_measure_distance : ident := [109;101;97;115;117;114;101;95;100;105;115;116;97;110;99;101].

(* Call with an Attribute callee (lines 1049-1090); no case returning falls through to "int" *)
Definition method_type (C : option ictx) (owner : pexpr) (attr : ident) : ty :=
  match owner with
  | EName o =>
      if text_eqb attr m_get_state then
        match C with None => TBool | Some c => if tmem o (ic_leds c) then TBool else TInt end
      else if text_eqb attr m_get_brightness then TInt
      else if text_eqb attr m_read then
        match C with
        | None => TFloat
        | Some c => if tmem o (ic_servos c) then TFloat
                    else if tmem o (ic_serials c) then TString else TInt
        end
      else if text_eqb attr m_read_us then
        match C with None => TFloat | Some c => if tmem o (ic_servos c) then TFloat else TInt end
      else if text_eqb attr m_measure_distance then
        match C with None => TFloat | Some c => if tmem o (ic_ultras c) then TFloat else TInt end
      else TInt
  | _ => TInt
  end.

(* ---- user functions: functions[fname] is a dict signature -> label (or a bare label) ---- *)
Inductive fentry := FLabel (t : ty) | FVariants (vs : list (list ty * ty)).
Definition ftable := list (ident * fentry).
Definition aliases := list (ident * list (list ty * list ty)).

Fixpoint sig_eqb (a b : list ty) : bool :=
  match a, b with
  | [], [] => true
  | x :: a', y :: b' => ty_eqb x y && sig_eqb a' b'
  | _, _ => false
  end.
Fixpoint sig_lookup {A} (s : list ty) (l : list (list ty * A)) : option A :=
  match l with [] => None | (k, v) :: r => if sig_eqb s k then Some v else sig_lookup s r end.
Fixpoint first_same_arity (n : nat) (l : list (list ty * ty)) : option ty :=
  match l with [] => None | (k, v) :: r => if Nat.eqb (length k) n then Some v else first_same_arity n r end.

(* _resolve_signature_alias *)
Definition resolve_alias (A : aliases) (f : ident) (sg : list ty) : list ty :=
  match tlookup f A with
  | Some m => match sig_lookup sg m with Some c => c | None => sg end
  | None => sg
  end.

(* lines 1120-1132; None = no case returned (the caller then falls through to "int") *)
Definition resolve_call (F : ftable) (A : aliases) (f : ident) (sg : list ty) : option ty :=
  match tlookup f F with
  | None => None
  | Some (FLabel t) => Some t
  | Some (FVariants vs) =>
      match sig_lookup (resolve_alias A f sg) vs with
      | Some t => Some t
      | None => match sig_lookup sg vs with
                | Some t => Some t
                | None => first_same_arity (length sg) vs
                end
      end
  end.

(* ---- _infer_expr_type ----
   [S] is whatever state the user-function step threads (the recorded call signatures,
   the function variants parsed on demand by _ensure_function_variant ...); the static
   instance below has S = unit.  Result None = the call raises ValueError. *)
Section Thread.
  Context {S A : Type}.
  Variable f : S -> tenv -> A -> option (ty * tenv * S).
  Fixpoint thread (s : S) (G : tenv) (l : list A) : option (list ty * tenv * S) :=
    match l with
    | [] => Some ([], G, s)
    | x :: r =>
        match f s G x with
        | None => None
        | Some (t, G1, s1) =>
            match thread s1 G1 r with
            | None => None
            | Some (ts, G2, s2) => Some (t :: ts, G2, s2)
            end
        end
    end.
End Thread.

Definition name_of (e : pexpr) : option ident := match e with EName x => Some x | _ => None end.

(* string contagion (lines 1151-1158): an operand that is a bare Name and is not yet
   "String" gets its var_types entry overwritten *)
Definition contaminate (G : tenv) (operand : pexpr) (t : ty) : tenv :=
  match name_of operand with
  | Some x => if is_string_ty t then G else tset G x TString
  | None => G
  end.

Section Infer.
  Variable S : Type.
  Variable call : S -> tenv -> ident -> list ty -> S * option ty.
  Variable C : option ictx.

  Fixpoint infer (s : S) (G : tenv) (e : pexpr) {struct e} : option (ty * tenv * S) :=
    match e with
    | EInt _ => Some (TInt, G, s)
    | EBool _ => Some (TBool, G, s)
    | EFloat _ => Some (TFloat, G, s)
    | EStr _ => Some (TString, G, s)
    | EConstOther => Some (TInt, G, s)
    | EName x => Some (tget G x, G, s)
    | ESubscript v _ =>
        match infer s G v with
        | None => None
        | Some (bt, G1, s1) => Some ((if is_list_ty bt then list_elem bt else TInt), G1, s1)
        end
    | EList es =>
        match thread infer s G es with
        | None => None
        | Some (ts, G1, s1) =>
            match merge_element_types ts with
            | None => None
            | Some et => Some (TList et, G1, s1)
            end
        end
    | EUn Not _ => Some (TBool, G, s)
    | EUn _ a => infer s G a
    | EBoolOp _ _ => Some (TBool, G, s)
    | ECompare _ _ _ => Some (TBool, G, s)
    | EIfExp _ a b =>
        match infer s G a with
        | None => None
        | Some (bt, G1, s1) =>
            match infer s1 G1 b with
            | None => None
            | Some (et, G2, s2) =>
                Some ((if ty_eqb bt et then bt
                       else if is_string_ty bt || is_string_ty et then TString
                       else if ty_eqb bt TFloat || ty_eqb et TFloat then TFloat
                       else TInt), G2, s2)
            end
        end
    | EJoined _ => Some (TString, G, s)
    | EMethod owner attr _ _ => Some (method_type C owner attr, G, s)
    | ECall f args _ =>
        match thread infer s G args with
        | None => None
        | Some (ats, G1, s1) =>
            match tlookup f builtin_rets with
            | Some t => Some (t, G1, s1)
            | None =>
                let '(s2, r) := call s1 G1 f ats in
                Some (match r with Some t => t | None => TInt end, G1, s2)
            end
        end
    | EBin _ a b =>
        match infer s G a with
        | None => None
        | Some (lt, G1, s1) =>
            match infer s1 G1 b with
            | None => None
            | Some (rt, G2, s2) =>
                if is_string_ty lt || is_string_ty rt then
                  Some (TString, contaminate (contaminate G2 a lt) b rt, s2)
                else if ty_eqb lt TFloat || ty_eqb rt TFloat then Some (TFloat, G2, s2)
                else Some (TInt, G2, s2)
            end
        end
    | EFmt _ _ | ETuple _ | EOther _ => Some (TInt, G, s)
    end.
End Infer.

(* the static instance: functions / aliases are fixed tables, nothing is recorded *)
Definition call_static (F : ftable) (A : aliases) (_ : unit) (_ : tenv) (f : ident) (sg : list ty)
  : unit * option ty := (tt, resolve_call F A f sg).

Definition infer_s (F : ftable) (A : aliases) (C : option ictx) (G : tenv) (e : pexpr) : option (ty * tenv) :=
  match infer unit (call_static F A) C tt G e with
  | Some (t, G1, _) => Some (t, G1)
  | None => None
  end.
