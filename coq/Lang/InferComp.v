(* List comprehensions in the type-label layer of transpile/parser.py (property C02).

   Both _infer_expr_type (lines 971-1002) and _to_c_expr (lines 475-537) treat
       [elt for t in range(n)]
   the same way as far as var_types is concerned: remember var_types.get(t), set var_types[t] = "int",
   work on elt, and in a `finally` put the remembered entry back (pop the key if there was none).
   [with_target] is that bracket; [infer_rhs] is _infer_expr_type on a right-hand side that is a (possibly
   nested) comprehension over range() with one argument, or a plain expression.  Comprehensions nested
   inside other operators stay [EOther] in Lang/PyAst.v (labelled "int" by the model: not generated).
   The reference meaning of a comprehension ([eval_rhs]) is CPython's: the target is bound to 0 .. n-1 in a
   scope of its own, it does not leak. *)
From Coq Require Import ZArith List Bool.
From RV Require Import Base.Wire Base.Text Lang.PyAst Lang.PySem Lang.Infer Lang.InferGuard.
Import ListNotations.
Open Scope Z_scope.

Inductive rhs : Type :=
| RPlain (e : pexpr)
| RComp (t : ident) (n : pexpr) (elt : rhs).          (* [elt for t in range(n)] *)

(* dict.pop(key, None) *)
Fixpoint tremove (G : tenv) (x : ident) : tenv :=
  match G with
  | [] => []
  | (k, v) :: r => if text_eqb x k then tremove r x else (k, v) :: tremove r x
  end.

(* the `finally` block *)
Definition restore (G : tenv) (t : ident) (saved : option ty) : tenv :=
  match saved with Some old => tset G t old | None => tremove G t end.

(* saved = var_types.get(t); var_types[t] = "int"; try: body finally: restore.
   A ValueError raised by the body propagates (None); the `finally` still ran, but the parse is aborted. *)
Definition with_target {X : Type} (G : tenv) (t : ident) (body : tenv -> option (X * tenv)) : option (X * tenv) :=
  let saved := tlookup t G in
  match body (tset G t TInt) with
  | None => None
  | Some (x, G1) => Some (x, restore G1 t saved)
  end.

Section InferRhs.
  Variable S : Type.
  Variable call : S -> tenv -> ident -> list ty -> S * option ty.
  Variable C : option ictx.

  Fixpoint infer_rhs (s : S) (G : tenv) (r : rhs) {struct r} : option (ty * tenv * S) :=
    match r with
    | RPlain e => infer S call C s G e
    | RComp t _ elt =>                                   (* the range() arguments are not looked at *)
        let saved := tlookup t G in
        match infer_rhs s (tset G t TInt) elt with
        | None => None
        | Some (et, G1, s1) => Some (TList et, restore G1 t saved, s1)     (* _make_list_type_label *)
        end
    end.
End InferRhs.

Definition infer_rhs_s (F : ftable) (A : aliases) (C : option ictx) (G : tenv) (r : rhs) : option (ty * tenv) :=
  match infer_rhs unit (call_static F A) C tt G r with
  | Some (t, G1, _) => Some (t, G1)
  | None => None
  end.

(* the var_types bracket of _to_c_expr around emit(elt): the same shape, the body being whatever the
   translation of elt does to var_types (its own nested inference; modelled as the inference of elt) *)
Definition toc_rhs_types (F : ftable) (A : aliases) (C : option ictx) (G : tenv) (r : rhs) : option tenv :=
  match r with
  | RPlain _ => Some G
  | RComp t _ elt =>
      match with_target G t (fun G0 => infer_rhs_s F A C G0 elt) with
      | Some (_, G1) => Some G1
      | None => None
      end
  end.

(* ---- guard: every plain expression inside [guard], under the environment it is inferred in ---- *)
Section GuardRhs.
  Variable F : ftable.
  Variable A : aliases.
  Variable C : option ictx.
  Fixpoint rhs_guard (G : tenv) (r : rhs) : bool :=
    match r with
    | RPlain e => guard F A C G e
    | RComp t n elt => rhs_guard (tset G t TInt) elt
    end.
  Fixpoint rhs_pure (G : tenv) (r : rhs) : bool :=
    match r with
    | RPlain e => pure F A C G e
    | RComp t n elt => rhs_pure (tset G t TInt) elt
    end.
End GuardRhs.

(* ---- reference semantics ---- *)
Definition zrange (k : Z) : list Z := map Z.of_nat (seq 0 (Z.to_nat k)).

Fixpoint eval_rhs (rho : env) (r : rhs) {struct r} : res pval :=
  match r with
  | RPlain e => peval rho e
  | RComp t n elt =>
      match peval rho n with
      | Err er => Err er
      | Ok (VInt k) =>
          match (fix go (l : list Z) : res (list pval) :=
                   match l with
                   | [] => Ok []
                   | i :: l' =>
                       match eval_rhs ((t, VInt i) :: rho) elt with
                       | Err er => Err er
                       | Ok v => match go l' with Err er => Err er | Ok vs => Ok (v :: vs) end
                       end
                   end) (zrange k) with
          | Err er => Err er
          | Ok vs => Ok (VList vs)
          end
      | Ok _ => Err OutOfModel
      end
  end.
