(* The executable guard of C02_infer_sound_expr_partial: exactly the side conditions the
   soundness proof of [infer] forces (each clause has a _refuted witness in Props/C02.v).
   Also used by the harness as the filter of the property oracle. *)
From Coq Require Import ZArith List Bool.
From RV Require Import Base.Wire Base.Text Lang.PyAst Lang.PySem Lang.Infer.
Import ListNotations.
Open Scope Z_scope.

Definition numeric (t : ty) : bool := match t with TInt | TFloat | TBool => true | _ => false end.
Definition intlike (t : ty) : bool := match t with TInt | TBool => true | _ => false end.
Definition is_name (e : pexpr) : bool := match e with EName _ => true | _ => false end.
Definition is_div_pow (op : binop) : bool := match op with Div | Pow => true | _ => false end.
Definition all_eq (l : list ty) : bool :=
  match l with [] => true | t :: r => forallb (ty_eqb t) r end.

(* string contagion would overwrite the var_types entry of a Name operand *)
Definition fires (a : pexpr) (ta : ty) (b : pexpr) (tb : ty) : bool :=
  (is_string_ty ta || is_string_ty tb) &&
  ((is_name a && negb (is_string_ty ta)) || (is_name b && negb (is_string_ty tb))).

Section Guard.
  Variable F : ftable.
  Variable A : aliases.
  Variable C : option ictx.

  (* the label [infer] gives e in environment G ("int" if it raises) *)
  Definition ety (G : tenv) (e : pexpr) : ty :=
    match infer_s F A C G e with Some (t, _) => t | None => TInt end.

  (* inference of e does not touch var_types (follows the traversal of [infer]) *)
  Fixpoint pure (G : tenv) (e : pexpr) : bool :=
    match e with
    | EBin _ a b => pure G a && pure G b && negb (fires a (ety G a) b (ety G b))
    | EUn Not _ => true
    | EUn _ a => pure G a
    | EIfExp _ a b => pure G a && pure G b
    | ECall _ args _ => forallb (pure G) args
    | EList es => forallb (pure G) es
    | ESubscript v _ => pure G v
    | _ => true
    end.

  Definition is_absminmax (f : ident) : bool :=
    text_eqb f n_abs || text_eqb f n_max || text_eqb f n_min.

  Fixpoint guard (G : tenv) (e : pexpr) : bool :=
    match e with
    | EInt _ | EBool _ | EFloat _ | EStr _ | EConstOther | EName _ => true
    | EBin op a b =>
        guard G a && guard G b &&
        (let ta := ety G a in
         let tb := ety G b in
         if is_string_ty ta || is_string_ty tb then negb (fires a ta b tb)               (* no contagion *)
         else numeric ta && numeric tb                                                   (* no list/other operands *)
              && (ty_eqb ta TFloat || ty_eqb tb TFloat || negb (is_div_pow op)))         (* int / int, int ** int *)
    | EUn Not _ => true
    | EUn _ a => guard G a && negb (ty_eqb (ety G a) TBool)                              (* -True *)
    | EBoolOp _ vs => forallb (fun v => guard G v && ty_eqb (ety G v) TBool) vs          (* 0 or 5 *)
    | ECompare _ _ _ => true
    | EIfExp _ a b =>
        guard G a && guard G b &&
        (let ta := ety G a in
         let tb := ety G b in
         ty_eqb ta tb || (numeric ta && numeric tb))                                     (* "a" if c else 1 *)
    | EJoined _ => true
    | ECall f args _ =>
        forallb (pure G) args &&
        (if is_absminmax f then forallb (fun a => guard G a && intlike (ety G a)) args   (* abs(-2.5) *)
         else true)
    | EList es =>
        forallb (guard G) es &&
        (let ts := map (ety G) es in all_eq ts || forallb numeric ts)                    (* ["a", 1] *)
    | ESubscript v _ => guard G v && is_list_ty (ety G v)                                (* "abc"[0] *)
    | ETuple _ => false                                                                  (* (1, 2) is labelled int *)
    | EFmt _ _ | EMethod _ _ _ _ | EOther _ => true                                      (* not evaluated by the reference semantics *)
    end.
End Guard.
