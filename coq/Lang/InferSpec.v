(* Specification side of C02: when does a C type label / declared C type represent a Python value
   "without conversion" (kind level; the numeric range of a C int is the no-overflow guard of C01
   and is kept separate in [repr_w]). *)
From Coq Require Import ZArith QArith List Bool.
From RV Require Import Base.Wire Base.Text Lang.PyAst Lang.PySem Lang.Infer.
Import ListNotations.
Open Scope Z_scope.

(* label t holds value v exactly *)
Fixpoint repr (t : ty) (v : pval) {struct t} : Prop :=
  match t, v with
  | TInt, VInt _ | TInt, VBool _ => True                          (* a bool is the int 0/1 *)
  | TFloat, VFloat _ | TFloat, VInt _ | TFloat, VBool _ => True   (* ints convert to float exactly (in range) *)
  | TBool, VBool _ => True
  | TString, VStr _ => True
  | TList e, VList l => Forall (repr e) l
  | _, _ => False
  end.

(* the same for a declared C type *)
Fixpoint crepr (c : cty) (v : pval) {struct c} : Prop :=
  match c, v with
  | CInt, VInt _ | CInt, VBool _ => True
  | CFloat, VFloat _ | CFloat, VInt _ | CFloat, VBool _ => True
  | CBool, VBool _ => True
  | CString, VStr _ => True
  | CList e, VList l => Forall (crepr e) l
  | _, _ => False
  end.

(* with the width of a C int made explicit *)
Definition fits (w : Z) (z : Z) : Prop := - 2 ^ (w - 1) <= z < 2 ^ (w - 1).
Definition val_fits (w : Z) (v : pval) : Prop :=
  match v with VInt z => fits w z | _ => True end.
Definition repr_w (w : Z) (t : ty) (v : pval) : Prop := repr t v /\ val_fits w v.

(* every bound Python name holds a value its current label represents *)
Definition env_sound (G : tenv) (rho : env) : Prop :=
  forall x v, lookup x rho = Some v -> repr (tget G x) v.

(* the order bool < int < float, String (and everything else) alone *)
Definition sub_ty (a b : ty) : Prop :=
  a = b \/ (a = TBool /\ b = TInt) \/ (a = TBool /\ b = TFloat) \/ (a = TInt /\ b = TFloat).
Definition scalar (t : ty) : bool :=
  match t with TInt | TFloat | TBool | TString => true | _ => false end.
