(* Wire codecs for the type-label model (harness/props/c02.py is the other side).
   label:  (0) int  (1) float  (2) bool  (3) String  (4 label) list  (5) void  (6 text) other *)
From Coq Require Import ZArith List Bool.
From RV Require Import Base.Wire Base.Text Lang.PyAst Lang.Infer.
Import ListNotations.
Open Scope Z_scope.

Fixpoint dec_ty (v : wv) : option ty :=
  match v with
  | WL [WI 0] => Some TInt | WL [WI 1] => Some TFloat | WL [WI 2] => Some TBool
  | WL [WI 3] => Some TString | WL [WI 5] => Some TVoid
  | WL [WI 4; t] => option_map TList (dec_ty t)
  | WL [WI 6; s] => option_map TOther (un_text s)
  | _ => None
  end.

Fixpoint enc_ty (t : ty) : wv :=
  match t with
  | TInt => WL [WI 0] | TFloat => WL [WI 1] | TBool => WL [WI 2] | TString => WL [WI 3]
  | TList e => WL [WI 4; enc_ty e] | TVoid => WL [WI 5] | TOther s => WL [WI 6; wtext s]
  end.

Fixpoint enc_cty (c : cty) : wv :=
  match c with
  | CInt => WL [WI 0] | CFloat => WL [WI 1] | CBool => WL [WI 2] | CString => WL [WI 3]
  | CList e => WL [WI 4; enc_cty e] | CVoid => WL [WI 5]
  end.
Fixpoint dec_cty (v : wv) : option cty :=
  match v with
  | WL [WI 0] => Some CInt | WL [WI 1] => Some CFloat | WL [WI 2] => Some CBool
  | WL [WI 3] => Some CString | WL [WI 5] => Some CVoid
  | WL [WI 4; t] => option_map CList (dec_cty t)
  | _ => None
  end.

Fixpoint dec_tys (l : list wv) : option (list ty) :=
  match l with
  | [] => Some []
  | x :: r => match dec_ty x, dec_tys r with Some t, Some ts => Some (t :: ts) | _, _ => None end
  end.

Fixpoint dec_tenv (l : list wv) : option tenv :=
  match l with
  | [] => Some []
  | WL [k; t] :: r =>
      match un_text k, dec_ty t, dec_tenv r with
      | Some kk, Some t1, Some e => Some ((kk, t1) :: e) | _, _, _ => None end
  | _ => None
  end.
Definition enc_tenv (G : tenv) : wv := WL (map (fun kv => WL [wtext (fst kv); enc_ty (snd kv)]) G).

Fixpoint dec_texts (l : list wv) : option (list text) :=
  match l with
  | [] => Some []
  | x :: r => match un_text x, dec_texts r with Some t, Some ts => Some (t :: ts) | _, _ => None end
  end.

(* ctx: () = None, ((leds) (servos) (serials) (ultrasonics)) *)
Definition dec_ictx (v : wv) : option (option ictx) :=
  match v with
  | WL [] => Some None
  | WL [WL a; WL b; WL c; WL d] =>
      match dec_texts a, dec_texts b, dec_texts c, dec_texts d with
      | Some la, Some lb, Some lc, Some ld => Some (Some (mk_ictx la lb lc ld))
      | _, _, _, _ => None end
  | _ => None
  end.

Fixpoint dec_variants (l : list wv) : option (list (list ty * ty)) :=
  match l with
  | [] => Some []
  | WL [WL sg; t] :: r =>
      match dec_tys sg, dec_ty t, dec_variants r with
      | Some s, Some t1, Some vs => Some ((s, t1) :: vs) | _, _, _ => None end
  | _ => None
  end.

(* functions: ((name (0 label)) | (name (1 ((sig label) ...))) ...) *)
Fixpoint dec_ftable (l : list wv) : option ftable :=
  match l with
  | [] => Some []
  | WL [k; WL [WI 0; t]] :: r =>
      match un_text k, dec_ty t, dec_ftable r with
      | Some kk, Some t1, Some e => Some ((kk, FLabel t1) :: e) | _, _, _ => None end
  | WL [k; WL [WI 1; WL vs]] :: r =>
      match un_text k, dec_variants vs, dec_ftable r with
      | Some kk, Some vv, Some e => Some ((kk, FVariants vv) :: e) | _, _, _ => None end
  | _ => None
  end.

Fixpoint dec_sigpairs (l : list wv) : option (list (list ty * list ty)) :=
  match l with
  | [] => Some []
  | WL [WL a; WL b] :: r =>
      match dec_tys a, dec_tys b, dec_sigpairs r with
      | Some x, Some y, Some e => Some ((x, y) :: e) | _, _, _ => None end
  | _ => None
  end.
Fixpoint dec_aliases (l : list wv) : option aliases :=
  match l with
  | [] => Some []
  | WL [k; WL ps] :: r =>
      match un_text k, dec_sigpairs ps, dec_aliases r with
      | Some kk, Some pp, Some e => Some ((kk, pp) :: e) | _, _, _ => None end
  | _ => None
  end.

Definition enc_oty (o : option ty) : wv :=
  match o with Some t => wok [enc_ty t] | None => werr 4 end.
