(* The re-layout relation of C07: a program skeleton (block tree of statement texts) together
   with one concrete LAYOUT of it - junk lines (blank / whitespace-only / comment-only) before
   any statement, trailing blanks or a trailing comment after any statement, an indentation
   unit.  [render] turns a laid-out tree into lines; two line lists are re-layouts of each
   other when they are renderings of laid-out trees with the same skeleton ([lerase]).
   (Guard after the repair of the comment handling: junk lines at any column, trailing comments
   on every statement line.)
   The harness renders its generated layouts with the extracted [render_top], so the relation
   in the theorems is literally the generator's.  [wf_*] is the executable guard.
   No proofs in this file. *)
From Coq Require Import ZArith List Bool Lia.
From RV Require Import Base.Wire Base.Text Lang.Lex Lang.PyLayout.
Import ListNotations.
Open Scope Z_scope.

Inductive ltree :=
| LLeaf (pre : list text) (s tr : text)
| LBlock (pre : list text) (k : hkind) (h tr : text) (body : list ltree).

Inductive ltop :=
| LChain (ns : list ltree)                                    (* one statement or one if/try chain at column 0 *)
| LMain (pre : list text) (h tr : text) (body : list ltree)   (* the column-0 `while True:` *)
| LDef (pre : list text) (h tr : text) (body : list ltree)
| LImp (pre : list text) (s tr : text).                       (* a column-0 import line that parse() filters itself *)

Fixpoint lerase (n : ltree) : stree :=
  match n with
  | LLeaf _ s _ => SLeaf s
  | LBlock _ k h _ body => SBlock k h (map lerase body)
  end.

Definition lerase_top (t : ltop) : list sitem :=
  match t with
  | LChain ns => [SSetup (map lerase ns)]
  | LMain _ _ _ body => [SLoop (map lerase body)]
  | LDef _ h _ body => [SDef h (map lerase body)]
  | LImp _ _ _ => []
  end.
Definition lerase_tops (ts : list ltop) : list sitem := flat_map lerase_top ts.

(* ---------------------------------------------------------------- rendering *)
Section Render.
  Variable ind : nat -> text.          (* indentation string of depth d *)

  Fixpoint render (d : nat) (n : ltree) : list text :=
    match n with
    | LLeaf pre s tr => pre ++ [ind d ++ s ++ tr]
    | LBlock pre k h tr body => pre ++ (ind d ++ h ++ tr) :: flat_map (render (S d)) body
    end.
  Definition render_list (d : nat) (ns : list ltree) : list text := flat_map (render d) ns.

  Definition render_top1 (t : ltop) : list text :=
    match t with
    | LChain ns => render_list O ns
    | LMain pre h tr body => pre ++ (ind O ++ h ++ tr) :: render_list 1%nat body
    | LDef pre h tr body => pre ++ (ind O ++ h ++ tr) :: render_list 1%nat body
    | LImp pre s tr => pre ++ [ind O ++ s ++ tr]
    end.
  Definition render_top (ts : list ltop) (final_junk : list text) : list text :=
    flat_map render_top1 ts ++ final_junk.
End Render.

(* the indentation of depth d for an indentation unit u (1-8 spaces, a tab, ...) *)
Fixpoint ind_unit (u : text) (d : nat) : text :=
  match d with O => [] | S d' => u ++ ind_unit u d' end.

Definition ws_only (t : text) : bool := forallb (fun c => (c =? ch_space) || (c =? ch_tab)) t.
Definition unit_ok (u : text) : bool := negb (is_nil u) && ws_only u.

(* ---------------------------------------------------------------- the guard *)
(* junk lines: [Lex.junk] (blank / white-space-only / comment-only at ANY column) *)

(* trailing part of a statement line: blanks, optionally followed by a comment *)
Definition trail_ok (allow_comment : bool) (tr : text) : bool :=
  is_blank tr || (allow_comment && starts_hash (lstrip tr)).

(* p and t differ at some position where both are defined *)
Fixpoint clash (p t : text) : bool :=
  match p, t with
  | a :: p', b :: t' => if a =? b then clash p' t' else true
  | _, _ => false
  end.
Definition no_cont (s : text) : bool := clash kw_elif s && clash kw_else s && clash kw_except s.

Definition is_none {A} (o : option A) : bool := match o with None => true | Some _ => false end.

(* the three flags of _strip_inline_comment after scanning t (no '#' cut on the way) *)
Fixpoint sic_st (in_single in_double escaped : bool) (t : text) : bool * bool * bool :=
  match t with
  | [] => (in_single, in_double, escaped)
  | c :: r =>
    if escaped then sic_st in_single in_double false r
    else if c =? ch_bslash then sic_st in_single in_double true r
    else if (c =? ch_squote) && negb in_double then sic_st (negb in_single) in_double false r
    else if (c =? ch_dquote) && negb in_single then sic_st in_single (negb in_double) false r
    else sic_st in_single in_double false r
  end.

(* [strip_inline_comment] sees all of s as code that ends outside any string literal (so a '#'
   appended after it is a comment) *)
Definition code_clean (s : text) : bool :=
  is_none (sic_cut false false false s)
  && match sic_st false false false s with (a, b, c) => negb a && negb b && negb c end.

(* a statement text: non-empty, no blank at either end, not a comment, code_clean *)
Definition stmt_ok (s : text) : bool :=
  match s with c :: _ => negb (is_space c) && negb (c =? ch_hash) | [] => false end
  && text_eqb (rstrip s) s && code_clean s.

Inductive cstate := CNone | CIf | CTry.
Definition is_cont (k : hkind) : bool := match k with KElif | KElse | KExcept => true | _ => false end.
Definition accepts (c : cstate) (k : hkind) : bool :=
  match k, c with
  | KElif, CIf | KElse, CIf | KExcept, CTry => true
  | KElif, _ | KElse, _ | KExcept, _ => false
  | _, _ => true
  end.
Definition after_kind (k : hkind) : cstate :=
  match k with KIf | KElif => CIf | KTry | KExcept => CTry | _ => CNone end.
Definition hdr_ok (k : hkind) (h : text) : bool :=
  match k with
  | KElif => re_elif h
  | KElse => re_else h && negb (re_elif h)
  | KExcept => re_except h
  | _ => match classify h with
         | Some k' => match k, k' with
                      | KIf, KIf | KTry, KTry | KWhile, KWhile | KFor, KFor => true
                      | _, _ => false
                      end
         | None => false
         end && no_cont h
  end.

Definition accepts_node (c : cstate) (n : ltree) : bool :=
  match n with LLeaf _ _ _ => true | LBlock _ k _ _ _ => accepts c k end.
Definition after_node (n : ltree) : cstate :=
  match n with LLeaf _ _ _ => CNone | LBlock _ k _ _ _ => after_kind k end.

(* a junk line may stand at any column before any statement (also before elif / else / except);
   a trailing comment may follow any statement, including block headers at column 0 of the script
   and elif / else / except lines *)
Fixpoint wf_tree (n : ltree) : bool :=
  match n with
  | LLeaf pre s tr =>
      forallb junk pre && stmt_ok s && is_none (classify s) && no_cont s && trail_ok true tr
  | LBlock pre k h tr body =>
      forallb junk pre && stmt_ok h && hdr_ok k h && trail_ok true tr
      && (fix seq (c : cstate) (ns : list ltree) : bool :=
            match ns with
            | [] => true
            | m :: r => wf_tree m && accepts_node c m && seq (after_node m) r
            end) CNone body
  end.

Fixpoint wf_seq (c : cstate) (ns : list ltree) : bool :=
  match ns with
  | [] => true
  | m :: r => wf_tree m && accepts_node c m && wf_seq (after_node m) r
  end.

(* ---------------------------------------------------------------- the guard at column 0 of the script *)
(* one LChain = exactly one top-level statement: a simple statement, a while, a for, an
   if/elif/else chain or a try/except chain *)
Definition is_block_of (ks : list hkind) (n : ltree) : bool :=
  match n with
  | LBlock _ k _ _ _ => existsb (fun k' => Z.eqb (match k with KIf => 0 | KElif => 1 | KElse => 2 | KTry => 3 | KExcept => 4 | KWhile => 5 | KFor => 6 end)
                                                 (match k' with KIf => 0 | KElif => 1 | KElse => 2 | KTry => 3 | KExcept => 4 | KWhile => 5 | KFor => 6 end)) ks
  | LLeaf _ _ _ => false
  end.
(* a column-0 statement that parse() neither takes for a target(...) directive nor filters as an import *)
Definition top_plain (s : text) : bool := negb (top_target s) && negb (top_import s).

Definition chain_ok (ns : list ltree) : bool :=
  match ns with
  | [LLeaf _ s _] => top_plain s && negb (re_def s) && negb (re_while_true s)
  | [LBlock _ KWhile h _ _] => top_plain h && negb (re_while_true h)
  | [LBlock _ KFor h _ _] => top_plain h
  | LBlock _ KIf h _ _ :: r => top_plain h && forallb (is_block_of [KElif; KElse]) r
  | LBlock _ KTry h _ _ :: r => top_plain h && forallb (is_block_of [KExcept]) r
  | _ => false
  end.

Definition wf_top (t : ltop) : bool :=
  match t with
  | LChain ns => chain_ok ns && wf_seq CNone ns
  | LMain pre h tr body =>
      forallb junk pre && stmt_ok h && re_while_true h && top_plain h && trail_ok true tr && wf_seq CNone body
  | LDef pre h tr body =>
      forallb junk pre && stmt_ok h && re_def h && top_plain h && trail_ok true tr && wf_seq CNone body
  | LImp pre s tr =>
      (* an import line parse() filters itself, or a target(...) directive *)
      forallb junk pre && stmt_ok s && (top_target s || top_import s) && no_cont s && trail_ok true tr
  end.

(* the guard of a whole script *)
Definition top_layout_ok (u : text) (ts : list ltop) (final_junk : list text) : bool :=
  unit_ok u && forallb wf_top ts && forallb junk final_junk.

(* the nested guard for a snippet handed to _parse_simple_lines *)
Definition layout_ok (u : text) (ns : list ltree) : bool :=
  unit_ok u && wf_seq CNone ns.

(* ---------------------------------------------------------------- guard of the _collect_block theorem *)
(* no exotic white space (Python knows only space, tab, form feed as layout characters) *)
Definition plain_ws (l : text) : bool := forallb (fun c => negb (is_space c) || py_ws c) l.
(* the leading white space of the line consists of the character c only *)
Fixpoint lead_all (c : Z) (l : text) : bool :=
  match l with
  | x :: r => if py_ws x then (x =? c) && lead_all c r else true
  | [] => true
  end.
(* the whole script indents with spaces only, or with tabs only *)
Definition uniform_indent (lines : list text) : bool :=
  forallb (fun l => is_blank l || lead_all ch_space l) lines
  || forallb (fun l => is_blank l || lead_all ch_tab l) lines.
(* (comment-only lines may stand at any column) *)
Definition block_guard (lines : list text) (start : nat) : bool :=
  (start <? length lines)%nat && forallb plain_ws lines && uniform_indent lines
  && py_logical (nth start lines []).
