(* Lexical layer of Reduino's transpiler (src/Reduino/transpile/parser.py), modelled
   as it is - including its defects.  Lines are [list text]; a text is a list of code points.

     _indent_of               parser.py:1454     indent_of
     _strip_inline_comment    parser.py:1257     strip_inline_comment
     _collect_block           parser.py:1465     collect_block  (take_block on the suffix)
     _collect_if_structure    parser.py:1492     collect_if_structure
     _collect_try_structure   parser.py:1515     collect_try_structure
     _parse_simple_lines      parser.py:2326ff   parse_m (lexical skeleton only: which lines form
                                                 which block; headers and the elif/else/except
                                                 probes classified on the comment-stripped line)
     parse()                  parser.py:4213ff   top_parse (target(...) lines and the import filter first;
                                                 headers classified on the comment-stripped line,
                                                 while True / while / def / for only at indentation 0)

   State of the code: with the repair "fix: comments never change the block structure the parser
   sees" (comment-only lines are treated like blank lines by _collect_block; parse() and the
   elif/else/except probes look at _strip_inline_comment(raw).strip()).

   No proofs in this file. *)
From Coq Require Import ZArith List Bool Lia.
From RV Require Import Base.Wire Base.Text Lang.Rx.
Import ListNotations.
Open Scope Z_scope.

(* ---------------------------------------------------------------- characters *)

(* str.isspace() / regex \s of CPython 3.12 (measured: the two sets coincide) *)
Definition is_space (c : Z) : bool :=
  ((9 <=? c) && (c <=? 13)) || ((28 <=? c) && (c <=? 32)) || (c =? 133) || (c =? 160)
  || (c =? 5760) || ((8192 <=? c) && (c <=? 8202)) || (c =? 8232) || (c =? 8233)
  || (c =? 8239) || (c =? 8287) || (c =? 12288).

(* regex \w restricted to ASCII (non-ASCII identifier characters are outside the model) *)
Definition is_word (c : Z) : bool :=
  ((48 <=? c) && (c <=? 57)) || ((65 <=? c) && (c <=? 90)) || (c =? 95) || ((97 <=? c) && (c <=? 122)).
Definition is_ident_start (c : Z) : bool :=
  ((65 <=? c) && (c <=? 90)) || (c =? 95) || ((97 <=? c) && (c <=? 122)).

Definition ch_space := 32.  Definition ch_tab := 9.   Definition ch_hash := 35.
Definition ch_squote := 39. Definition ch_dquote := 34. Definition ch_bslash := 92.
Definition ch_colon := 58.  Definition ch_lpar := 40.  Definition ch_rpar := 41.
Definition ch_dot := 46.

(* ---------------------------------------------------------------- str.strip *)

Fixpoint lstrip (t : text) : text :=
  match t with
  | [] => []
  | c :: r => if is_space c then lstrip r else t
  end.

Definition is_nil {A} (l : list A) : bool := match l with [] => true | _ => false end.

Fixpoint rstrip (t : text) : text :=
  match t with
  | [] => []
  | c :: r => let r' := rstrip r in
              if is_space c && is_nil r' then [] else c :: r'
  end.

Definition strip (t : text) : text := rstrip (lstrip t).

(* `not line.strip()` *)
Definition is_blank (t : text) : bool := forallb is_space t.

(* ---------------------------------------------------------------- _indent_of *)

Fixpoint indent_of (t : text) : nat :=
  match t with
  | [] => O
  | c :: r => if c =? ch_space then S (indent_of r)
              else if c =? ch_tab then (4 + indent_of r)%nat
              else O
  end.

(* ---------------------------------------------------------------- _strip_inline_comment *)

(* the loop of _strip_inline_comment with its three flags; Some p = a '#' was found outside
   the quote flags, p = text[:index] *)
Fixpoint sic_cut (in_single in_double escaped : bool) (t : text) : option text :=
  match t with
  | [] => None
  | c :: r =>
    if escaped then option_map (cons c) (sic_cut in_single in_double false r)
    else if c =? ch_bslash then option_map (cons c) (sic_cut in_single in_double true r)
    else if (c =? ch_squote) && negb in_double then option_map (cons c) (sic_cut (negb in_single) in_double false r)
    else if (c =? ch_dquote) && negb in_single then option_map (cons c) (sic_cut in_single (negb in_double) false r)
    else if (c =? ch_hash) && negb in_single && negb in_double then Some []
    else option_map (cons c) (sic_cut in_single in_double false r)
  end.

Definition strip_inline_comment (t : text) : text :=
  match sic_cut false false false t with
  | Some p => rstrip p
  | None => t
  end.

(* ---------------------------------------------------------------- _collect_block *)

Definition starts_hash (t : text) : bool := match t with c :: _ => c =? ch_hash | [] => false end.
(* `lines[i].lstrip().startswith('#')` *)
Definition comment_only (l : text) : bool := starts_hash (lstrip l).
(* `not lines[i].strip() or lines[i].lstrip().startswith('#')`: blank or comment-only *)
Definition junk (l : text) : bool := is_blank l || comment_only l.

(* the while loop of _collect_block on the suffix lines[start+1:] *)
Fixpoint take_block (base : nat) (ls : list text) : list text :=
  match ls with
  | [] => []
  | l :: r => if junk l then l :: take_block base r
              else if (indent_of l <=? base)%nat then []
              else l :: take_block base r
  end.

Definition collect_block (lines : list text) (start : nat) : list text * nat :=
  let blk := take_block (indent_of (nth start lines [])) (skipn (S start) lines) in
  (blk, (S start + length blk)%nat).

(* ---------------------------------------------------------------- header regexes *)
(* every regex below is applied by the code to stripped text (raw.strip() or
   _strip_inline_comment(raw).strip()); only match / no match is modelled. *)

Fixpoint drop_prefix (p t : text) : option text :=
  match p, t with
  | [], _ => Some t
  | a :: p', b :: t' => if a =? b then drop_prefix p' t' else None
  | _, [] => None
  end.

Definition last_char (t : text) : option Z :=
  match rev t with c :: _ => Some c | [] => None end.

(* \s+ : at least one blank, then the rest with leading blanks removed *)
Definition ws1 (t : text) : option text :=
  match t with
  | c :: r => if is_space c then Some (lstrip r) else None
  | [] => None
  end.

Fixpoint skip_word (t : text) : text :=
  match t with
  | c :: r => if is_word c then skip_word r else t
  | [] => []
  end.
Fixpoint skip_word_dot (t : text) : text :=
  match t with
  | c :: r => if is_word c || (c =? ch_dot) then skip_word_dot r else t
  | [] => []
  end.
(* an identifier (maximal munch; what follows in every use is not a word character) *)
Definition ident (t : text) : option text :=
  match t with
  | c :: r => if is_ident_start c then Some (skip_word r) else None
  | [] => None
  end.
Definition ident_dot (t : text) : option text :=
  match t with
  | c :: r => if is_ident_start c then Some (skip_word_dot r) else None
  | [] => None
  end.

Definition kw_if := [105;102].                      Definition kw_elif := [101;108;105;102].
Definition kw_else := [101;108;115;101].            Definition kw_try := [116;114;121].
Definition kw_except := [101;120;99;101;112;116].   Definition kw_while := [119;104;105;108;101].
Definition kw_True := [84;114;117;101].             Definition kw_for := [102;111;114].
Definition kw_in := [105;110].                      Definition kw_range_lpar := [114;97;110;103;101;40].
Definition kw_def := [100;101;102].                 Definition kw_as := [97;115].

(* RE_IF / RE_ELIF / RE_WHILE (kw, blanks, a non-empty condition, blanks, ':') on stripped text:
   kw, a blank, at least one more character, final ':' *)
Definition re_kw_cond (kw t : text) : bool :=
  match drop_prefix kw t with
  | Some (w :: r) => is_space w && (2 <=? length r)%nat
                     && match last_char r with Some c => c =? ch_colon | None => false end
  | _ => false
  end.
(* RE_ELSE / RE_TRY: kw, optional blanks, ':' *)
Definition re_kw_colon (kw t : text) : bool :=
  match drop_prefix kw t with
  | Some r => match lstrip r with [c] => c =? ch_colon | _ => false end
  | None => false
  end.

Definition re_if := re_kw_cond kw_if.
Definition re_elif := re_kw_cond kw_elif.
Definition re_while := re_kw_cond kw_while.
Definition re_else := re_kw_colon kw_else.
Definition re_try := re_kw_colon kw_try.

(* RE_WHILE_TRUE: while, blanks, True, optional blanks, ':' *)
Definition re_while_true (t : text) : bool :=
  match drop_prefix kw_while t with
  | Some r => match ws1 r with
              | Some r1 => match drop_prefix kw_True r1 with
                           | Some r2 => match lstrip r2 with [c] => c =? ch_colon | _ => false end
                           | None => false
                           end
              | None => false
              end
  | None => false
  end.

(* the tail of RE_FOR_RANGE / RE_DEF (anything, ')', blanks, ':'): the text ends with ')' blanks ':' *)
Definition ends_rpar_colon (t : text) : bool :=
  match rev t with
  | c :: q => (c =? ch_colon) && match lstrip q with d :: _ => d =? ch_rpar | [] => false end
  | [] => false
  end.

(* RE_FOR_RANGE: for, blanks, identifier, blanks, in, blanks, 'range(' anything ')' blanks ':' *)
Definition re_for_range (t : text) : bool :=
  match drop_prefix kw_for t with
  | Some r => match ws1 r with
    | Some r1 => match ident r1 with
      | Some r2 => match ws1 r2 with
        | Some r3 => match drop_prefix kw_in r3 with
          | Some r4 => match ws1 r4 with
            | Some r5 => match drop_prefix kw_range_lpar r5 with
              | Some r6 => ends_rpar_colon r6
              | None => false end
            | None => false end
          | None => false end
        | None => false end
      | None => false end
    | None => false end
  | None => false
  end.

(* RE_DEF: def, blanks, identifier, optional blanks, '(' anything ')' blanks ':' *)
Definition re_def (t : text) : bool :=
  match drop_prefix kw_def t with
  | Some r => match ws1 r with
    | Some r1 => match ident r1 with
      | Some r2 => match lstrip r2 with
        | c :: r3 => (c =? ch_lpar) && ends_rpar_colon r3
        | [] => false end
      | None => false end
    | None => false end
  | None => false
  end.

(* RE_EXCEPT: except [blanks dotted-name] [blanks as blanks identifier] blanks ':' *)
Definition colon_end (t : text) : bool :=
  match lstrip t with [c] => c =? ch_colon | _ => false end.
Definition opt_as (t : text) : bool :=
  colon_end t ||
  match ws1 t with
  | Some r => match drop_prefix kw_as r with
    | Some r1 => match ws1 r1 with
      | Some r2 => match ident r2 with Some r3 => colon_end r3 | None => false end
      | None => false end
    | None => false end
  | None => false
  end.
Definition re_except (t : text) : bool :=
  match drop_prefix kw_except t with
  | Some r => opt_as r ||
              match ws1 r with
              | Some r1 => match ident_dot r1 with Some r2 => opt_as r2 | None => false end
              | None => false
              end
  | None => false
  end.

(* ---------------------------------------------------------------- _collect_if/try_structure *)

(* the block loop and the probing loop fused into one pass over lines[start+1:]:
   in_block = we are inside _collect_block of the current branch (else in the probing loop, which
   looks at _strip_inline_comment(raw).strip()).  [re] decides which stripped lines continue the
   structure (elif/else, or except). *)
Fixpoint struct_scan (re : text -> bool) (base : nat) (in_block : bool) (ls : list text) : list text :=
  match ls with
  | [] => []
  | l :: r =>
    if in_block && junk l then l :: struct_scan re base true r
    else if in_block && negb (indent_of l <=? base)%nat then l :: struct_scan re base true r
    else
      let t := strip (strip_inline_comment l) in
      if is_nil t then l :: struct_scan re base false r
      else if negb (indent_of l =? base)%nat then []
      else if re t then l :: struct_scan re base true r
      else []
  end.

Definition collect_structure (re : text -> bool) (lines : list text) (start : nat) : list text * nat :=
  let hd := nth start lines [] in
  let sn := struct_scan re (indent_of hd) true (skipn (S start) lines) in
  (hd :: sn, (S start + length sn)%nat).

Definition re_elif_or_else (t : text) : bool := re_elif t || re_else t.
Definition collect_if_structure := collect_structure re_elif_or_else.
Definition collect_try_structure := collect_structure re_except.

(* ---------------------------------------------------------------- _parse_simple_lines, lexical skeleton *)

Inductive hkind := KIf | KElif | KElse | KTry | KExcept | KWhile | KFor.

(* which comment-stripped, stripped lines open a block in _parse_simple_lines
   (order of the dispatch chain: if, try, while, for-range; the earlier branches -
   imports, break, return, target, declarations, ast assignment - never take a line of
   these shapes, except lines containing a target(...) call, which are outside the model) *)
Definition classify (s : text) : option hkind :=
  if re_if s then Some KIf
  else if re_try s then Some KTry
  else if re_while s then Some KWhile
  else if re_for_range s then Some KFor
  else None.

Inductive node :=
| NLeaf (s : text)                                           (* handed to the statement dispatch chain *)
| NBlock (k : hkind) (hdr : text) (raw : list text) (body : list node).
                                                             (* raw = the block passed to the recursive call *)

Inductive pmode := MMain | MIf (base : nat) | MTry (base : nat).

Inductive probe_res := PSkip | PBranch (k : hkind) (next : pmode) | PNone.

(* the elif/else (resp. except) probing loops that follow an if (resp. try) block; they look
   at t = _strip_inline_comment(raw).strip() *)
Definition probe (m : pmode) (raw t : text) : probe_res :=
  match m with
  | MMain => PNone
  | MIf base =>
      if is_nil t then PSkip
      else if negb (indent_of raw =? base)%nat then PNone
      else if re_elif t then PBranch KElif (MIf base)
      else if re_else t then PBranch KElse MMain
      else PNone
  | MTry base =>
      if is_nil t then PSkip
      else if negb (indent_of raw =? base)%nat then PNone
      else if re_except t then PBranch KExcept (MTry base)
      else PNone
  end.

Definition mode_after (k : hkind) (base : nat) : pmode :=
  match k with KIf => MIf base | KTry => MTry base | _ => MMain end.

(* fuel is consumed only when a block is entered / left (at most once per line) *)
Fixpoint parse_m (fuel : nat) : pmode -> list text -> list node :=
  match fuel with
  | O => fun _ _ => []
  | S f =>
    fix go (m : pmode) (ls : list text) {struct ls} : list node :=
      match ls with
      | [] => []
      | raw :: rest =>
        let s := strip (strip_inline_comment raw) in
        match probe m raw s with
        | PSkip => go m rest
        | PBranch k next =>
            let blk := take_block (indent_of raw) rest in
            NBlock k s blk (parse_m f MMain blk) :: parse_m f next (skipn (length blk) rest)
        | PNone =>
            if is_nil s || starts_hash s then go MMain rest
            else match classify s with
                 | Some k =>
                     let blk := take_block (indent_of raw) rest in
                     NBlock k s blk (parse_m f MMain blk)
                       :: parse_m f (mode_after k (indent_of raw)) (skipn (length blk) rest)
                 | None => NLeaf s :: go MMain rest
                 end
        end
      end
  end.

Definition parse_lines (ls : list text) : list node := parse_m (S (length ls)) MMain ls.

(* ---------------------------------------------------------------- parse(), lexical skeleton *)

(* str.split() *)
Fixpoint split_ws_aux (cur : text) (t : text) : list text :=
  match t with
  | [] => if is_nil cur then [] else [rev cur]
  | c :: r => if is_space c then (if is_nil cur then split_ws_aux [] r else rev cur :: split_ws_aux [] r)
              else split_ws_aux (c :: cur) r
  end.
Definition split_ws (t : text) : list text := split_ws_aux [] t.

Definition w_from := [102;114;111;109].  Definition w_import := [105;109;112;111;114;116].
Definition w_Reduino := [82;101;100;117;105;110;111].
Definition w_R_Actuators := w_Reduino ++ [46;65;99;116;117;97;116;111;114;115].
Definition w_R_Utils := w_Reduino ++ [46;85;116;105;108;115].
Definition w_R_Communication := w_Reduino ++ [46;67;111;109;109;117;110;105;99;97;116;105;111;110].
Definition w_R_Core := w_Reduino ++ [46;67;111;114;101].
Definition w_R_Sensors := w_Reduino ++ [46;83;101;110;115;111;114;115].
Definition w_Led := [76;101;100].  Definition w_sleep := [115;108;101;101;112].
Definition w_SerialMonitor := [83;101;114;105;97;108;77;111;110;105;116;111;114].
Definition w_target := [116;97;114;103;101;116].
Definition w_Ultrasonic := [85;108;116;114;97;115;111;110;105;99].
Definition w_Button := [66;117;116;116;111;110].
Definition w_Potentiometer := [80;111;116;101;110;116;105;111;109;101;116;101;114].

(* RE_IMPORT_ANY = ^\s*(?:import|from\s+\S+\s+import)\s+[^\s;][^;]*$ on stripped text: what _import_end asks, hence
   what parse() skips at top level since "fix: reject statements the transpiler cannot translate instead of dropping
   them" (before: eight patterns for particular Reduino imports).  No `;` after the keyword(s): a second statement
   cannot hide behind an import.  An import whose parenthesised list of names continues on the following lines is
   outside the layouts of the theorems (one physical line per statement). *)
Definition has_semi (t : text) : bool := existsb (fun c => c =? 59) t.
Definition top_import (t : text) : bool :=
  match split_ws t with
  | a :: rest =>
      (text_eqb a w_import && match rest with [] => false | _ => negb (existsb has_semi rest) end)
      || (text_eqb a w_from &&
          match rest with
          | _ :: b :: n :: names => text_eqb b w_import && negb (existsb has_semi (n :: names))
          | _ => false
          end)
  | _ => false
  end.

(* RE_TARGET_CALL and RE_TARGET_INLINE (without its prefix (?<!\.)\b, which rx_search_nb implements),
   written in the regex type of Lang/Rx.v.  Props/C07.v holds the obligation that the patterns
   regenerated from the current parser.py (Gen.LineRx) are these two terms. *)
Definition cc_quote : cc := CC false [IRange 39 39; IRange 34 34].
Definition cc_port : cc :=
  CC false [IRange 65 90; IRange 97 122; IRange 48 57; IRange 58 58; IRange 95 95; IRange 45 45;
            IRange 46 46; IRange 47 47; IRange 92 92; IRange 126 126].
Definition rx_target_args : list rx :=
  [RStar rsp; lit 40; RStar rsp;
   ropt (cat_list [lit 112; lit 111; lit 114; lit 116; RStar rsp; lit 61; RStar rsp]);
   ropt (RC cc_quote); RStar rsp; rplus (RC cc_port); RStar rsp; ropt (RC cc_quote);
   ropt (cat_list [RStar rsp; lit 44; RStar (RC (CC true [IRange 41 41]))]); lit 41].
Definition rx_target_call : rx := cat_list (RStar rsp :: lits w_target ++ rx_target_args ++ [RStar rsp]).
Definition rx_target_inline_body : rx := cat_list (lits w_target ++ rx_target_args).

(* `RE_TARGET_CALL.match(text)` or `list(RE_TARGET_INLINE.finditer(text))` non-empty: parse() records the
   port and skips the line *)
Definition top_target (t : text) : bool :=
  rx_match rx_target_call t || rx_search_nb rx_target_inline_body None t.

Inductive titem :=
| TSetup (snippet : list text) (nodes : list node)      (* _parse_simple_lines(snippet, scope="setup", depth=0) *)
| TLoop (raw : list text) (nodes : list node)           (* body of the column-0 `while True:` *)
| TDef (hdr : text) (raw : list text) (nodes : list node).

Fixpoint top_parse (fuel : nat) (ls : list text) : list titem :=
  match fuel with
  | O => []
  | S f =>
    match ls with
    | [] => []
    | raw :: rest =>
      let t := strip (strip_inline_comment raw) in
      if is_nil t || starts_hash t then top_parse f rest
      else if top_target t then top_parse f rest
      else if top_import t then top_parse f rest
      else if (indent_of raw =? 0)%nat && re_while_true t then
        let blk := take_block O rest in
        TLoop blk (parse_lines blk) :: top_parse f (skipn (length blk) rest)
      else if (indent_of raw =? 0)%nat && re_while t then
        let blk := take_block O rest in
        TSetup (raw :: blk) (parse_lines (raw :: blk)) :: top_parse f (skipn (length blk) rest)
      else if (indent_of raw =? 0)%nat && re_def t then
        let blk := take_block O rest in
        TDef t blk (parse_lines blk) :: top_parse f (skipn (length blk) rest)
      else if (indent_of raw =? 0)%nat && re_for_range t then
        let blk := take_block O rest in
        TSetup (raw :: blk) (parse_lines (raw :: blk)) :: top_parse f (skipn (length blk) rest)
      else if re_if t then
        let sn := struct_scan re_elif_or_else (indent_of raw) true rest in
        TSetup (raw :: sn) (parse_lines (raw :: sn)) :: top_parse f (skipn (length sn) rest)
      else if re_try t then
        let sn := struct_scan re_except (indent_of raw) true rest in
        TSetup (raw :: sn) (parse_lines (raw :: sn)) :: top_parse f (skipn (length sn) rest)
      else TSetup [raw] (parse_lines [raw]) :: top_parse f rest
    end
  end.

Definition parse_top (ls : list text) : list titem := top_parse (S (length ls)) ls.

(* ---------------------------------------------------------------- call trace (what the tie observes) *)
(* every call of _parse_simple_lines in call order: (scope, depth, snippet);
   scope 0 = setup, 1 = loop, 2 = function *)
Fixpoint calls_nodes (fuel : nat) (scope : Z) (depth : nat) (ns : list node) : list (Z * nat * list text) :=
  match fuel with
  | O => []
  | S f =>
    flat_map (fun n => match n with
                       | NLeaf _ => []
                       | NBlock _ _ raw body => (scope, depth, raw) :: calls_nodes f scope (S depth) body
                       end) ns
  end.

Definition calls_item (fuel : nat) (it : titem) : list (Z * nat * list text) :=
  match it with
  | TSetup sn ns => (0, O, sn) :: calls_nodes fuel 0 1%nat ns
  | TLoop raw ns => (1, 1%nat, raw) :: calls_nodes fuel 1 2%nat ns
  | TDef _ raw ns => (2, 1%nat, raw) :: calls_nodes fuel 2 2%nat ns
  end.

Definition call_trace (ls : list text) : list (Z * nat * list text) :=
  flat_map (calls_item (S (length ls))) (parse_top ls).

(* ---------------------------------------------------------------- block tree without the raw lines *)
Inductive stree := SLeaf (s : text) | SBlock (k : hkind) (hdr : text) (body : list stree).

Fixpoint erase (n : node) : stree :=
  match n with
  | NLeaf s => SLeaf s
  | NBlock k h _ body => SBlock k h (map erase body)
  end.

Inductive sitem := SSetup (nodes : list stree) | SLoop (nodes : list stree) | SDef (hdr : text) (nodes : list stree).
Definition erase_item (it : titem) : sitem :=
  match it with
  | TSetup _ ns => SSetup (map erase ns)
  | TLoop _ ns => SLoop (map erase ns)
  | TDef h _ ns => SDef h (map erase ns)
  end.
