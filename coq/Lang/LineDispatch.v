(* The dispatch loop of _parse_simple_lines (parser.py) for ONE comment-stripped, stripped line:
   which recogniser is tried in which order and which handler takes the line.  The recognisers
   are the RE_* patterns themselves (coq/Gen/LineRx.v, regenerated from the compiled patterns) run
   by the engine of Lang/Rx.v; the order of the steps and the `if name in <device set>` guards are
   read from the source of the loop by the same translator (Gen.LineRx.chain).

   Python's own `ast` decides one step (_handle_assignment_ast takes the line or returns None): it
   enters as the boolean [asg].  No proofs in this file. *)
From Coq Require Import ZArith List Bool.
From RV Require Import Base.Wire Base.Text Lang.Rx.
Import ListNotations.
Open Scope Z_scope.

Inductive step :=
| StImports (rs : list (Z * rx))                    (* if RE_A.match(line) or RE_B.match(line) ...: continue *)
| StEq (t : text)                                   (* if line == "...": ... continue *)
| StPrefix (t : text)                               (* if line.startswith("..."): ... continue *)
| StRx (id : Z) (r : rx) (guard : option nat)       (* m = RE.match(line); if m: [if m.group(1) in set:] ... continue - see above *)
| StSearch (id : Z) (body : rx)                     (* if list(RE.finditer(line)): ... continue *)
| StAssign                                          (* _handle_assignment_ast(line, ...) is not None *)
| StTail.                                           (* expression statement / print / unknown *)

(* which branch of the loop takes the line *)
Inductive handler :=
| HImport (id : Z) | HEq (t : text) | HPrefix (t : text) | HRx (id : Z) | HSearch (id : Z) | HAssign | HTail.

(* m.group(1) of the guarded patterns (they start with blanks and an identifier group): the identifier the line starts with *)
Fixpoint take_word (t : text) : text :=
  match t with
  | c :: r => if rx_word c then c :: take_word r else []
  | [] => []
  end.
Fixpoint drop_space (t : text) : text :=
  match t with
  | c :: r => if rx_space c then drop_space r else t
  | [] => []
  end.
Definition lead_ident (t : text) : text := take_word (drop_space t).

Fixpoint starts_with (p t : text) : bool :=
  match p, t with
  | [], _ => true
  | a :: p', b :: t' => (a =? b) && starts_with p' t'
  | _, [] => false
  end.

Definition in_set (sets : list (list text)) (g : nat) (name : text) : bool :=
  existsb (text_eqb name) (nth g sets []).

(* the `or` chain of the import filter: patterns tried until the first match *)
Fixpoint try_imports (rs : list (Z * rx)) (line : text) : list (Z * bool) * option Z :=
  match rs with
  | [] => ([], None)
  | (id, r) :: q =>
      if rx_match r line then ([(id, true)], Some id)
      else let '(tr, h) := try_imports q line in ((id, false) :: tr, h)
  end.

(* -> the patterns tried, in order, each with its outcome; and the handler *)
Fixpoint dispatch (chain : list step) (asg : bool) (sets : list (list text)) (line : text)
  : list (Z * bool) * handler :=
  match chain with
  | [] => ([], HTail)
  | st :: rest =>
    let continue_ := dispatch rest asg sets line in
    match st with
    | StImports rs =>
        match try_imports rs line with
        | (tr, Some id) => (tr, HImport id)
        | (tr, None) => (tr ++ fst continue_, snd continue_)
        end
    | StEq t => if text_eqb line t then ([], HEq t) else continue_
    | StPrefix t => if starts_with t line then ([], HPrefix t) else continue_
    | StRx id r g =>
        if rx_match r line then
          match g with
          | None => ([(id, true)], HRx id)
          | Some k => if in_set sets k (lead_ident line) then ([(id, true)], HRx id)
                      else ((id, true) :: fst continue_, snd continue_)
          end
        else ((id, false) :: fst continue_, snd continue_)
    | StSearch id body =>
        if rx_search_nb body None line then ([(id, true)], HSearch id)
        else ((id, false) :: fst continue_, snd continue_)
    | StAssign => if asg then ([], HAssign) else continue_
    | StTail => ([], HTail)
    end
  end.

(* ---------------------------------------------------------------- comparing chains (for the pinned order) *)
Definition opt_nat_eqb (a b : option nat) : bool :=
  match a, b with Some x, Some y => Nat.eqb x y | None, None => true | _, _ => false end.
Fixpoint imports_eqb (a b : list (Z * rx)) : bool :=
  match a, b with
  | [], [] => true
  | (i, r) :: a', (j, q) :: b' => (i =? j) && rx_eqb r q && imports_eqb a' b'
  | _, _ => false
  end.
Definition step_eqb (a b : step) : bool :=
  match a, b with
  | StImports x, StImports y => imports_eqb x y
  | StEq x, StEq y => text_eqb x y
  | StPrefix x, StPrefix y => text_eqb x y
  | StRx i r g, StRx j q h => (i =? j) && rx_eqb r q && opt_nat_eqb g h
  | StSearch i r, StSearch j q => (i =? j) && rx_eqb r q
  | StAssign, StAssign => true
  | StTail, StTail => true
  | _, _ => false
  end.
Fixpoint chain_eqb (a b : list step) : bool :=
  match a, b with
  | [], [] => true
  | x :: a', y :: b' => step_eqb x y && chain_eqb a' b'
  | _, _ => false
  end.

(* the pattern of an id in a table *)
Fixpoint rx_of (tbl : list (Z * rx)) (id : Z) : rx :=
  match tbl with [] => RNil | (i, r) :: q => if i =? id then r else rx_of q id end.

(* ---------------------------------------------------------------- the end of the loop (HTail) *)
(* what happens to a line that no recogniser took.  Python's `ast` decides whether the line is an expression
   ([isexpr], computed by the harness like [asg]); an expression is handled by the expression branch (print and
   the host-side SerialMonitor calls are skipped, anything _to_c_expr refuses raises when [Gen.LineRx.
   tail_expr_failure_rejects]).  Anything else: a line of the list [eqs] or matched by a pattern of [rxs] has no
   meaning on the device and is skipped; then, if [rejects], ValueError("unsupported statement") - else (the
   parser before the repair) the line is dropped. *)
Inductive tail_class := TExpr | TBenign | TReject | TDropped.
Definition tail_benign (eqs : list text) (rxs : list (Z * rx)) (line : text) : bool :=
  existsb (text_eqb line) eqs || existsb (fun p => rx_match (snd p) line) rxs.
Definition tail_class_of (eqs : list text) (rxs : list (Z * rx)) (rejects isexpr : bool) (line : text) : tail_class :=
  if isexpr then TExpr
  else if tail_benign eqs rxs line then TBenign
  else if rejects then TReject else TDropped.
Definition tail_class_id (c : tail_class) : Z :=
  match c with TExpr => 0 | TBenign => 1 | TReject => 2 | TDropped => 3 end.
(* the patterns the tail tries (an `or` chain after the comparisons: first match wins), for the trace correspondence *)
Definition tail_trace (eqs : list text) (rxs : list (Z * rx)) (isexpr : bool) (line : text) : list (Z * bool) :=
  if isexpr then [] else if existsb (text_eqb line) eqs then [] else fst (try_imports rxs line).
