(* The four shapes 60 of the RE_* statement patterns of parser.py have, written once in the regex
   type of Lang/Rx.v (Proofs/LineShapesP.v holds the obligation that each regenerated pattern IS its
   shape instance), and the SPEC side of the spacing theorems: a statement as its token sequence
   with the optional white space Python's tokenizer allows between tokens ([gap]s of blanks and tabs).

     method0  blanks IDENT blanks .METH( blanks ) blanks               led.on()      (9 patterns)
     method   blanks IDENT blanks .METH( blanks anything blanks ) blanks   led.blink(5)  (29 patterns)
     decl     blanks IDENT blanks = blanks CLS blanks ( blanks anything blanks ) blanks   led = Led(13) (10 patterns)
     import   blanks from blanks1 MOD blanks1 import blanks1 NAME blanks                  (12 patterns)
     sleep    blanks sleep blanks ( blanks anything1 blanks ) blanks
   (blanks = zero or more white-space characters, blanks1 = one or more)

   No proofs in this file. *)
From Coq Require Import ZArith List Bool.
From RV Require Import Base.Wire Base.Text Lang.Rx.
Import ListNotations.
Open Scope Z_scope.

Definition cc_idstart : cc := CC false [IRange 65 90; IRange 97 122; IRange 95 95].
Definition rx_ident : list rx := [RC cc_idstart; RStar rword].

Definition sh_method0 (meth : text) : rx :=
  cat_list (RStar rsp :: rx_ident ++ [RStar rsp; lit 46] ++ lits meth ++ [lit 40; RStar rsp; lit 41; RStar rsp]).
Definition sh_method (meth : text) : rx :=
  cat_list (RStar rsp :: rx_ident ++ [RStar rsp; lit 46] ++ lits meth ++ [lit 40; RStar rsp; RStar rany; RStar rsp; lit 41; RStar rsp]).
Definition sh_decl (cls : text) : rx :=
  cat_list (RStar rsp :: rx_ident ++ [RStar rsp; lit 61; RStar rsp] ++ lits cls
            ++ [RStar rsp; lit 40; RStar rsp; RStar rany; RStar rsp; lit 41; RStar rsp]).
Definition w_from_ : text := [102;114;111;109].
Definition w_import_ : text := [105;109;112;111;114;116].
Definition sh_import (modname name : text) : rx :=
  cat_list (RStar rsp :: lits w_from_ ++ [rplus rsp] ++ lits modname ++ [rplus rsp] ++ lits w_import_ ++ [rplus rsp]
            ++ lits name ++ [RStar rsp]).
Definition w_sleep_ : text := [115;108;101;101;112].
Definition sh_sleep : rx :=
  cat_list (RStar rsp :: lits w_sleep_ ++ [RStar rsp; lit 40; RStar rsp; rplus rany; RStar rsp; lit 41; RStar rsp]).

(* ---------------------------------------------------------------- SPEC: tokens and the gaps between them *)
(* white space Python's tokenizer skips between two tokens of one logical line *)
Definition gap (g : text) : bool := forallb (fun c => (c =? 32) || (c =? 9) || (c =? 12)) g.
Definition is_ident (n : text) : bool :=
  match n with c :: r => cc_mem cc_idstart c && forallb rx_word r | [] => false end.
(* argument text: anything on one line *)
Definition one_line (a : text) : bool := forallb (fun c => negb (c =? 10)) a.

(* NAME g0 . g1 METH g2 ( g3 ) *)
Definition line_call0 (name meth g0 g1 g2 g3 : text) : text :=
  name ++ (g0 ++ [46]) ++ g1 ++ meth ++ g2 ++ 40 :: g3 ++ [41].
(* NAME g0 . g1 METH g2 ( g3 ARGS g4 ) *)
Definition line_call (name meth args g0 g1 g2 g3 g4 : text) : text :=
  name ++ (g0 ++ [46]) ++ g1 ++ meth ++ g2 ++ 40 :: g3 ++ args ++ g4 ++ [41].
(* NAME g0 = g1 CLS g2 ( g3 ARGS g4 ) *)
Definition line_decl (name cls args g0 g1 g2 g3 g4 : text) : text :=
  name ++ (g0 ++ 61 :: g1) ++ cls ++ g2 ++ 40 :: g3 ++ args ++ g4 ++ [41].
(* sleep g0 ( g1 ARGS g2 ) *)
Definition line_sleep (args g0 g1 g2 : text) : text :=
  w_sleep_ ++ g0 ++ 40 :: g1 ++ args ++ g2 ++ [41].
