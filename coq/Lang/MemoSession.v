(* C10 - statelessness of the emitter's literal helpers under MEMOISATION.  Model only: no proofs here.

   emitter.py renders numbers that the IR carries as Python values (not yet C text) through two small pure helpers:

     _emit_duration_ms(indent, var, value)   isinstance(value, (int, float)):
                                                 "<indent>unsigned long <var> = static_cast<unsigned long>(<str(max(value, 0))>);"
                                             else (value is C expression text): the two-line `auto <var>_arg = (<value>); ...` form
     _format_float(value)                    f"{float(value):.6f}" without trailing zeros, at least one decimal, suffix f

   The code as it is calls them directly.  A process-wide memo table in front of such a helper (functools.lru_cache, a module-level
   dict) is invisible exactly when two calls that the TABLE identifies have the same result.  The table identifies keys by Python's
   == / hash: 100 == 100.0 == True + 99 and 1 == 1.0 == True, while str() tells them apart - so a cache in front of
   _emit_duration_ms makes the text of a script depend on which script was transpiled before it ([py_keq], witness
   Buzzer.beep() - the defaulted on_ms is the int 100 - against beep(440, 100, 100) - the parser yields the float 100.0), whereas one
   in front of _format_float is harmless (float(value) forgets the type).  [session] threads the table through a sequence of
   programs (a program = the helper calls its emission makes); [cached] says which calls go through the table - for the current
   source it is read off the regenerated inventory (Gen/SetSites.v [cache_sites]: no cache decorator at all).

   Floats are exact rationals; IEEE specials (-0.0, nan, inf) are outside the model. *)
From Coq Require Import ZArith QArith Qround List Bool String.
From RV Require Import Base.Wire Base.Text Base.Num Lang.Order.
Import ListNotations.
Open Scope Z_scope.

(* a value the IR may carry where a duration / frequency is expected *)
Inductive pval := VI (n : Z) | VF (q : Q) | VB (b : bool) | VS (s : text).

Definition num_of (v : pval) : option Q :=
  match v with
  | VI n => Some (inject_Z n)
  | VF q => Some q
  | VB b => Some (inject_Z (if b then 1 else 0))
  | VS _ => None
  end.

(* Python's == between two such values (their hashes agree whenever it holds): the numeric tower compares by value, str with str *)
Definition py_eqb (a b : pval) : bool :=
  match a, b with
  | VS s, VS t => text_eqb s t
  | VS _, _ | _, VS _ => false
  | _, _ => match num_of a, num_of b with Some x, Some y => Qeq_bool x y | _, _ => false end
  end.

Definition same_type (a b : pval) : bool :=
  match a, b with
  | VI _, VI _ | VF _, VF _ | VB _, VB _ | VS _, VS _ => true
  | _, _ => false
  end.

(* lru_cache(typed=True): the argument types are part of the key *)
Definition typed_eqb (a b : pval) : bool := same_type a b && py_eqb a b.

(* the printed value depends on a float only through its value *)
Definition norm (v : pval) : pval := match v with VF q => VF (Qred q) | _ => v end.

(* max(value, 0): the int 0 exactly when 0 > value, else value itself (type kept) *)
Definition clamp0 (v : pval) : pval :=
  match num_of v with
  | Some x => if Qle_bool 0 x then norm v else VI 0
  | None => v
  end.

Inductive hcall :=
| CDur (indent var : text) (v : pval)     (* _emit_duration_ms(indent, var, v) *)
| CFmt (v : pval).                        (* _format_float(v) *)

Inductive hout :=
| ODurLit (indent var : text) (v : pval)  (* one line, static_cast<unsigned long>(str(v)) *)
| ODurArg (indent var e : text)           (* the two-line run-time form for expression text e *)
| OFix (micro : Z)                        (* the float literal whose value is micro / 10^6 *)
| ORaise.                                 (* float("x + 1"): ValueError *)

(* what the helpers compute *)
Definition spec (c : hcall) : hout :=
  match c with
  | CDur i x (VS e) => ODurArg i x e
  | CDur i x v => ODurLit i x (clamp0 v)
  | CFmt v => match num_of v with Some q => OFix (Num.py_round (q * inject_Z 1000000)) | None => ORaise end
  end.

(* how a memo table identifies two calls: never across helpers (one table per function), argument tuples component-wise *)
Definition keq_with (veq : pval -> pval -> bool) (a b : hcall) : bool :=
  match a, b with
  | CDur i x v, CDur j y w => text_eqb i j && text_eqb x y && veq v w
  | CFmt v, CFmt w => veq v w
  | _, _ => false
  end.

Definition py_keq : hcall -> hcall -> bool := keq_with py_eqb.        (* lru_cache() *)
Definition typed_keq : hcall -> hcall -> bool := keq_with typed_eqb.  (* lru_cache(typed=True) *)

Definition table := list (hcall * hout).

Section Memo.
  Variable keq : hcall -> hcall -> bool.
  Variable cached : hcall -> bool.                 (* does this call go through a memo table? *)
  (* what the table keeps after a hit / after inserting a miss (LRU reordering, eviction under maxsize ...): any policy *)
  Variable after_hit after_miss : table -> table.

  Fixpoint lookup (k : hcall) (t : table) : option hout :=
    match t with
    | [] => None
    | (k', v) :: r => if keq k k' then Some v else lookup k r
    end.

  Definition call (t : table) (k : hcall) : hout * table :=
    if cached k then
      match lookup k t with
      | Some v => (v, after_hit t)
      | None => (spec k, after_miss ((k, spec k) :: t))
      end
    else (spec k, t).

  (* one program: the helper calls of its emission, in order *)
  Fixpoint run_prog (t : table) (p : list hcall) : list hout * table :=
    match p with
    | [] => ([], t)
    | k :: r => let '(v, t1) := call t k in let '(vs, t2) := run_prog t1 r in (v :: vs, t2)
    end.

  (* programs emitted one after the other in one process *)
  Fixpoint session (t : table) (ps : list (list hcall)) : list (list hout) :=
    match ps with
    | [] => []
    | p :: r => let '(o, t1) := run_prog t p in o :: session t1 r
    end.

  (* the table cannot be seen: calls it identifies have one result *)
  Definition key_refines : Prop := forall a b, cached a = true -> keq a b = true -> spec a = spec b.
  (* every entry is a true result; the policies invent nothing *)
  Definition table_ok (t : table) : Prop := forall k v, In (k, v) t -> v = spec k.
  Definition policy_ok (f : table -> table) : Prop := forall t e, In e (f t) -> In e t.
End Memo.

Definition keep (t : table) : table := t.          (* lru_cache(maxsize=None) *)

(* ---------------------------------------------------------------- the witnesses *)
Definition ind4 : text := txt "    "%string.
Definition v_on_ms : text := txt "__redu_on_ms"%string.
Definition beep_default : hcall := CDur ind4 v_on_ms (VI 100).            (* bz.beep(): on_ms defaults to the int 100 *)
Definition beep_explicit : hcall := CDur ind4 v_on_ms (VF (100 # 1)).     (* bz.beep(440, 100, 100): the parser yields 100.0 *)

Definition cache_all (_ : hcall) : bool := true.
Definition cache_fmt (c : hcall) : bool := match c with CFmt _ => true | _ => false end.
Definition cache_none (_ : hcall) : bool := false.

(* ---------------------------------------------------------------- the current source *)
(* names of the helpers, as the inventory lists them *)
Definition helper_name (c : hcall) : text :=
  match c with
  | CDur _ _ _ => [95;101;109;105;116;95;100;117;114;97;116;105;111;110;95;109;115]      (* _emit_duration_ms (code points: this definition is extracted) *)
  | CFmt _ => [95;102;111;114;109;97;116;95;102;108;111;97;116]                      (* _format_float *)
  end.
