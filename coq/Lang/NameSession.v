(* The whitelist of foldable builtin names across parse() calls of one process.

   _expr_has_name treats a Name node as "no name reference" when it is in the module-level set _SAFE_NAME_REFERENCES
   (len abs max min int float bool str): calls of those on literals are folded at transpile time.  A script may itself bind
   such a name; modelled here: a top-level def len(...) (the other binding forms are generated for the oracle only).  This file models the PROCESS: a sequence of
   parse() calls over the module-level whitelist, with one parameter - where a script's own binding of a whitelisted
   name is recorded: nowhere (what the code does: the name stays foldable), in a per-parse set, or by discarding the name
   from the module-level set.  No proofs in this file. *)
From Coq Require Import ZArith List Bool.
From RV Require Import Base.Wire Base.Text Gen.SetSites Gen.SafeCasts.
Import ListNotations.
Open Scope Z_scope.

Definition nident := text.
Definition nmem (x : nident) (l : list nident) : bool := existsb (text_eqb x) l.
Definition ndiscard (x : nident) (l : list nident) : list nident := filter (fun y => negb (text_eqb x y)) l.

Inductive nstmt :=
| NBind (f : nident)                 (* def f(...): the script defines a function named f at top level *)
| NCall (f : nident) (lit : Z).      (* m = f(<literal>) : a call of f on a literal, in a foldable position *)

Inductive nout := NFolded (f : nident) (lit : Z) | NRuntime (f : nident) (lit : Z).

Inductive shadow_mode := ShNone | ShPerParse | ShModule.

(* ns_local: names recorded as shadowed in the per-parse context; ns_wl: the module-level whitelist *)
Record nstate := mk_ns { ns_local : list nident; ns_wl : list nident }.

Definition foldable (s : nstate) (f : nident) : bool := nmem f (ns_wl s) && negb (nmem f (ns_local s)).

Definition nstep (mode : shadow_mode) (s : nstate) (st : nstmt) : nstate * list nout :=
  match st with
  | NBind f =>
      match mode with
      | ShNone => (s, [])
      | ShPerParse => (mk_ns (f :: ns_local s) (ns_wl s), [])
      | ShModule => (mk_ns (ns_local s) (ndiscard f (ns_wl s)), [])
      end
  | NCall f lit => (s, [if foldable s f then NFolded f lit else NRuntime f lit])
  end.

Fixpoint nrun (mode : shadow_mode) (s : nstate) (p : list nstmt) : nstate * list nout :=
  match p with
  | [] => (s, [])
  | st :: q => let (s1, o1) := nstep mode s st in let (s2, o2) := nrun mode s1 q in (s2, o1 ++ o2)
  end.

(* one parse()+emit() in a process whose module-level whitelist is [wl]: the per-parse context starts empty *)
Definition nparse1 (mode : shadow_mode) (wl : list nident) (p : list nstmt) : list nout * list nident :=
  let (s, o) := nrun mode (mk_ns [] wl) p in (o, ns_wl s).

Fixpoint nsession (mode : shadow_mode) (wl : list nident) (ps : list (list nstmt)) : list (list nout) :=
  match ps with
  | [] => []
  | p :: r => let (o, wl') := nparse1 mode wl p in o :: nsession mode wl' r
  end.

(* what a script means on its own: transpiled in a new process, the whitelist as the source text defines it *)
Definition nalone (mode : shadow_mode) (p : list nstmt) : list nout := fst (nparse1 mode safe_name_references p).

(* ---- the tie to the current source (inventory of harness/gen/setsites.py): is the whitelist object mutated, or handed
   to anything that could mutate it (every use other than a membership test / comparison)? *)
Definition wl_name : text := [95; 83; 65; 70; 69; 95; 78; 65; 77; 69; 95; 82; 69; 70; 69; 82; 69; 78; 67; 69; 83].
Definition wl_leaky_state (m : mstate) : bool := m_mutated m && text_eqb (m_name m) wl_name.
Definition wl_leaky_use (u : muse) : bool := negb (u_class u =? 0) && text_eqb (u_name u) wl_name.
Definition whitelist_escapes : bool := existsb wl_leaky_state module_state || existsb wl_leaky_use module_uses.
Definition wl_listed : bool := existsb (fun m => text_eqb (m_name m) wl_name) module_state.
Definition current_mode : shadow_mode := if whitelist_escapes then ShModule else ShNone.

Definition n_len : nident := [108; 101; 110].
Definition n_str : nident := [115; 116; 114].
Definition shadow_A : list nstmt := [NBind n_len; NCall n_len 3].
Definition shadow_B : list nstmt := [NCall n_len 3; NCall n_str 12].
