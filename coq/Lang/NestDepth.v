(* The interpreter STACK the two stages of the pipeline need, as a function of the block structure of the script
   ('never crashes with an internal error' over parse() -> emit()).

   parse() is wrapped by _nesting_as_value_error: when the recursion of _parse_simple_lines over nested blocks runs out
   of interpreter frames the RecursionError leaves parse() as ValueError - a clean rejection.  emit() recurses over the
   same tree (_emit_block once per nested statement list, _register_lcd_animations once per list).  Whether emit() has such
   a wrapper too is a parameter of the model ([guarded], read off the real emit() by the translator): with it, running out of
   frames in emit() is a clean ValueError as well; without it the RecursionError escapes - an internal error - on every
   script with

       parse needs no more frames than there are (accepted)   and   emit needs more frames than there are.

   A stage is described by constants read from the real code by the translator (harness/gen/nestdepth.py measures the
   deepest frame of parse() / emit() with sys.setprofile on ladders of two depths and re-checks the fit on others):
     st_head     frames the fixed prelude of a script needs (imports, device declarations, helper def)
     st_frames k frames one level of nesting of block slot k costs (slot = kind of block AND which of its bodies:
                 if / elif / else / while / for / try / except / main loop / function body)
     st_header k frames the block statement needs at its own level for everything but the nested body (header expression,
                 sibling bodies), measured with the thinnest leaf as body
     st_leaf l   frames simple statement l needs at its own level
   need s t = the deepest frame stage s reaches on statement t, in frames above the level t stands on.
   No proofs in this file. *)
From Coq Require Import ZArith List Bool.
Import ListNotations.
Open Scope Z_scope.

Record stage := mkstage { st_head : Z; st_frames : list Z; st_header : list Z; st_leaf : list Z }.

Inductive stmt := Leaf (l : nat) | Block (k : nat) (body : list stmt).

Definition getz (l : list Z) (n : nat) : Z := nth n l 0.

Fixpoint need (s : stage) (t : stmt) : Z :=
  match t with
  | Leaf l => getz (st_leaf s) l
  | Block k body =>
      Z.max (getz (st_header s) k)
            (getz (st_frames s) k
             + (fix go (b : list stmt) : Z := match b with [] => 0 | x :: r => Z.max (need s x) (go r) end) body)
  end.

Fixpoint needs (s : stage) (b : list stmt) : Z :=
  match b with [] => 0 | x :: r => Z.max (need s x) (needs s r) end.

(* a script = the fixed prelude + a list of statements at level 0 *)
Definition need_prog (s : stage) (p : list stmt) : Z := Z.max (st_head s) (needs s p).

(* [room] = interpreter frames left when the stage is entered (recursion limit - depth of the caller) *)
Definition fits (s : stage) (room : Z) (p : list stmt) : bool := need_prog s p <=? room.

(* the outcome of the pipeline on a script: 0 firmware, 1 clean ValueError from parse(), 2 RecursionError from emit() (an
   internal error), 3 clean ValueError from emit().  [guarded] = emit() reports its own exhausted nesting as ValueError *)
Definition pipeline (guarded : bool) (ps es : stage) (room : Z) (p : list stmt) : Z :=
  if fits ps room p then (if fits es room p then 0 else if guarded then 3 else 2) else 1.

(* which leaves / slots occur *)
Fixpoint leaves_of (t : stmt) : list nat :=
  match t with
  | Leaf l => [l]
  | Block _ body => (fix go (b : list stmt) : list nat := match b with [] => [] | x :: r => leaves_of x ++ go r end) body
  end.
Fixpoint leaves_of_list (b : list stmt) : list nat :=
  match b with [] => [] | x :: r => leaves_of x ++ leaves_of_list r end.

(* ---- the comparison of two stages, constant by constant (what the theorems need of the regenerated tables) *)
Fixpoint le_all (a b : list Z) : bool :=
  match a, b with
  | [], _ => true
  | x :: r, [] => false
  | x :: r, y :: s => (x <=? y) && le_all r s
  end.

(* leaves on which the second stage needs MORE frames than the first (by index) *)
Fixpoint fat_from (i : nat) (a b : list Z) : list nat :=
  match a, b with
  | x :: r, y :: s => if x <=? y then fat_from (S i) r s else i :: fat_from (S i) r s
  | x :: r, [] => i :: fat_from (S i) r []
  | [], _ => []
  end.
Definition fat_leaves (ps es : stage) : list nat := fat_from 0 (st_leaf es) (st_leaf ps).

Definition nonneg_all (a : list Z) : bool := forallb (fun x => 0 <=? x) a.

(* emit's constants are dominated by parse's: prelude, frames per level and header constant of every slot *)
Definition blocks_dominated (ps es : stage) : bool :=
  (st_head es <=? st_head ps) && le_all (st_frames es) (st_frames ps) && le_all (st_header es) (st_header ps)
  && nonneg_all (st_frames es) && nonneg_all (st_header es) && nonneg_all (st_leaf es)
  && (length (st_frames es) =? length (st_frames ps))%nat && (length (st_header es) =? length (st_header ps))%nat.

Definition thin (ps es : stage) (l : nat) : bool := getz (st_leaf es) l <=? getz (st_leaf ps) l.

(* ---- ladders: [depth] blocks of slot k around one leaf *)
Fixpoint ladder (k : nat) (depth : nat) (l : nat) : stmt :=
  match depth with O => Leaf l | S d => Block k [ladder k d l] end.

(* a stage that costs [extra] more frames per level in slot k (the shape of a refactoring that moves a recursive call
   into a helper) *)
Fixpoint bump (k : nat) (extra : Z) (l : list Z) : list Z :=
  match l, k with
  | [], _ => []
  | x :: r, O => (x + extra) :: r
  | x :: r, S k' => x :: bump k' extra r
  end.
Definition bump_frames (s : stage) (k : nat) (extra : Z) : stage :=
  mkstage (st_head s) (bump k extra (st_frames s)) (st_header s) (st_leaf s).
