(* C01 - "nothing is re-initialised": a node list is DEFAULT-FREE when no node at any depth declares or assigns a
   variable with the type's default value ([XDefault]).  The default value is what _make_promotion_decls gives a
   hoisted declaration; before the repair of F-C01-hoisted-decl-reinit / F-C01-loop-local-reinit such declarations
   stayed inside setup() / loop() (as `T x = <default>;` at the head of loop(), or rewritten to `x = <default>;` inside an
   enclosing block) and reset the variable on every pass / iteration.  Definitions only. *)
From Coq Require Import ZArith List Bool.
From RV Require Import Base.Wire Base.Text Lang.StmtAst.
Import ListNotations.
Open Scope Z_scope.

Definition is_def (e : cexpr) : bool := match e with XDefault _ => true | _ => false end.

Fixpoint nodef_n (n : cnode) : bool :=
  let fix go (l : list cnode) : bool := match l with [] => true | x :: r => nodef_n x && go r end in
  let fix gob (l : list (Z * list cnode)) : bool := match l with [] => true | (_, b) :: r => go b && gob r end in
  match n with
  | NDecl _ _ e _ => negb (is_def e)
  | NDeclTmp _ _ e => negb (is_def e)
  | NAssign _ e => negb (is_def e)
  | NIf bs els => gob bs && go els
  | NWhile _ b => go b
  | NFor _ _ b => go b
  | _ => true
  end.
Fixpoint nodef_l (l : list cnode) : bool := match l with [] => true | x :: r => nodef_n x && nodef_l r end.
Fixpoint nodef_bs (l : list (Z * list cnode)) : bool :=
  match l with [] => true | (_, b) :: r => nodef_l b && nodef_bs r end.

(* every default initialiser of the sketch sits in a global declaration *)
Definition nodef_prog (c : cprog) : bool := nodef_l (c_setup c) && nodef_l (c_loop c).
