(* C10 - the places where the transpiler iterates a Python set, with the iteration order
   abstracted to an oracle [sigma : list ident -> list ident] ("the order in which the set
   whose elements are these names is iterated").  Model only: no proofs here.

   The code as it is (after `fix: hoisted declarations come out in sorted order`): every set whose
   iteration reaches the emitted text is walked through sorted(...):

   parser.py  _promote_branch_decls  (for name in sorted(new_names) ..., two sites)   -> [promote_branch]
   parser.py  while / for handlers   (_collect_order, then "for name in sorted(promoted_set)")
                                                                                      -> [loop_order]
   parser.py  parse(): sorted(lcd_tick_names), sorted(button_poll_names);
   emitter.py emit():  sorted(ultrasonic_measurements)                                -> [sorted_site]
   parser.py  _merge_return_types: unique.pop() under len(unique) == 1                -> [pop_site]

   The promotion algorithm is written once, over [iter : list ident -> list ident] = "the sequence the
   `for name in ...` statement walks, given the elements of the set" ([promote_with], [transl_with]).
   The code is the instance [iter = sorted_oracle sigma] (sorted() applied to the set as iterated under
   sigma): [promote], [transl].  The instance [iter = sigma] (no sorted(): the code before the repair,
   finding F-C10-promotion-order) is kept only for the statements that say what the sorted() calls buy.

   [transl] is the declaration-and-block skeleton of the whole translation for the fragment
   assignment-of-a-literal / if-elif-else / while / for-range / try-except / def / while True;
   it is what the harness runs against the real parse()+emit(). *)
From Coq Require Import ZArith List Bool Permutation String Ascii.
From RV Require Import Base.Wire Base.Text.
Import ListNotations.
Open Scope Z_scope.

Definition ident := text.
Definition ty := Z.                       (* 0 int, 1 float, 2 bool, 3 String: an opaque label here *)
Definition decl := (ident * ty)%type.

(* readable names for the hand-written tables *)
Definition txt (s : string) : text := map (fun a => Z.of_N (N_of_ascii a)) (list_ascii_of_string s).

(* ---------------------------------------------------------------- name order, sorted() *)
(* Python compares str by code point, lexicographically *)
Fixpoint text_leb (a b : text) : bool :=
  match a, b with
  | [], _ => true
  | _ :: _, [] => false
  | x :: a', y :: b' => if x <? y then true else if y <? x then false else text_leb a' b'
  end.

Fixpoint insert (x : ident) (l : list ident) : list ident :=
  match l with
  | [] => [x]
  | y :: r => if text_leb x y then x :: l else y :: insert x r
  end.

Fixpoint sort (l : list ident) : list ident :=
  match l with [] => [] | x :: r => insert x (sort r) end.

Definition type_in (br : list decl) (x : ident) : ty :=
  match tlookup x br with Some t => t | None => 0 end.

(* ---------------------------------------------------------------- the promotion algorithm *)
Section Oracle.
  (* the sequence a `for name in <...>` statement over a set of these names walks *)
  Variable sigma : list ident -> list ident.

  (* record(name, child_ctx) of _promote_branch_decls *)
  Definition record (parent : list ident) (br : list decl) (acc : list decl) (x : ident) : list decl :=
    if tmem x parent || tmem x (map fst acc) then acc else acc ++ [(x, type_in br x)].

  (* one branch: "for name in <sigma new_names>: record(name, child_ctx)" *)
  Definition promote_branch (parent : list ident) (acc : list decl) (br : list decl) : list decl :=
    fold_left (record parent br) (sigma (map fst br)) acc.

  (* branches in source order (if, elif..., else); a branch = the names it newly declares, with
     the type the branch's context gives them *)
  Definition promote_if (parent : list ident) (brs : list (list decl)) : list decl :=
    fold_left (promote_branch parent) brs [].

  (* "if name not in promoted_names: promoted_names.append(name)" *)
  Definition add_new (acc : list ident) (x : ident) : list ident :=
    if tmem x acc then acc else acc ++ [x].

  (* while / for: names in order of first VarDecl in the body (body_decls = the names of the
     VarDecl nodes met by _collect_order), then "for name in <sigma promoted_set>" *)
  Definition loop_order (body_decls : list ident) (names : list ident) : list ident :=
    fold_left add_new (sigma names)
      (fold_left add_new (filter (fun x => tmem x names) body_decls) []).

  Definition promote_loop (body_decls : list ident) (promoted : list decl) : list decl :=
    map (fun x => (x, type_in promoted x)) (loop_order body_decls (map fst promoted)).

  (* sorted(<set>) *)
  Definition sorted_site (names : list ident) : list ident := sort (sigma names).

  (* <set>.pop() *)
  Definition pop_site (names : list ident) : option ident := hd_error (sigma names).
End Oracle.

Inductive construct :=
| CIf (parent : list ident) (brs : list (list decl))
| CLoop (body_decls : list ident) (promoted : list decl).

Definition promote_with (sigma : list ident -> list ident) (c : construct) : list decl :=
  match c with
  | CIf parent brs => promote_if sigma parent brs
  | CLoop d s => promote_loop sigma d s
  end.

(* the only constraint on a set's iteration order *)
Definition perm_oracle (sigma : list ident -> list ident) : Prop :=
  forall l, Permutation (sigma l) l.

(* the names of a branch that record() really appends: not declared by the parent, not recorded by an earlier branch *)
Definition effective (parent acc : list ident) (br : list decl) : list ident :=
  filter (fun x => negb (tmem x parent || tmem x acc)) (map fst br).

(* branches in source order, [acc] = the names recorded so far *)
Fixpoint guard_if (parent acc : list ident) (brs : list (list decl)) : bool :=
  match brs with
  | [] => true
  | br :: r => let e := effective parent acc br in (List.length e <=? 1)%nat && guard_if parent (acc ++ e) r
  end.

(* the region in which even an UNSORTED walk of the sets is harmless (the guard of the _partial theorem that stood while
   F-C10-promotion-order was open): every branch contributes at most one name that is not yet recorded; every new name of a
   loop body is met as a VarDecl by _collect_order.  No theorem about [promote] / [transl] needs it; [w_ok] / [o_ok] carry
   it so that the harness can measure how many generated programs lie outside it (the region the repair opened) and so
   that C10_repair_conservative can be stated *)
Definition guard (c : construct) : bool :=
  match c with
  | CIf parent brs => guard_if parent [] brs
  | CLoop d s => forallb (fun x => tmem x d) (map fst s)
  end.

(* ---------------------------------------------------------------- a concrete family of oracles *)
(* iteration in the order given by a rank list (names missing from it last, stably): every
   iteration order of a finite set is [sigma_rank o] for some o *)
Fixpoint index_of (x : ident) (o : list ident) : nat :=
  match o with [] => O | y :: r => if text_eqb x y then O else S (index_of x r) end.

Fixpoint insert_by (rk : ident -> nat) (x : ident) (l : list ident) : list ident :=
  match l with
  | [] => [x]
  | y :: r => if (rk x <=? rk y)%nat then x :: l else y :: insert_by rk x r
  end.

Fixpoint sort_by (rk : ident -> nat) (l : list ident) : list ident :=
  match l with [] => [] | x :: r => insert_by rk x (sort_by rk r) end.

Definition otag := list ident.
Definition sigma_rank (o : otag) (l : list ident) : list ident := sort_by (fun x => index_of x o) l.

(* ---------------------------------------------------------------- program skeleton *)
Inductive stmt :=
| SAssign (x : ident) (t : ty)                  (* x = <literal of type t> *)
| SIf (o : otag) (brs : list (list stmt))       (* if / elif* / else: bodies in source order *)
| SWhile (o : otag) (body : list stmt)          (* while <cond>: (not the top-level while True) *)
| SFor (o : otag) (v : ident) (body : list stmt)
| STry (o : otag) (brs : list (list stmt)).     (* try body, then the except bodies *)

Inductive item :=
| IStmt (s : stmt)                              (* top level, scope setup, depth 0 *)
| IDef (f : ident) (body : list stmt)           (* def f(): *)
| IMain (body : list stmt).                     (* while True: at column 0 *)

Inductive node :=
| NDecl (x : ident) (t : ty)                    (* VarDecl, not global *)
| NHoist (x : ident) (t : ty)                   (* VarDecl(hoisted=True), not global: the default-initialised declaration
                                                   _make_promotion_decls puts in front of a nested construct; emitted like
                                                   any declaration, but DROPPED by the enclosing construct's rewrite when it
                                                   hoists the name further out *)
| NAssign (x : ident)
| NIf (brs : list (list node))
| NWhile (body : list node)
| NFor (v : ident) (body : list node)
| NTry (brs : list (list node)).

Record pctx := mk_pctx { declared : list ident; types : list decl }.   (* var_declared, var_types (latest first) *)

Record wres := mk_wres { w_nodes : list node; w_ctx : pctx; w_globals : list decl; w_ok : bool }.

(* the private _rewrite of the if handler: descends into nested IfStatements only *)
(* both rewriters drop the hoisted declarations of the promoted names; they only ever stand at the top level of the
   list being rewritten (the construct they belong to has removed the ones further in) *)
Definition is_hoist_of (ps : list ident) (n : node) : bool :=
  match n with NHoist x _ => tmem x ps | _ => false end.
Definition drop_h (ps : list ident) (l : list node) : list node := filter (fun n => negb (is_hoist_of ps n)) l.

Fixpoint rw_if (ps : list ident) (n : node) : node :=
  match n with
  | NDecl x t => if tmem x ps then NAssign x else n
  | NIf brs => NIf (map (map (rw_if ps)) brs)
  | _ => n
  end.

(* _rewrite_nodes: descends into everything *)
Fixpoint rw_all (ps : list ident) (n : node) : node :=
  match n with
  | NDecl x t => if tmem x ps then NAssign x else n
  | NHoist _ _ => n
  | NAssign _ => n
  | NIf brs => NIf (map (map (rw_all ps)) brs)
  | NWhile b => NWhile (map (rw_all ps) b)
  | NFor v b => NFor v (map (rw_all ps) b)
  | NTry brs => NTry (map (map (rw_all ps)) brs)
  end.

(* _collect_order: VarDecl names in traversal order (not into try statements) *)
Fixpoint decl_names (n : node) : list ident :=
  match n with
  | NDecl x _ => [x]
  | NHoist x _ => [x]
  | NAssign _ => []
  | NIf brs => flat_map (flat_map decl_names) brs
  | NWhile b => flat_map decl_names b
  | NFor _ b => flat_map decl_names b
  | NTry _ => []
  end.

(* names declared by the child and not by its base, as a canonical (sorted) list, with the
   types the child's context ends with *)
Definition new_decls (base child : pctx) : list decl :=
  map (fun x => (x, type_in (types child) x))
      (sort (filter (fun x => negb (tmem x (declared base))) (declared child))).

Definition push_types (ds : list decl) (tys : list decl) : list decl := rev ds ++ tys.

Section Walk.
  (* what the promotion of one construct yields (instantiated with [promote_with (sigma o)]) *)
  Variable P : otag -> construct -> list decl.

  (* _make_promotion_decls + the rest of the handler, common to all four constructs *)
  Definition finish (glob : bool) (base : pctx) (o : otag) (c : construct) (inner_ok : bool)
             (mk : list ident -> node) : wres :=
    let ds := P o c in
    let ps := map fst ds in
    mk_wres ((if glob then [] else map (fun d => NHoist (fst d) (snd d)) ds) ++ [mk ps])
            (mk_pctx (declared base ++ ps) (push_types ds (types base)))
            (if glob then ds else [])
            (inner_ok && guard c).

  Fixpoint walk_stmt (glob : bool) (s : stmt) (c : pctx) {struct s} : wres :=
    let wb := fix wb (l : list stmt) (c : pctx) {struct l} : wres :=
      match l with
      | [] => mk_wres [] c [] true
      | s :: r =>
          let r1 := walk_stmt false s c in
          let r2 := wb r (w_ctx r1) in
          mk_wres (w_nodes r1 ++ w_nodes r2) (w_ctx r2) [] (w_ok r1 && w_ok r2)
      end in
    match s with
    | SAssign x t =>
        let tys := (x, t) :: types c in
        if tmem x (declared c) then mk_wres [NAssign x] (mk_pctx (declared c) tys) [] true
        else if glob then mk_wres [] (mk_pctx (declared c ++ [x]) tys) [(x, t)] true
        else mk_wres [NDecl x t] (mk_pctx (declared c ++ [x]) tys) [] true
    | SIf o brs =>
        let rs := map (fun b => wb b c) brs in
        finish glob c o (CIf (declared c) (map (fun r => new_decls c (w_ctx r)) rs))
               (forallb w_ok rs)
               (fun ps => NIf (map (fun r => map (rw_if ps) (drop_h ps (w_nodes r))) rs))
    | STry o brs =>
        let rs := map (fun b => wb b c) brs in
        finish glob c o (CIf (declared c) (map (fun r => new_decls c (w_ctx r)) rs))
               (forallb w_ok rs)
               (fun ps => NTry (map (fun r => map (rw_all ps) (drop_h ps (w_nodes r))) rs))
    | SWhile o body =>
        let r := wb body c in
        finish glob c o (CLoop (flat_map decl_names (w_nodes r)) (new_decls c (w_ctx r)))
               (w_ok r)
               (fun ps => NWhile (map (rw_all ps) (drop_h ps (w_nodes r))))
    | SFor o v body =>
        let cv := mk_pctx (declared c ++ [v]) ((v, 0) :: types c) in
        let r := wb body cv in
        finish glob c o (CLoop (flat_map decl_names (w_nodes r)) (new_decls cv (w_ctx r)))
               (w_ok r)
               (fun ps => NFor v (map (rw_all ps) (drop_h ps (w_nodes r))))
    end.

  Fixpoint walk_block (l : list stmt) (c : pctx) : wres :=
    match l with
    | [] => mk_wres [] c [] true
    | s :: r =>
        let r1 := walk_stmt false s c in
        let r2 := walk_block r (w_ctx r1) in
        mk_wres (w_nodes r1 ++ w_nodes r2) (w_ctx r2) [] (w_ok r1 && w_ok r2)
    end.

  (* the body level of the main `while True:` loop (scope "loop", depth 1): a first assignment is a sketch global
     with the default initialiser plus the assignment in place; the names a construct promotes to this level are
     globals (no node), like at setup depth 0 *)
  Definition walk_stmt_main (s : stmt) (c : pctx) : wres :=
    match s with
    | SAssign x t =>
        if tmem x (declared c) then walk_stmt true s c
        else mk_wres [NAssign x] (mk_pctx (declared c ++ [x]) ((x, t) :: types c)) [(x, t)] true
    | _ => walk_stmt true s c
    end.

  Fixpoint walk_main (l : list stmt) (c : pctx) : wres :=
    match l with
    | [] => mk_wres [] c [] true
    | s :: r =>
        let r1 := walk_stmt_main s c in
        let r2 := walk_main r (w_ctx r1) in
        mk_wres (w_nodes r1 ++ w_nodes r2) (w_ctx r2) (w_globals r1 ++ w_globals r2) (w_ok r1 && w_ok r2)
    end.

  (* result of a whole program: globals, functions (definition order), setup body, loop body,
     and whether every construct met was inside [guard] *)
  Record prog_out := mk_out { o_globals : list decl; o_funs : list (ident * list node);
                              o_setup : list node; o_loop : list node; o_ok : bool }.

  Record pstate := mk_ps { p_ctx : pctx; p_out : prog_out }.

  Definition walk_item (st : pstate) (it : item) : pstate :=
    let c := p_ctx st in
    let out := p_out st in
    match it with
    | IStmt s =>
        let r := walk_stmt true s c in
        mk_ps (w_ctx r)
              (mk_out (o_globals out ++ w_globals r) (o_funs out) (o_setup out ++ w_nodes r) (o_loop out)
                      (o_ok out && w_ok r))
    | IDef f body =>
        let r := walk_block body c in
        mk_ps c (mk_out (o_globals out) (o_funs out ++ [(f, w_nodes r)]) (o_setup out) (o_loop out)
                        (o_ok out && w_ok r))
    | IMain body =>
        let r := walk_main body c in
        mk_ps (w_ctx r)
              (mk_out (o_globals out ++ w_globals r) (o_funs out) (o_setup out) (o_loop out ++ w_nodes r)
                      (o_ok out && w_ok r))
    end.

  Definition walk_prog (p : list item) : prog_out :=
    p_out (fold_left walk_item p (mk_ps (mk_pctx [] []) (mk_out [] [] [] [] true))).
End Walk.

(* the whole-program skeleton when every `for name in <set>` walks [iter o names] (one [iter] per construct tag) *)
Definition transl_with (iter : otag -> list ident -> list ident) (p : list item) : prog_out :=
  walk_prog (fun o c => promote_with (iter o) c) p.

Definition perm_family (sigma : otag -> list ident -> list ident) : Prop :=
  forall o, perm_oracle (sigma o).

(* ---------------------------------------------------------------- the code as it is *)
(* `for name in sorted(new_names)` in _promote_branch_decls (two sites) and `for name in sorted(promoted_set)` in the
   while / for handlers: sorted() applied to the set as iterated under [sigma] *)
Definition sorted_oracle (sigma : list ident -> list ident) (l : list ident) : list ident := sort (sigma l).

Definition promote (sigma : list ident -> list ident) (c : construct) : list decl :=
  promote_with (sorted_oracle sigma) c.

(* the translation under a family of set-iteration oracles, one per construct (tag) *)
Definition transl (sigma : otag -> list ident -> list ident) (p : list item) : prog_out :=
  walk_prog (fun o c => promote (sigma o) c) p.

(* a "session": transpiling several programs one after the other.  The model has no state
   argument to thread: that is the statelessness claim, its content is the tie *)
Definition session (sigma : otag -> list ident -> list ident) (ps : list (list item)) : list prog_out :=
  map (transl sigma) ps.
