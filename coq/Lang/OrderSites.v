(* C10 - the inventory obligations on the generated tables of Gen/SetSites.v (definitions only).
   [site_accounted]: no set iteration of the source may let its order reach the consumer (class 0) - every one is
   wrapped in sorted() (class 1) or feeds an order-insensitive consumer (class 2).  (While F-C10-promotion-order was
   open, the class-0 sites `new_names` of _promote_branch_decls and `promoted_set` of _parse_simple_lines were excused
   as "modelled"; the repair wrapped them in sorted(), they are now required to be class 1, see below.) [mstate_accounted]: a module-level object may be mutated by a
   function only if it is the verification hook's own log (written only under REDUINO_VERIF=1, never read). *)
From Coq Require Import ZArith List Bool String.
From RV Require Import Base.Wire Base.Text Lang.Order Lang.DevSession Lang.MemoSession Gen.SetSites.
Import ListNotations.
Open Scope Z_scope.

Definition site_accounted (s : site) : bool := negb (s_class s =? 0).

Definition hook_log : text := txt "_VERIF_IGNORED"%string.

Definition mstate_accounted (m : mstate) : bool := negb (m_mutated m) || text_eqb (m_name m) hook_log.

(* the sorted() sites named by the property, and the ones of the repair of F-C10-promotion-order (the two `new_names` loops
   of _promote_branch_decls, the `promoted_set` loops of the while and for handlers): (file, function, iterable) *)
Definition required_sorted_sites : list (text * text * text) :=
  [ (txt "parser.py"%string, txt "_promote_branch_decls"%string, txt "new_names"%string);
    (txt "parser.py"%string, txt "_parse_simple_lines"%string, txt "promoted_set"%string);
    (txt "parser.py"%string, txt "parse"%string, txt "ctx.get('lcd_tick_names', set())"%string);
    (txt "parser.py"%string, txt "parse"%string, txt "ctx.get('button_poll_names', set())"%string);
    (txt "emitter.py"%string, txt "emit"%string, txt "ultrasonic_measurements"%string) ].

Definition is_sorted_site (r : text * text * text) (s : site) : bool :=
  text_eqb (s_file s) (fst (fst r)) && text_eqb (s_fn s) (snd (fst r)) && text_eqb (s_iter s) (snd r)
  && (s_class s =? 1).

(* modules the transpiler may import: pure standard-library helpers and its own IR module *)
Definition allowed_modules : list text :=
  [ txt "__future__"%string; txt "ast"%string; txt "operator"%string; txt "re"%string; txt "typing"%string;
    txt "dataclasses"%string; txt ".ast"%string ].

(* the verification hook (add-only, REDUINO_VERIF=1) reads its switch from the environment *)
Definition hook_fn : text := txt "_verif_note_ignored"%string.

Definition import_accounted (i : imp) : bool :=
  tmem (i_module i) allowed_modules || (text_eqb (i_module i) (txt "os"%string) && text_eqb (i_fn i) hook_fn).

(* ---------------------------------------------------------------- module-level mutable objects *)
(* a use of a module-level (or class-level) mutable object must be a read-only one; the only exception is the verification
   hook appending to its own log *)
Definition muse_accounted (u : muse) : bool :=
  (u_class u =? 0) || (text_eqb (u_name u) hook_log && (u_class u =? 2)).

(* the way the defaults of the ctx keys are made: never from a module-level object *)
Definition dsite_accounted (d : dsite) : bool := negb (d_class d =? 2).

(* every key parse() seeds its ctx with is seeded with a fresh object *)
Definition preseed_accounted (e : text * bool) : bool := snd e.

(* ---------------------------------------------------------------- the configuration of Lang/DevSession.v read off the source *)
Definition gen_pre (k : key) : bool :=
  existsb (fun e => text_eqb (fst e) (key_name k) && snd e) ctx_preseeded
  || existsb (fun e => text_eqb (fst e) (key_name k) && (snd e =? 0)) ctx_prologue.

Definition gen_default (method : Z) (k : key) : option mobj :=
  match filter (fun d => text_eqb (d_key d) (key_name k) && (d_method d =? method) && (d_class d =? 2)) default_sites with
  | d :: _ => Some (d_obj d)
  | [] => None
  end.

Definition cfg_gen : cfg := mk_cfg gen_pre (gen_default 1) (gen_default 0).

(* ---------------------------------------------------------------- sorted() with a key, memoised helpers *)
(* a sorted() over a set must not take a key: with a key that is not injective on the names, tied names keep the set's iteration
   order (Lang/SortKey.v) *)
Definition site_keyless (s : site) : bool := negb (s_keyed s).

(* the helper calls that go through a memo table in the current source: those whose function carries a cache decorator *)
Definition cached_gen (c : hcall) : bool := tmem (helper_name c) (map (fun e => snd (fst e)) cache_sites).
