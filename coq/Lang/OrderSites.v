(* C10 - the inventory obligations on the generated tables of Gen/SetSites.v (definitions only).
   [site_accounted]: a site whose iteration order reaches its consumer (class 0) must be one of the
   sites modelled in Lang/Order.v; [mstate_accounted]: a module-level object may be mutated by a
   function only if it is the verification hook's own log (written only under REDUINO_VERIF=1, never read). *)
From Coq Require Import ZArith List Bool String.
From RV Require Import Base.Wire Base.Text Lang.Order Gen.SetSites.
Import ListNotations.
Open Scope Z_scope.

Definition site_modelled (s : site) : bool :=
  existsb (fun m => text_eqb (s_fn s) (fst m) && text_eqb (s_iter s) (snd m)) modelled_sites.

Definition site_accounted (s : site) : bool := negb (s_class s =? 0) || site_modelled s.

Definition hook_log : text := txt "_VERIF_IGNORED"%string.

Definition mstate_accounted (m : mstate) : bool := negb (m_mutated m) || text_eqb (m_name m) hook_log.

(* the sorted() sites named by the property: (file, function, iterable) *)
Definition required_sorted_sites : list (text * text * text) :=
  [ (txt "parser.py"%string, txt "parse"%string, txt "ctx.get('lcd_tick_names', set())"%string);
    (txt "parser.py"%string, txt "parse"%string, txt "ctx.get('button_poll_names', set())"%string);
    (txt "emitter.py"%string, txt "emit"%string, txt "ultrasonic_measurements"%string) ].

Definition is_sorted_site (r : text * text * text) (s : site) : bool :=
  text_eqb (s_file s) (fst (fst r)) && text_eqb (s_fn s) (snd (fst r)) && text_eqb (s_iter s) (snd r)
  && (s_class s =? 1).
