(* C07 - variable promotion: what the parser does to the nodes of a block body after it has decided
   to declare some names in front of the block.

     _default_value_for_type                          parser.py:1230-1241   default_value
     _make_promotion_decls                            parser.py:2124-2160   make_decls
     _rewrite_nodes                                   parser.py:2163-2215   rewrite
     the local _rewrite of the `if` handler           parser.py:2665-2691   rewrite_if
     while / for handlers: decls, then the loop       parser.py:2857-2870, 2942-2957   promote_loop
     try handler: decls, then the try statement       parser.py:2779-2796   promote_try
     if handler: decls, then the if statement         parser.py:2693-2696   promote_if

   The IR is written the way Python writes the script: an IfStatement is the run of its branches
   ([HIf; HElif*; HElse?] siblings), a TryStatement the run [HTry; HCatch*]; every compound statement
   carries the nodes of its own body.  A statement of the script that assigns a name is a VarDecl (first
   assignment seen by the parser) or a VarAssign (any later one); every other simple node is a leaf
   with the C++ lines the emitter writes for it.

   Specification side: [as_assign] forgets whether an assignment is written as a declaration (the C++
   type prefix) - what is left is the statement the script made: target, value, and the block it is in.
   [items] lists every simple statement with the headers of the blocks around it.

   No proofs in this file. *)
From Coq Require Import ZArith List Bool.
From RV Require Import Base.Wire Base.Text.
Import ListNotations.
Open Scope Z_scope.

Inductive phdr :=
| HIf (c : text) | HElif (c : text) | HElse
| HWhile (c : text) | HFor (v n : text)
| HTry | HCatch (c : text).

Inductive pn :=
| PDecl (name ctype expr : text) (glob : bool)      (* VarDecl(name, c_type, expr, global_scope) *)
| PAssign (name expr : text)                        (* VarAssign(name, expr) *)
| PSimple (cl : list text)                           (* any other simple node: the C++ lines it is emitted as *)
| PCtl (h : phdr) (b : list pn).                    (* one branch / loop / try body / handler with its nodes *)

(* ---------------------------------------------------------------- _rewrite_nodes *)

Fixpoint rw (p : list text) (n : pn) {struct n} : pn :=
  match n with
  | PDecl name ty e g => if tmem name p then PAssign name e else n
  | PCtl h b => PCtl h (map (rw p) b)
  | _ => n
  end.
Definition rewrite (p : list text) (ns : list pn) : list pn := map (rw p) ns.

(* the local _rewrite of the if handler goes into nested IfStatements only *)
Definition is_if_hdr (h : phdr) : bool :=
  match h with HIf _ | HElif _ | HElse => true | _ => false end.
Fixpoint rw_if (p : list text) (n : pn) {struct n} : pn :=
  match n with
  | PDecl name ty e g => if tmem name p then PAssign name e else n
  | PCtl h b => if is_if_hdr h then PCtl h (map (rw_if p) b) else n
  | _ => n
  end.
Definition rewrite_if (p : list text) (ns : list pn) : list pn := map (rw_if p) ns.

(* ---------------------------------------------------------------- _make_promotion_decls *)

Definition s_bool := [98;111;111;108].                         (* bool *)
Definition s_float := [102;108;111;97;116].                    (* float *)
Definition s_String := [83;116;114;105;110;103].               (* String *)
Definition s_int := [105;110;116].                             (* int *)
Definition s_false := [102;97;108;115;101].                    (* false *)
Definition s_0_0 := [48;46;48].                                (* 0.0 *)
Definition s_dq2 := [34;34].                                   (* "" *)
Definition s_0 := [48].                                        (* 0 *)
Definition s_list_pfx := [95;95;114;101;100;117;95;108;105;115;116;60].   (* __redu_list< *)
Definition s_unit := [40;41].                                  (* () *)

Fixpoint starts_with (pre s : text) : bool :=
  match pre, s with
  | [], _ => true
  | a :: p, b :: q => (a =? b) && starts_with p q
  | _ :: _, [] => false
  end.

Definition default_value (ty : text) : text :=
  if text_eqb ty s_bool then s_false
  else if text_eqb ty s_float then s_0_0
  else if text_eqb ty s_String then s_dq2
  else if starts_with s_list_pfx ty then ty ++ s_unit
  else s_0.

(* tys: ctx["_promotion_cpp_types"] joined with the C++ type of ctx["var_types"] (the statement
   layer's business: taken as given); top = (scope == "setup" and depth == 0): the declaration goes
   to the globals of the sketch and no node is written in front of the block *)
Definition type_of (tys : list (text * text)) (name : text) : text :=
  match tlookup name tys with Some t => t | None => s_int end.

Definition make_decls (names : list text) (tys : list (text * text)) (top : bool) : list pn :=
  if top then []
  else map (fun name => PDecl name (type_of tys name) (default_value (type_of tys name)) false) names.

(* what the handlers append to the body they are building *)
Definition promote_loop (names : list text) (tys : list (text * text)) (top : bool) (h : phdr) (b : list pn) : list pn :=
  match names with
  | [] => [PCtl h b]
  | _ :: _ => make_decls names tys top ++ [PCtl h (rewrite names b)]
  end.

(* try: parts = [HTry body; HCatch body ...]; if: parts = [HIf; HElif ...; HElse?] *)
Definition on_bodies (f : list pn -> list pn) (parts : list pn) : list pn :=
  map (fun n => match n with PCtl h b => PCtl h (f b) | _ => n end) parts.

Definition promote_try (names : list text) (tys : list (text * text)) (top : bool) (parts : list pn) : list pn :=
  match names with
  | [] => parts
  | _ :: _ => make_decls names tys top ++ on_bodies (rewrite names) parts
  end.

Definition promote_if (names : list text) (tys : list (text * text)) (top : bool) (parts : list pn) : list pn :=
  match names with
  | [] => parts
  | _ :: _ => make_decls names tys top ++ on_bodies (rewrite_if names) parts
  end.

(* ---------------------------------------------------------------- SPEC: the statements the script made *)

Fixpoint as_assign (n : pn) {struct n} : pn :=
  match n with
  | PDecl name ty e g => PAssign name e
  | PCtl h b => PCtl h (map as_assign b)
  | _ => n
  end.

(* every simple statement with the headers of the blocks around it, in script order:
   an assignment as (target, value), any other node by its lines *)
Inductive pitem := ItAssign (name expr : text) | ItOther (cl : list text).

Fixpoint items_n (pre : list phdr) (n : pn) {struct n} : list (list phdr * pitem) :=
  match n with
  | PDecl name _ e _ => [(pre, ItAssign name e)]
  | PAssign name e => [(pre, ItAssign name e)]
  | PSimple cl => [(pre, ItOther cl)]
  | PCtl h b => flat_map (items_n (pre ++ [h])) b
  end.
Definition items (pre : list phdr) (ns : list pn) : list (list phdr * pitem) := flat_map (items_n pre) ns.

(* the names still declared somewhere in the nodes *)
Fixpoint decl_names_n (n : pn) {struct n} : list text :=
  match n with
  | PDecl name _ _ _ => [name]
  | PCtl _ b => flat_map decl_names_n b
  | _ => []
  end.
Definition decl_names (ns : list pn) : list text := flat_map decl_names_n ns.

(* a synthetic declaration: not global, initialised with the default of its type *)
Definition is_placeholder (n : pn) : bool :=
  match n with
  | PDecl _ ty e g => text_eqb e (default_value ty) && negb g
  | _ => false
  end.

(* guard of the if variant: no declaration of a promoted name below a loop / try inside the branches
   (the loop / try handlers have already lifted those into the branch) *)
Fixpoint if_reach_n (p : list text) (inside : bool) (n : pn) {struct n} : bool :=
  match n with
  | PDecl name _ _ _ => negb (inside && tmem name p)
  | PCtl h b => forallb (if_reach_n p (inside || negb (is_if_hdr h))) b
  | _ => true
  end.
Definition if_reach (p : list text) (ns : list pn) : bool := forallb (if_reach_n p false) ns.
