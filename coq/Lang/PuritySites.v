(* C10 - obligations on the generated inventory Gen/PuritySites.v and the configurations of Lang/EmitSession.v /
   Lang/VariantSession.v read off the current source (definitions only). *)
From Coq Require Import ZArith List Bool String.
From RV Require Import Base.Wire Base.Text Lang.Order Lang.EmitSession Lang.VariantSession Gen.PuritySites.
Import ListNotations.
Open Scope Z_scope.

(* a lazily evaluated value must be consumed where it is made *)
Definition lsite_accounted (s : lsite) : bool := l_class s =? 1.

(* how the parser stores the rows of a glyph: does the LCDGlyph constructor take a one-shot object? *)
(* the names as code points (no [string] literal in what is extracted) *)
Definition t_LCDGlyph : text := [76; 67; 68; 71; 108; 121; 112; 104].
Definition t_ensure_function_variant : text := [95; 101; 110; 115; 117; 114; 101; 95; 102; 117; 110; 99; 116; 105; 111; 110; 95; 118; 97; 114; 105; 97; 110; 116].

Definition glyph_rows_lazy : bool :=
  existsb (fun e => text_eqb (fst (fst e)) t_LCDGlyph) node_lazy_args.

Definition mk_gen : list Z -> seqv := mk_of glyph_rows_lazy.

(* a re-entrancy guard must live in an object of the current call or be released on every exit path *)
Definition gsite_safe (g : gsite) : bool := (g_scope g =? 0) || (g_release g =? 0).

Definition variant_guards : list gsite :=
  filter (fun g => text_eqb (g_fn g) t_ensure_function_variant) guard_sites.

(* the configuration of the function-variant guard: the worst of what the function shows; no guard found = not understood = leaky *)
Definition vcfg_gen : vcfg :=
  match variant_guards with
  | [] => cfg_leaky
  | _ => mk_vcfg (if existsb (fun g => negb (g_scope g =? 0)) variant_guards then ModuleLevel else PerParse)
                 (if existsb (fun g => negb (g_release g =? 0)) variant_guards then Straight else Finally)
  end.
