(* Abstract syntax of the Python expression fragment the transpiler looks at
   (the node kinds handled by _eval_const / _to_c_expr / _infer_expr_type in
   transpile/parser.py); every other node kind is [EOther]. *)
From Coq Require Import ZArith QArith List.
From RV Require Import Base.Wire.
Import ListNotations.

Definition ident := text.

Inductive binop := Add | Sub | Mult | Div | FloorDiv | Mod | Pow
                 | BitAnd | BitOr | BitXor | LShift | RShift
                 | MatMult (* the one ast operator missing from _BIN *).
Inductive unop := UAdd | USub | Not | Invert (* ~ : not in _UN *).
Inductive cmpop := Eq | NotEq | Lt | LtE | Gt | GtE
                 | CmpOther (* is, is not, in, not in: not in _CMP *).
Inductive boolop := And | Or.

Inductive pexpr : Type :=
| EInt (z : Z)
| EBool (b : bool)
| EFloat (q : Q)
| EStr (s : text)
| EConstOther                       (* None, bytes, Ellipsis, complex *)
| EName (x : ident)
| EBin (op : binop) (a b : pexpr)
| EUn (op : unop) (a : pexpr)
| EBoolOp (op : boolop) (vs : list pexpr)
| ECompare (l : pexpr) (ops : list cmpop) (rs : list pexpr)
| EIfExp (c a b : pexpr)
| EJoined (parts : list pexpr)       (* f-string: EStr literal parts and EFmt parts *)
| EFmt (ok : bool) (v : pexpr)       (* {v}; ok=false when a conversion or format spec is present *)
| ECall (f : ident) (args : list pexpr) (kws : list (ident * pexpr))
| EMethod (owner : pexpr) (attr : ident) (args : list pexpr) (kws : list (ident * pexpr))
| EList (elts : list pexpr)
| ETuple (elts : list pexpr)
| ESubscript (v i : pexpr)
| EOther (tag : Z).                  (* Attribute, Lambda, comprehensions, Starred, Await, ... *)

(* size, used as fuel bound and for generators' statistics *)
Fixpoint esize (e : pexpr) : nat :=
  let fix sizes (l : list pexpr) : nat :=
    match l with [] => O | x :: r => (esize x + sizes r)%nat end in
  let fix ksizes (l : list (ident * pexpr)) : nat :=
    match l with [] => O | (_, x) :: r => (esize x + ksizes r)%nat end in
  S (match e with
     | EBin _ a b => esize a + esize b
     | EUn _ a => esize a
     | EBoolOp _ vs => sizes vs
     | ECompare l _ rs => esize l + sizes rs
     | EIfExp c a b => esize c + esize a + esize b
     | EJoined ps => sizes ps
     | EFmt _ v => esize v
     | ECall _ args kws => sizes args + ksizes kws
     | EMethod o _ args kws => esize o + sizes args + ksizes kws
     | EList es | ETuple es => sizes es
     | ESubscript v i => esize v + esize i
     | _ => O
     end)%nat.

(* A strong induction principle that reaches inside the nested lists. *)
Section Ind.
  Variable P : pexpr -> Prop.
  Hypothesis HInt : forall z, P (EInt z).
  Hypothesis HBool : forall b, P (EBool b).
  Hypothesis HFloat : forall q, P (EFloat q).
  Hypothesis HStr : forall s, P (EStr s).
  Hypothesis HCO : P EConstOther.
  Hypothesis HName : forall x, P (EName x).
  Hypothesis HBin : forall op a b, P a -> P b -> P (EBin op a b).
  Hypothesis HUn : forall op a, P a -> P (EUn op a).
  Hypothesis HBoolOp : forall op vs, Forall P vs -> P (EBoolOp op vs).
  Hypothesis HCompare : forall l ops rs, P l -> Forall P rs -> P (ECompare l ops rs).
  Hypothesis HIfExp : forall c a b, P c -> P a -> P b -> P (EIfExp c a b).
  Hypothesis HJoined : forall ps, Forall P ps -> P (EJoined ps).
  Hypothesis HFmt : forall ok v, P v -> P (EFmt ok v).
  Hypothesis HCall : forall f args kws, Forall P args -> Forall (fun kv => P (snd kv)) kws -> P (ECall f args kws).
  Hypothesis HMethod : forall o a args kws, P o -> Forall P args -> Forall (fun kv => P (snd kv)) kws -> P (EMethod o a args kws).
  Hypothesis HList : forall es, Forall P es -> P (EList es).
  Hypothesis HTuple : forall es, Forall P es -> P (ETuple es).
  Hypothesis HSub : forall v i, P v -> P i -> P (ESubscript v i).
  Hypothesis HOther : forall t, P (EOther t).

  Fixpoint pexpr_ind' (e : pexpr) : P e :=
    let fix go (l : list pexpr) : Forall P l :=
      match l with [] => Forall_nil _ | x :: r => Forall_cons _ (pexpr_ind' x) (go r) end in
    let fix gok (l : list (ident * pexpr)) : Forall (fun kv => P (snd kv)) l :=
      match l with [] => Forall_nil _ | (k, x) :: r => Forall_cons (k, x) (pexpr_ind' x) (gok r) end in
    match e with
    | EInt z => HInt z | EBool b => HBool b | EFloat q => HFloat q | EStr s => HStr s
    | EConstOther => HCO | EName x => HName x
    | EBin op a b => HBin op a b (pexpr_ind' a) (pexpr_ind' b)
    | EUn op a => HUn op a (pexpr_ind' a)
    | EBoolOp op vs => HBoolOp op vs (go vs)
    | ECompare l ops rs => HCompare l ops rs (pexpr_ind' l) (go rs)
    | EIfExp c a b => HIfExp c a b (pexpr_ind' c) (pexpr_ind' a) (pexpr_ind' b)
    | EJoined ps => HJoined ps (go ps)
    | EFmt ok v => HFmt ok v (pexpr_ind' v)
    | ECall f args kws => HCall f args kws (go args) (gok kws)
    | EMethod o a args kws => HMethod o a args kws (pexpr_ind' o) (go args) (gok kws)
    | EList es => HList es (go es)
    | ETuple es => HTuple es (go es)
    | ESubscript v i => HSub v i (pexpr_ind' v) (pexpr_ind' i)
    | EOther t => HOther t
    end.
End Ind.
