(* Wire encoding of expressions and values (harness/pyast_wire.py is the other side). *)
From Coq Require Import ZArith QArith List Bool.
From RV Require Import Base.Wire Base.Text Lang.PyAst Lang.PySem.
Import ListNotations.
Open Scope Z_scope.

Definition dec_binop (z : Z) : option binop :=
  match z with
  | 0 => Some Add | 1 => Some Sub | 2 => Some Mult | 3 => Some Div | 4 => Some FloorDiv
  | 5 => Some Mod | 6 => Some Pow | 7 => Some BitAnd | 8 => Some BitOr | 9 => Some BitXor
  | 10 => Some LShift | 11 => Some RShift | 12 => Some MatMult | _ => None end.
Definition dec_unop (z : Z) : option unop :=
  match z with 0 => Some UAdd | 1 => Some USub | 2 => Some Not | 3 => Some Invert | _ => None end.
Definition dec_cmpop (z : Z) : option cmpop :=
  match z with
  | 0 => Some PyAst.Eq | 1 => Some NotEq | 2 => Some PyAst.Lt | 3 => Some LtE
  | 4 => Some PyAst.Gt | 5 => Some GtE | 6 => Some CmpOther | _ => None end.
Definition dec_boolop (z : Z) : option boolop :=
  match z with 0 => Some And | 1 => Some Or | _ => None end.

Fixpoint sequence {A} (l : list (option A)) : option (list A) :=
  match l with
  | [] => Some []
  | Some a :: r => match sequence r with Some rs => Some (a :: rs) | None => None end
  | None :: _ => None
  end.

Fixpoint dec_expr (v : wv) : option pexpr :=
  let fix decs (l : list wv) : option (list pexpr) :=
    match l with
    | [] => Some []
    | x :: r => match dec_expr x, decs r with Some e, Some es => Some (e :: es) | _, _ => None end
    end in
  let fix deckws (l : list wv) : option (list (ident * pexpr)) :=
    match l with
    | [] => Some []
    | WL [k; x] :: r =>
        match un_text k, dec_expr x, deckws r with
        | Some kk, Some e, Some es => Some ((kk, e) :: es) | _, _, _ => None end
    | _ => None
    end in
  match v with
  | WL [WI 0; WI z] => Some (EInt z)
  | WL [WI 1; b] => option_map EBool (un_bool b)
  | WL [WI 2; q] => option_map EFloat (un_q q)
  | WL [WI 3; s] => option_map EStr (un_text s)
  | WL [WI 4] => Some EConstOther
  | WL [WI 5; s] => option_map EName (un_text s)
  | WL [WI 6; WI op; a; b] =>
      match dec_binop op, dec_expr a, dec_expr b with
      | Some o, Some x, Some y => Some (EBin o x y) | _, _, _ => None end
  | WL [WI 7; WI op; a] =>
      match dec_unop op, dec_expr a with Some o, Some x => Some (EUn o x) | _, _ => None end
  | WL [WI 8; WI op; WL vs] =>
      match dec_boolop op, decs vs with Some o, Some xs => Some (EBoolOp o xs) | _, _ => None end
  | WL [WI 9; l; WL ops; WL rs] =>
      match dec_expr l, un_ints ops, decs rs with
      | Some x, Some os, Some ys =>
          match sequence (map dec_cmpop os) with Some cs => Some (ECompare x cs ys) | None => None end
      | _, _, _ => None end
  | WL [WI 10; c; a; b] =>
      match dec_expr c, dec_expr a, dec_expr b with
      | Some x, Some y, Some z => Some (EIfExp x y z) | _, _, _ => None end
  | WL [WI 11; WL ps] => option_map EJoined (decs ps)
  | WL [WI 12; ok; x] =>
      match un_bool ok, dec_expr x with Some o, Some e => Some (EFmt o e) | _, _ => None end
  | WL [WI 13; f; WL args; WL kws] =>
      match un_text f, decs args, deckws kws with
      | Some ff, Some xs, Some ks => Some (ECall ff xs ks) | _, _, _ => None end
  | WL [WI 14; o; a; WL args; WL kws] =>
      match dec_expr o, un_text a, decs args, deckws kws with
      | Some oo, Some aa, Some xs, Some ks => Some (EMethod oo aa xs ks) | _, _, _, _ => None end
  | WL [WI 15; WL es] => option_map EList (decs es)
  | WL [WI 16; WL es] => option_map ETuple (decs es)
  | WL [WI 17; a; b] =>
      match dec_expr a, dec_expr b with Some x, Some y => Some (ESubscript x y) | _, _ => None end
  | WL [WI 18; WI t] => Some (EOther t)
  | _ => None
  end.

Fixpoint dec_val (v : wv) : option pval :=
  let fix decs (l : list wv) : option (list pval) :=
    match l with
    | [] => Some []
    | x :: r => match dec_val x, decs r with Some e, Some es => Some (e :: es) | _, _ => None end
    end in
  match v with
  | WL [WI 0; WI z] => Some (VInt z)
  | WL [WI 1; b] => option_map VBool (un_bool b)
  | WL [WI 2; q] => option_map (fun x => VFloat (Qred x)) (un_q q)
  | WL [WI 3; s] => option_map VStr (un_text s)
  | WL [WI 4; WL es] => option_map VList (decs es)
  | WL [WI 5; WL es] => option_map VTuple (decs es)
  | WL [WI 6] => Some VNone
  | _ => None
  end.

Fixpoint enc_val (v : pval) : wv :=
  let fix encs (l : list pval) : list wv :=
    match l with [] => [] | x :: r => enc_val x :: encs r end in
  match v with
  | VInt z => WL [WI 0; WI z]
  | VBool b => WL [WI 1; wbool b]
  | VFloat q => WL [WI 2; wq q]
  | VStr s => WL [WI 3; wtext s]
  | VList l => WL [WI 4; WL (encs l)]
  | VTuple l => WL [WI 5; WL (encs l)]
  | VNone => WL [WI 6]
  end.

Definition perr_code (e : perr) : Z :=
  match e with ZeroDiv => 1 | TypeErr => 2 | NameErr => 3 | ValueErr => 4 | IndexErr => 5 | OutOfModel => 9 end.

Definition enc_res (r : res pval) : wv :=
  match r with Ok v => WL [WI 0; enc_val v] | Err e => WL [WI 1; WI (perr_code e)] end.

(* environment: ((name value) ...) *)
Fixpoint dec_env (l : list wv) : option env :=
  match l with
  | [] => Some []
  | WL [k; x] :: r =>
      match un_text k, dec_val x, dec_env r with
      | Some kk, Some v, Some e => Some ((kk, v) :: e) | _, _, _ => None end
  | _ => None
  end.
