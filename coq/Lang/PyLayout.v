(* SPECIFICATION side of C07: Python's own layout rules (Language Reference 2.1.3 comments,
   2.1.7 blank lines, 2.1.8 indentation, 2.4.1 string literals) for scripts in which every
   physical line is one logical line (no line continuation, no multi-line string).
   Written independently of Lang/Lex.v; validated against CPython's tokenize/ast by
   harness/props/c07.py (spec validation stream).  No proofs in this file. *)
From Coq Require Import ZArith List Bool Lia.
From RV Require Import Base.Wire.
Import ListNotations.
Open Scope Z_scope.

(* -------------------------------------------------------------- indentation *)
(* "tabs are replaced (from left to right) by one to eight spaces such that the total number
   of characters up to and including the replacement is a multiple of eight" *)
Fixpoint py_indent_from (col : nat) (t : text) : nat :=
  match t with
  | [] => col
  | c :: r => if c =? 32 then py_indent_from (S col) r
              else if c =? 9 then py_indent_from ((col / 8 + 1) * 8)%nat r
              else col
  end.
Definition py_indent (t : text) : nat := py_indent_from O t.

(* -------------------------------------------------------------- comments and string literals *)
Inductive pystate :=
| PCode
| PStr (q : Z) (triple : bool)         (* inside a literal opened by q (or qqq) *)
| PStrEsc (q : Z) (triple : bool).     (* ... just after a backslash *)

Definition is_quote (c : Z) : bool := (c =? 39) || (c =? 34).

(* Some p: a comment starts after the prefix p.  A '#' starts a comment iff it is not part of
   a string literal.  Literals: '...', "...", '''...''', """..."""; a backslash inside a literal
   escapes the next character (also in raw literals, as far as finding the end is concerned). *)
Fixpoint py_cut (st : pystate) (t : text) : option text :=
  match t with
  | [] => None
  | c :: r =>
    match st with
    | PCode =>
        if c =? 35 then Some []
        else if is_quote c then
          match r with
          | c1 :: c2 :: r' =>
              if (c1 =? c) && (c2 =? c)
              then option_map (fun p => c :: c1 :: c2 :: p) (py_cut (PStr c true) r')
              else option_map (cons c) (py_cut (PStr c false) r)
          | _ => option_map (cons c) (py_cut (PStr c false) r)
          end
        else option_map (cons c) (py_cut PCode r)
    | PStr q tr =>
        if c =? 92 then option_map (cons c) (py_cut (PStrEsc q tr) r)
        else if c =? q then
          if tr then
            match r with
            | c1 :: c2 :: r' =>
                if (c1 =? q) && (c2 =? q)
                then option_map (fun p => c :: c1 :: c2 :: p) (py_cut PCode r')
                else option_map (cons c) (py_cut (PStr q true) r)
            | _ => option_map (cons c) (py_cut (PStr q true) r)
            end
          else option_map (cons c) (py_cut PCode r)
        else option_map (cons c) (py_cut (PStr q tr) r)
    | PStrEsc q tr => option_map (cons c) (py_cut (PStr q tr) r)
    end
  end.

Definition py_strip_comment (t : text) : text :=
  match py_cut PCode t with Some p => p | None => t end.
Definition py_has_comment (t : text) : bool :=
  match py_cut PCode t with Some _ => true | None => false end.

(* guards of the comment theorem *)
(* no three consecutive equal quote characters (so no triple-quoted literal can open) *)
Fixpoint no_triple_quote (t : text) : bool :=
  match t with
  | c :: r => negb (is_quote c && match r with c1 :: c2 :: _ => (c1 =? c) && (c2 =? c) | _ => false end)
              && no_triple_quote r
  | [] => true
  end.
(* no backslash outside a string literal (that would be a line continuation) *)
Fixpoint no_code_backslash (st : pystate) (t : text) : bool :=
  match t with
  | [] => true
  | c :: r =>
    match st with
    | PCode => if c =? 35 then true
               else if c =? 92 then false
               else if is_quote c then no_code_backslash (PStr c false) r
               else no_code_backslash PCode r
    | PStr q tr => if c =? 92 then no_code_backslash (PStrEsc q tr) r
                   else if c =? q then no_code_backslash PCode r
                   else no_code_backslash (PStr q tr) r
    | PStrEsc q tr => no_code_backslash (PStr q tr) r
    end
  end.

(* -------------------------------------------------------------- logical lines and blocks *)
Definition py_ws (c : Z) : bool := (c =? 32) || (c =? 9).
Fixpoint py_lskip (t : text) : text :=
  match t with c :: r => if py_ws c then py_lskip r else t | [] => [] end.

(* "a logical line that contains only spaces, tabs, formfeeds and possibly a comment, is ignored" *)
Definition py_logical (l : text) : bool :=
  match py_lskip l with [] => false | c :: _ => negb (c =? 35) end.
Definition py_comment_only (l : text) : bool :=
  match py_lskip l with c :: _ => c =? 35 | [] => false end.

(* the lines that follow a header up to (excluding) the first LOGICAL line that is not indented
   deeper than the header: the logical lines among them are exactly the header's block (the
   maximal run of following logical lines indented deeper); blank and comment-only lines
   belong to no block and end none *)
Fixpoint py_take (base : nat) (ls : list text) : list text :=
  match ls with
  | [] => []
  | l :: r => if py_logical l && (py_indent l <=? base)%nat then [] else l :: py_take base r
  end.

Definition py_block (lines : list text) (start : nat) : list text * nat :=
  let blk := py_take (py_indent (nth start lines [])) (skipn (S start) lines) in
  (blk, (S start + length blk)%nat).

Definition py_block_logical (lines : list text) (start : nat) : list text :=
  filter py_logical (fst (py_block lines start)).
