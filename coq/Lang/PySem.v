(* Reference semantics of the Python expression fragment (what CPython computes).
   Floats are exact rationals (normalised with Qred so that equal values are
   syntactically equal); anything CPython defines but this model does not is
   [OutOfModel] and is excluded from every theorem's hypotheses. *)
From Coq Require Import ZArith QArith Qround Qabs List Bool DecimalZ Decimal.
From RV Require Import Base.Wire Base.Text Lang.PyAst.
Import ListNotations.
Open Scope Z_scope.

Inductive pval : Type :=
| VInt (z : Z) | VBool (b : bool) | VFloat (q : Q) | VStr (s : text)
| VList (l : list pval) | VTuple (l : list pval) | VNone.

Inductive perr := ZeroDiv | TypeErr | NameErr | ValueErr | IndexErr | OutOfModel.

Inductive res (A : Type) : Type := Ok (a : A) | Err (e : perr).
Arguments Ok {A} a. Arguments Err {A} e.

Definition bind {A B} (r : res A) (f : A -> res B) : res B :=
  match r with Ok a => f a | Err e => Err e end.
Notation "'do' x <- r ; k" := (bind r (fun x => k)) (at level 200, x name, r at level 100, k at level 200).

Definition env := list (ident * pval).
Definition lookup (x : ident) (rho : env) : option pval := tlookup x rho.

(* ---- numbers ---- *)
Inductive num := NI (z : Z) | NF (q : Q).
Definition as_num (v : pval) : option num :=
  match v with
  | VInt z => Some (NI z) | VBool b => Some (NI (if b then 1 else 0)) | VFloat q => Some (NF q)
  | _ => None end.
Definition qof (n : num) : Q := match n with NI z => inject_Z z | NF q => q end.
Definition vfloat (q : Q) : pval := VFloat (Qred q).
Definition q_is_zero (q : Q) : bool := Qnum q =? 0.
Definition q_integral (q : Q) : option Z :=
  let r := Qred q in if Pos.eqb (Qden r) 1 then Some (Qnum r) else None.
Definition qfloor_div (a b : Q) : Q := inject_Z (Qfloor (a / b)).
Definition qmod (a b : Q) : Q := a - b * qfloor_div a b.
Definition qtrunc (q : Q) : Z := Z.quot (Qnum q) (Zpos (Qden q)).

Definition truthy (v : pval) : bool :=
  match v with
  | VInt z => negb (z =? 0) | VBool b => b | VFloat q => negb (q_is_zero q)
  | VStr s => negb (match s with [] => true | _ => false end)
  | VList l | VTuple l => negb (match l with [] => true | _ => false end)
  | VNone => false end.

Fixpoint rep {A} (n : nat) (l : list A) : list A :=
  match n with O => [] | S k => l ++ rep k l end.

Definition int_pow (a e : Z) : res pval :=
  if 0 <=? e then Ok (VInt (Z.pow a e))
  else if a =? 0 then Err ZeroDiv
  else Ok (vfloat (Qpower (inject_Z a) e)).

Definition float_pow (a : Q) (e : Z) : res pval :=
  if (e <? 0) && q_is_zero a then Err ZeroDiv else Ok (vfloat (Qpower a e)).

Definition num_bin (op : binop) (a b : num) : res pval :=
  match a, b with
  | NI x, NI y =>
      match op with
      | Add => Ok (VInt (x + y)) | Sub => Ok (VInt (x - y)) | Mult => Ok (VInt (x * y))
      | Div => if y =? 0 then Err ZeroDiv else Ok (vfloat (inject_Z x / inject_Z y))
      | FloorDiv => if y =? 0 then Err ZeroDiv else Ok (VInt (Z.div x y))
      | Mod => if y =? 0 then Err ZeroDiv else Ok (VInt (Z.modulo x y))
      | Pow => int_pow x y
      | BitAnd => Ok (VInt (Z.land x y)) | BitOr => Ok (VInt (Z.lor x y)) | BitXor => Ok (VInt (Z.lxor x y))
      | LShift => if y <? 0 then Err ValueErr else Ok (VInt (Z.shiftl x y))
      | RShift => if y <? 0 then Err ValueErr else Ok (VInt (Z.shiftr x y))
      | MatMult => Err TypeErr
      end
  | _, _ =>
      let p := qof a in let q := qof b in
      match op with
      | Add => Ok (vfloat (p + q)) | Sub => Ok (vfloat (p - q)) | Mult => Ok (vfloat (p * q))
      | Div => if q_is_zero q then Err ZeroDiv else Ok (vfloat (p / q))
      | FloorDiv => if q_is_zero q then Err ZeroDiv else Ok (vfloat (qfloor_div p q))
      | Mod => if q_is_zero q then Err ZeroDiv else Ok (vfloat (qmod p q))
      | Pow => match q_integral q with
               | Some e => float_pow p e
               | None => Err OutOfModel      (* irrational / complex results *)
               end
      | _ => Err TypeErr
      end
  end.

Definition is_intlike (v : pval) : option Z :=
  match v with VInt z => Some z | VBool b => Some (if b then 1 else 0) | _ => None end.

Definition py_bin_num (op : binop) (a b : pval) : res pval :=
  match as_num a, as_num b with
  | Some x, Some y => num_bin op x y
  | _, _ =>
      match op, a, b with
      | Add, VStr s, VStr t => Ok (VStr (s ++ t))
      | Add, VList s, VList t => Ok (VList (s ++ t))
      | Add, VTuple s, VTuple t => Ok (VTuple (s ++ t))
      | Mult, VStr s, _ => match is_intlike b with Some n => Ok (VStr (rep (Z.to_nat n) s)) | None => Err TypeErr end
      | Mult, _, VStr s => match is_intlike a with Some n => Ok (VStr (rep (Z.to_nat n) s)) | None => Err TypeErr end
      | Mult, VList s, _ => match is_intlike b with Some n => Ok (VList (rep (Z.to_nat n) s)) | None => Err TypeErr end
      | Mult, _, VList s => match is_intlike a with Some n => Ok (VList (rep (Z.to_nat n) s)) | None => Err TypeErr end
      | Mod, VStr _, _ => Err OutOfModel       (* printf-style formatting *)
      | _, _, _ => Err TypeErr
      end
  end.

(* bool & bool, bool | bool, bool ^ bool stay bool in Python *)
Definition py_bin (op : binop) (a b : pval) : res pval :=
  match op, a, b with
  | BitAnd, VBool x, VBool y => Ok (VBool (x && y))
  | BitOr, VBool x, VBool y => Ok (VBool (x || y))
  | BitXor, VBool x, VBool y => Ok (VBool (xorb x y))
  | _, _, _ => py_bin_num op a b
  end.

Definition py_un (op : unop) (a : pval) : res pval :=
  match op with
  | Not => Ok (VBool (negb (truthy a)))
  | UAdd => match as_num a with Some (NI z) => Ok (VInt z) | Some (NF q) => Ok (vfloat q) | None => Err TypeErr end
  | USub => match as_num a with Some (NI z) => Ok (VInt (- z)) | Some (NF q) => Ok (vfloat (- q)) | None => Err TypeErr end
  | Invert => match is_intlike a with Some z => Ok (VInt (- z - 1)) | None => Err TypeErr end
  end.

(* ---- comparisons ---- *)
Fixpoint text_cmp (a b : text) : comparison :=
  match a, b with
  | [], [] => Datatypes.Eq | [], _ => Datatypes.Lt | _, [] => Datatypes.Gt
  | x :: a', y :: b' => match Z.compare x y with Datatypes.Eq => text_cmp a' b' | c => c end
  end.

Definition cmp_of (op : cmpop) (c : comparison) : bool :=
  match op, c with
  | PyAst.Eq, Datatypes.Eq => true | PyAst.Eq, _ => false
  | NotEq, Datatypes.Eq => false | NotEq, _ => true
  | PyAst.Lt, Datatypes.Lt => true | PyAst.Lt, _ => false
  | LtE, Datatypes.Gt => false | LtE, _ => true
  | PyAst.Gt, Datatypes.Gt => true | PyAst.Gt, _ => false
  | GtE, Datatypes.Lt => false | GtE, _ => true
  | CmpOther, _ => false
  end.

Definition py_cmp (op : cmpop) (a b : pval) : res bool :=
  match op with
  | CmpOther => Err OutOfModel
  | _ =>
    match as_num a, as_num b with
    | Some x, Some y => Ok (cmp_of op (Qcompare (qof x) (qof y)))
    | _, _ =>
      match a, b with
      | VStr s, VStr t => Ok (cmp_of op (text_cmp s t))
      | VNone, VNone => match op with PyAst.Eq => Ok true | NotEq => Ok false | _ => Err TypeErr end
      | VList _, _ | _, VList _ | VTuple _, _ | _, VTuple _ => Err OutOfModel
      | _, _ => match op with PyAst.Eq => Ok false | NotEq => Ok true | _ => Err TypeErr end
      end
    end
  end.

(* ---- str() ---- *)
Fixpoint uint_digits (u : Decimal.uint) : text :=
  match u with
  | Nil => [] | D0 r => 48 :: uint_digits r | D1 r => 49 :: uint_digits r | D2 r => 50 :: uint_digits r
  | D3 r => 51 :: uint_digits r | D4 r => 52 :: uint_digits r | D5 r => 53 :: uint_digits r
  | D6 r => 54 :: uint_digits r | D7 r => 55 :: uint_digits r | D8 r => 56 :: uint_digits r
  | D9 r => 57 :: uint_digits r end.
Definition z_digits (z : Z) : text :=
  match Z.to_int z with
  | Decimal.Pos u => match uint_digits u with [] => [48] | d => d end
  | Decimal.Neg u => 45 :: uint_digits u
  end.
Definition t_True : text := [84;114;117;101].
Definition t_False : text := [70;97;108;115;101].
Definition t_None : text := [78;111;110;101].

Definition py_str (v : pval) : res text :=
  match v with
  | VInt z => Ok (z_digits z)
  | VBool b => Ok (if b then t_True else t_False)
  | VStr s => Ok s
  | VNone => Ok t_None
  | VFloat _ | VList _ | VTuple _ => Err OutOfModel     (* repr of floats / containers *)
  end.

(* int("  -12 ") : optional blanks, sign, decimal digits *)
Definition is_blank (c : Z) : bool := (c =? 32) || ((9 <=? c) && (c <=? 13)).
Fixpoint lstrip (s : text) : text := match s with c :: r => if is_blank c then lstrip r else s | [] => [] end.
Definition strip (s : text) : text := List.rev (lstrip (List.rev (lstrip s))).
Fixpoint digits_val (acc : Z) (s : text) : option Z :=
  match s with
  | [] => Some acc
  | c :: r => if (48 <=? c) && (c <=? 57) then digits_val (acc * 10 + (c - 48)) r else None
  end.
Definition parse_int (s : text) : res Z :=
  let t := strip s in
  if existsb (fun c => c =? 95) t then Err OutOfModel else
  match t with
  | 45 :: (_ :: _) as d => match digits_val 0 d with Some z => Ok (- z) | None => Err ValueErr end
  | 43 :: (_ :: _) as d => match digits_val 0 d with Some z => Ok z | None => Err ValueErr end
  | _ :: _ => match digits_val 0 t with Some z => Ok z | None => Err ValueErr end
  | [] => Err ValueErr
  end.

(* ---- builtins ---- *)
Definition n_int : ident := [105;110;116].
Definition n_float : ident := [102;108;111;97;116].
Definition n_str : ident := [115;116;114].
Definition n_bool : ident := [98;111;111;108].
Definition n_len : ident := [108;101;110].
Definition n_abs : ident := [97;98;115].
Definition n_max : ident := [109;97;120].
Definition n_min : ident := [109;105;110].

(* first extremal element, Python's max/min scan *)
Fixpoint extremum (want_max : bool) (best : pval) (rest : list pval) : res pval :=
  match rest with
  | [] => Ok best
  | v :: r =>
      do c <- py_cmp (if want_max then PyAst.Gt else PyAst.Lt) v best;
      extremum want_max (if c then v else best) r
  end.

Definition py_minmax (want_max : bool) (args : list pval) : res pval :=
  match args with
  | [] => Err TypeErr
  | [VList (x :: r)] | [VTuple (x :: r)] => extremum want_max x r
  | [VList []] | [VTuple []] => Err ValueErr
  | [VStr _] => Err OutOfModel
  | [_] => Err TypeErr
  | x :: r => extremum want_max x r
  end.

Definition py_call (f : ident) (args : list pval) : res pval :=
  if text_eqb f n_int then
    match args with
    | [VInt z] => Ok (VInt z) | [VBool b] => Ok (VInt (if b then 1 else 0))
    | [VFloat q] => Ok (VInt (qtrunc q))
    | [VStr s] => do z <- parse_int s; Ok (VInt z)
    | [] => Ok (VInt 0)
    | _ => Err TypeErr end
  else if text_eqb f n_float then
    match args with
    | [VStr _] => Err OutOfModel
    | [] => Ok (vfloat 0)
    | [v] => match as_num v with Some n => Ok (vfloat (qof n)) | None => Err TypeErr end
    | _ => Err TypeErr end
  else if text_eqb f n_bool then
    match args with [v] => Ok (VBool (truthy v)) | [] => Ok (VBool false) | _ => Err TypeErr end
  else if text_eqb f n_str then
    match args with [v] => do s <- py_str v; Ok (VStr s) | [] => Ok (VStr []) | _ => Err OutOfModel end
  else if text_eqb f n_len then
    match args with
    | [VStr s] => Ok (VInt (Z.of_nat (length s)))
    | [VList l] | [VTuple l] => Ok (VInt (Z.of_nat (length l)))
    | _ => Err TypeErr end
  else if text_eqb f n_abs then
    match args with
    | [v] => match as_num v with
             | Some (NI z) => Ok (VInt (Z.abs z)) | Some (NF q) => Ok (vfloat (Qabs q)) | None => Err TypeErr end
    | _ => Err TypeErr end
  else if text_eqb f n_max then py_minmax true args
  else if text_eqb f n_min then py_minmax false args
  else Err OutOfModel.

Definition py_index (v i : pval) : res pval :=
  match is_intlike i with
  | None => Err TypeErr
  | Some k =>
      let get {A} (l : list A) (wrap : A -> pval) :=
        let n := Z.of_nat (length l) in
        let j := if k <? 0 then k + n else k in
        if (j <? 0) || (n <=? j) then Err IndexErr
        else match nth_error l (Z.to_nat j) with Some x => Ok (wrap x) | None => Err IndexErr end in
      match v with
      | VList l | VTuple l => get l (fun x => x)
      | VStr s => get s (fun c => VStr [c])
      | _ => Err TypeErr
      end
  end.

(* ---- the evaluator ---- *)
Fixpoint peval (rho : env) (e : pexpr) {struct e} : res pval :=
  let fix evals (l : list pexpr) : res (list pval) :=
    match l with
    | [] => Ok []
    | x :: r => do v <- peval rho x; do vs <- evals r; Ok (v :: vs)
    end in
  let fix evand (l : list pexpr) (last : pval) : res pval :=      (* a and b and c *)
    match l with
    | [] => Ok last
    | x :: r => do v <- peval rho x; if truthy v then evand r v else Ok v
    end in
  let fix evor (l : list pexpr) (last : pval) : res pval :=
    match l with
    | [] => Ok last
    | x :: r => do v <- peval rho x; if truthy v then Ok v else evor r v
    end in
  let fix chain (left : pval) (ops : list cmpop) (rs : list pexpr) {struct rs} : res pval :=
    match rs, ops with
    | r :: rs', op :: ops' =>
        do rv <- peval rho r;
        do c <- py_cmp op left rv;
        if c then chain rv ops' rs' else Ok (VBool false)
    | [], [] => Ok (VBool true)
    | _, _ => Err OutOfModel
    end in
  let fix joined (ps : list pexpr) : res text :=
    match ps with
    | [] => Ok []
    | p :: r =>
        do s <- match p with
                | EStr s => Ok s
                | EFmt true v => do x <- peval rho v; py_str x
                | _ => Err OutOfModel
                end;
        do t <- joined r; Ok (s ++ t)
    end in
  match e with
  | EInt z => Ok (VInt z)
  | EBool b => Ok (VBool b)
  | EFloat q => Ok (vfloat q)
  | EStr s => Ok (VStr s)
  | EConstOther => Err OutOfModel
  | EName x => match lookup x rho with Some v => Ok v | None => Err NameErr end
  | EBin op a b => do x <- peval rho a; do y <- peval rho b; py_bin op x y
  | EUn op a => do x <- peval rho a; py_un op x
  | EBoolOp And vs => evand vs (VBool true)
  | EBoolOp Or vs => evor vs (VBool false)
  | ECompare l ops rs =>
      match ops with [] => Err OutOfModel | _ => do lv <- peval rho l; chain lv ops rs end
  | EIfExp c a b => do cv <- peval rho c; if truthy cv then peval rho a else peval rho b
  | EJoined ps => do s <- joined ps; Ok (VStr s)
  | EFmt _ _ => Err OutOfModel
  | ECall f args [] =>
      match lookup f rho with
      | Some _ => Err OutOfModel                 (* user rebinding of a builtin name *)
      | None => do vs <- evals args; py_call f vs
      end
  | ECall _ _ (_ :: _) => Err OutOfModel
  | EMethod _ _ _ _ => Err OutOfModel
  | EList es => do vs <- evals es; Ok (VList vs)
  | ETuple es => do vs <- evals es; Ok (VTuple vs)
  | ESubscript v i => do x <- peval rho v; do k <- peval rho i; py_index x k
  | EOther _ => Err OutOfModel
  end.
