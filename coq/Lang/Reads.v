(* Which names an expression reads when the reference semantics (Lang/PySem.v) evaluates it, as a check
   [reads_ok ok e]: every name e may look up satisfies [ok].  Forms the reference semantics never evaluates
   (it answers OutOfModel whatever the environment) need no check; tuples and f-strings are not supported by
   the check (false). *)
From Coq Require Import ZArith List Bool.
From RV Require Import Base.Wire Base.Text Lang.PyAst Lang.PySem.
Import ListNotations.

Section Reads.
  Variable ok : ident -> bool.
  Fixpoint reads_ok (e : pexpr) : bool :=
    match e with
    | EName x => ok x
    | EBin _ a b => reads_ok a && reads_ok b
    | EUn _ a => reads_ok a
    | EBoolOp _ vs => forallb reads_ok vs
    | ECompare l _ rs => reads_ok l && forallb reads_ok rs
    | EIfExp c a b => reads_ok c && reads_ok a && reads_ok b
    | ECall f args [] => ok f && forallb reads_ok args          (* a user binding of the callee's name is looked up too *)
    | EList es => forallb reads_ok es
    | ESubscript v i => reads_ok v && reads_ok i
    | EJoined _ | ETuple _ => false
    | _ => true
    end.
End Reads.

(* the environment without the bindings of the names that fail [ok] *)
Definition mask (ok : ident -> bool) (rho : env) : env := filter (fun kv => ok (fst kv)) rho.
