(* The regular expressions of the line-driven parser (parser.py: the module-level RE_* constants and the inline
   re.fullmatch / re.sub patterns) as data, and the textbook backtracking search the `re` engine performs on them.

   [rx] is what the translator (harness/gen/regexes.py) lowers CPython's own parse of each pattern to:
     character sets (restricted to their ASCII members + one flag for "has non-ASCII members"), concatenation,
     alternation, the empty match (also standing for the zero-width assertions ^ $ \b and the single-character
     look-behind, which never consume), and the unbounded repeat.  x? is RAlt x REps, x+ is x x*, x{m,n} is unrolled.

   [ends r w] is the list of successes: one remaining suffix per way of matching r against a prefix of w, in the
   order a backtracking engine tries them.  When whatever follows fails at every one of them the engine visits them all:
   [length (ends r w)] is the number of backtracking paths, the quantity behind "catastrophic backtracking".
   As in the engine, an iteration of a repeat that consumes nothing ends the repeat (no infinite loop).
   No proofs in this file. *)
From Coq Require Import ZArith List Bool Arith.
From RV Require Import Base.Wire.
Import ListNotations.
Open Scope Z_scope.

Record cset := mk_cset { cs_ranges : list (Z * Z);      (* ASCII members, inclusive ranges *)
                         cs_wide : bool }.               (* does the set contain code points above 127? *)

Definition in_ranges (x : Z) (l : list (Z * Z)) : bool :=
  existsb (fun p => (fst p <=? x) && (x <=? snd p)) l.

(* membership; above ASCII the set is over-approximated by its flag *)
Definition cmem (s : cset) (x : Z) : bool :=
  if x <? 128 then in_ranges x (cs_ranges s) else cs_wide s.

Inductive rx :=
| REps
| RSet (s : cset)
| RSeq (a b : rx)
| RAlt (a b : rx)
| RStar (a : rx).

Fixpoint star_ends (step : list Z -> list (list Z)) (fuel : nat) (w : list Z) : list (list Z) :=
  match fuel with
  | O => [w]
  | S f => w :: flat_map (fun w' => if (length w' <? length w)%nat then star_ends step f w' else []) (step w)
  end.

Fixpoint ends (r : rx) (w : list Z) : list (list Z) :=
  match r with
  | REps => [w]
  | RSet s => match w with x :: w' => if cmem s x then [w'] else [] | [] => [] end
  | RSeq a b => flat_map (ends b) (ends a w)
  | RAlt a b => ends a w ++ ends b w
  | RStar a => star_ends (ends a) (length w) w
  end.

Definition paths (r : rx) (w : list Z) : nat := length (ends r w).

(* does some way of matching consume the whole text?  (= re.fullmatch, and = re.match for a pattern that ends in $ on a
   text without line breaks) *)
Definition nullb (w : list Z) : bool := match w with [] => true | _ => false end.
Definition full_match (r : rx) (w : list Z) : bool := existsb nullb (ends r w).
Definition prefix_match (r : rx) (w : list Z) : bool := match ends r w with [] => false | _ => true end.

(* ---- the structural obligation: every unbounded repeat is over ONE character set (star height <= 1, no group under * / +) *)
Fixpoint flat (r : rx) : bool :=
  match r with
  | REps | RSet _ => true
  | RSeq a b | RAlt a b => flat a && flat b
  | RStar (RSet _) => true
  | RStar _ => false
  end.

(* the bound it buys: a polynomial in the length n of the text - one factor n + 1 per unbounded repeat *)
Fixpoint width (r : rx) (n : nat) : nat :=
  match r with
  | REps | RSet _ => 1
  | RSeq a b => width a n * width b n
  | RAlt a b => width a n + width b n
  | RStar _ => S n
  end.

Fixpoint stars (r : rx) : nat :=
  match r with
  | REps | RSet _ => 0
  | RSeq a b | RAlt a b => stars a + stars b
  | RStar a => S (stars a)
  end.

Fixpoint rsize (r : rx) : nat :=
  match r with
  | REps | RSet _ => 1
  | RSeq a b | RAlt a b => S (rsize a + rsize b)
  | RStar a => S (rsize a)
  end.

Fixpoint star_height (r : rx) : nat :=
  match r with
  | REps | RSet _ => 0
  | RSeq a b | RAlt a b => Nat.max (star_height a) (star_height b)
  | RStar a => S (star_height a)
  end.

(* ---- the classic exponential shape: a repeated group whose body is itself an unbounded run *)
Definition rplus (a : rx) : rx := RSeq a (RStar a).
(* (?: [S]* [N]+ )*   - the port fragment of a "path-like segments" rewrite of target(): separators then a name, repeated *)
Definition segment (S N : cset) : rx := RSeq (RStar (RSet S)) (rplus (RSet N)).
Definition segments (S N : cset) : rx := RStar (segment S N).
(* (?: [S]* [N]+ )+ [S]*   exactly *)
Definition port_fragment (S N : cset) : rx := RSeq (rplus (segment S N)) (RStar (RSet S)).

(* one entry of the regenerated inventory *)
Record rentry := mk_re { re_file : text; re_name : text; re_line : Z; re_pat : text; re_rx : rx }.
