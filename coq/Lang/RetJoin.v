(* C10 - a VALUE chosen from a set (not an order of emitted items): parser.py _merge_return_types.

   The inferred types of all return statements of a function are collected in a set of labels
   ("int", "float", "bool", "String", "list[int]", ...) and joined into the C++ return type of the
   function - which is also the declared type of every variable assigned from a call.  The set is
   given here as a duplicate-free list [unique] (its elements in any enumeration) and its iteration
   order as the oracle [sigma] of Lang/Order.v; <set>.pop() is [pop_site sigma].

   [merge_ret]      the code as it is: pop() only under len(unique) == 1, otherwise "int";
   [merge_ret_pop]  the same function with the tail `return unique.pop()` unconditional (a plausible
                    tidying: "what is left is the list type") - kept only to state what the guard buys.
   Model only: no proofs here. *)
From Coq Require Import ZArith List Bool.
From RV Require Import Base.Wire Base.Text Lang.Order.
Import ListNotations.
Open Scope Z_scope.

Inductive jres :=
| JTy (t : ident)        (* the merged label *)
| JErr.                  (* ValueError: bare and value returns mixed / conflicting return types *)

Definition l_void : ident := [118; 111; 105; 100].   (* "void" as code points: no Coq string in the extracted cone *)
Definition l_int : ident := [105; 110; 116].   (* "int" as code points: no Coq string in the extracted cone *)
Definition l_float : ident := [102; 108; 111; 97; 116].   (* "float" as code points: no Coq string in the extracted cone *)
Definition l_bool : ident := [98; 111; 111; 108].   (* "bool" as code points: no Coq string in the extracted cone *)
Definition l_string : ident := [83; 116; 114; 105; 110; 103].   (* "String" as code points: no Coq string in the extracted cone *)

Section Join.
  Variable sigma : list ident -> list ident.

  Definition pop_or_int (unique : list ident) : jres :=
    match pop_site sigma unique with Some t => JTy t | None => JTy l_int end.

  (* the part of both variants above the tail *)
  Definition merge_head (tail : list ident -> jres) (unique : list ident) (has_void : bool) : jres :=
    if has_void then match unique with [] => JTy l_void | _ => JErr end
    else match unique with
         | [] => JTy l_void
         | _ =>
           if tmem l_string unique then (if (1 <? Z.of_nat (List.length unique)) then JErr else JTy l_string)
           else if tmem l_float unique then JTy l_float
           else if tmem l_bool unique && (Z.of_nat (List.length unique) =? 1) then JTy l_bool
           else if tmem l_int unique then JTy l_int
           else tail unique
         end.

  Definition merge_ret : list ident -> bool -> jres :=
    merge_head (fun u => if Z.of_nat (List.length u) =? 1 then pop_or_int u else JTy l_int).

  Definition merge_ret_pop : list ident -> bool -> jres :=
    merge_head pop_or_int.
End Join.

(* at most one label of the set is neither a scalar label nor absorbed by one: the region in which the
   unconditional pop() is harmless *)
Definition one_list_type (unique : list ident) : bool :=
  tmem l_string unique || tmem l_float unique || tmem l_int unique || (Z.of_nat (List.length unique) <=? 1).
