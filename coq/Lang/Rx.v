(* A small regular-expression engine over code-point lists, used to model the RE_* constants of
   src/Reduino/transpile/parser.py exactly as they are written (coq/Gen/LineRx.v is regenerated
   from the compiled patterns on every run).

   Only what `pattern.match(line)` / `bool(list(pattern.finditer(line)))` decide is modelled: whether
   a match exists.  Groups, greedy / lazy preference do not change that and are dropped by the
   translator.  `^` at the start and `$` at the end of a pattern make `match` a full match (the
   lines never contain a line feed).  \s is CPython's str.isspace set (Lex.is_space), \w and \d are
   modelled for ASCII.

   Matching is by Brzozowski derivatives (total, structural); Proofs/RxP.v shows that [rx_match] decides
   membership in the usual denotation [lang].  No proofs in this file. *)
From Coq Require Import ZArith List Bool.
From RV Require Import Base.Wire Base.Text.
Import ListNotations.
Open Scope Z_scope.

(* ---------------------------------------------------------------- character classes *)
(* str.isspace() / regex \s of CPython 3.12 (same set as Lex.is_space; repeated here so that Lex can import this file) *)
Definition rx_space (c : Z) : bool :=
  ((9 <=? c) && (c <=? 13)) || ((28 <=? c) && (c <=? 32)) || (c =? 133) || (c =? 160)
  || (c =? 5760) || ((8192 <=? c) && (c <=? 8202)) || (c =? 8232) || (c =? 8233)
  || (c =? 8239) || (c =? 8287) || (c =? 12288).
Definition rx_word (c : Z) : bool :=
  ((48 <=? c) && (c <=? 57)) || ((65 <=? c) && (c <=? 90)) || (c =? 95) || ((97 <=? c) && (c <=? 122)).
Definition rx_digit (c : Z) : bool := (48 <=? c) && (c <=? 57).

Inductive citem := IRange (lo hi : Z) | ISpace | IWord | IDigit.
Inductive cc := CAny | CC (neg : bool) (items : list citem).

Definition item_mem (c : Z) (i : citem) : bool :=
  match i with
  | IRange lo hi => (lo <=? c) && (c <=? hi)
  | ISpace => rx_space c
  | IWord => rx_word c
  | IDigit => rx_digit c
  end.
Definition cc_mem (k : cc) (c : Z) : bool :=
  match k with
  | CAny => negb (c =? 10)
  | CC neg items => xorb neg (existsb (item_mem c) items)
  end.

Definition citem_eqb (a b : citem) : bool :=
  match a, b with
  | IRange l1 h1, IRange l2 h2 => (l1 =? l2) && (h1 =? h2)
  | ISpace, ISpace | IWord, IWord | IDigit, IDigit => true
  | _, _ => false
  end.
Fixpoint citems_eqb (a b : list citem) : bool :=
  match a, b with
  | [], [] => true
  | x :: a', y :: b' => citem_eqb x y && citems_eqb a' b'
  | _, _ => false
  end.
Definition cc_eqb (a b : cc) : bool :=
  match a, b with
  | CAny, CAny => true
  | CC n1 i1, CC n2 i2 => Bool.eqb n1 n2 && citems_eqb i1 i2
  | _, _ => false
  end.

(* ---------------------------------------------------------------- expressions *)
Inductive rx := RNil | REps | RC (k : cc) | RCat (a b : rx) | RAlt (a b : rx) | RStar (a : rx).

Fixpoint rx_eqb (a b : rx) : bool :=
  match a, b with
  | RNil, RNil | REps, REps => true
  | RC k1, RC k2 => cc_eqb k1 k2
  | RCat a1 a2, RCat b1 b2 => rx_eqb a1 b1 && rx_eqb a2 b2
  | RAlt a1 a2, RAlt b1 b2 => rx_eqb a1 b1 && rx_eqb a2 b2
  | RStar a1, RStar b1 => rx_eqb a1 b1
  | _, _ => false
  end.

(* what the translator writes *)
Definition lit (c : Z) : rx := RC (CC false [IRange c c]).
Definition rsp : rx := RC (CC false [ISpace]).
Definition rword : rx := RC (CC false [IWord]).
Definition rany : rx := RC CAny.
Definition rall : rx := RC (CC true []).            (* every code point (not a pattern element: used for prefix matching) *)
Definition rplus (a : rx) : rx := RCat a (RStar a).
Definition ropt (a : rx) : rx := RAlt a REps.
Fixpoint cat_list (l : list rx) : rx :=
  match l with
  | [] => REps
  | [a] => a
  | a :: r => RCat a (cat_list r)
  end.
Definition lits (t : text) : list rx := map lit t.

(* ---------------------------------------------------------------- derivatives *)
Fixpoint nullable (r : rx) : bool :=
  match r with
  | RNil => false
  | REps => true
  | RC _ => false
  | RCat a b => nullable a && nullable b
  | RAlt a b => nullable a || nullable b
  | RStar _ => true
  end.

(* b is one of the alternatives a is made of *)
Fixpoint alt_has (b a : rx) : bool :=
  rx_eqb a b || match a with RAlt a1 a2 => alt_has b a1 || alt_has b a2 | _ => false end.

Definition mk_alt (a b : rx) : rx :=
  match a, b with
  | RNil, _ => b
  | _, RNil => a
  | _, _ => if alt_has b a then a else RAlt a b
  end.
Definition mk_cat (a b : rx) : rx :=
  match a, b with
  | RNil, _ => RNil
  | _, RNil => RNil
  | REps, _ => b
  | _, REps => a
  | _, _ => RCat a b
  end.

Fixpoint deriv (c : Z) (r : rx) : rx :=
  match r with
  | RNil => RNil
  | REps => RNil
  | RC k => if cc_mem k c then REps else RNil
  | RCat a b => if nullable a then mk_alt (mk_cat (deriv c a) b) (deriv c b) else mk_cat (deriv c a) b
  | RAlt a b => mk_alt (deriv c a) (deriv c b)
  | RStar a => mk_cat (deriv c a) (RStar a)
  end.

Fixpoint derivs (r : rx) (s : text) : rx :=
  match s with
  | [] => r
  | c :: q => derivs (deriv c r) q
  end.

(* pattern.match(s) for a pattern of the form ^...$ *)
Definition rx_match (r : rx) (s : text) : bool := nullable (derivs r s).
(* pattern.match(s) for a pattern without $ : some prefix of s matches *)
Definition rx_prefix (r : rx) (s : text) : bool := rx_match (RCat r (RStar rall)) s.

(* bool(list(pattern.finditer(s))) for a pattern of the form (?<!\.)\b<body> whose body starts with a
   word character: a match may start where the preceding character is neither '.' nor a word character *)
Definition boundary_ok (prev : option Z) : bool :=
  match prev with None => true | Some p => negb (rx_word p) && negb (p =? 46) end.
Fixpoint rx_search_nb (body : rx) (prev : option Z) (s : text) : bool :=
  (boundary_ok prev && rx_prefix body s)
  || match s with [] => false | c :: q => rx_search_nb body (Some c) q end.

(* ---------------------------------------------------------------- SPEC: the language of an expression *)
Fixpoint lang (r : rx) (s : text) : Prop :=
  match r with
  | RNil => False
  | REps => s = []
  | RC k => exists c, s = [c] /\ cc_mem k c = true
  | RCat a b => exists s1 s2, s = s1 ++ s2 /\ lang a s1 /\ lang b s2
  | RAlt a b => lang a s \/ lang b s
  | RStar a => exists ss, s = concat ss /\ Forall (lang a) ss
  end.
