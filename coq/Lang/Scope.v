(* C06 - declared before use for USER VARIABLES in the IR the statement translator produces
   (Lang/Transl.v: _handle_assignment_ast, tuple assignment, the if/while/for handlers with
   promotion and the two rewriters).

   C++ block scoping over the IR: a [NDecl x _ _ false] (a VarDecl the emitter prints as
   "T x = e;") makes x visible in the REST of its block and in every nested block; a for header
   declares its variable for the body; global declarations (gdecl, printed at file scope before
   every function) are visible everywhere.  [scoped_b aug V l] checks that the target of every
   assignment in block l is visible, V being the names visible at the start of the block.
   With aug = false the targets of augmented assignments (x op= e, which the parser never
   declares: a Python NameError when x is unbound) are not checked; aug = true checks them too.
   Redeclaration in one block, expression reads and the tuple temporaries are NOT covered here
   (g++ decides them in the harness).  No proofs in this file. *)
From Coq Require Import ZArith List Bool.
From RV Require Import Base.Wire Base.Text Lang.StmtAst Lang.Transl.
Import ListNotations.
Open Scope Z_scope.

Definition decl_of (n : cnode) : list ident :=
  match n with NDecl x _ _ false => [x] | _ => [] end.

Definition checked (e : cexpr) : bool :=
  match e with XAug _ _ _ => false | _ => true end.

Fixpoint scoped_n (aug : bool) (V : list ident) (n : cnode) : bool :=
  let fix go (V : list ident) (l : list cnode) : bool :=
    match l with [] => true | x :: r => scoped_n aug V x && go (decl_of x ++ V) r end in
  let fix gob (V : list ident) (l : list (Z * list cnode)) : bool :=
    match l with [] => true | (_, b) :: r => go V b && gob V r end in
  match n with
  | NAssign x e => if checked e || aug then tmem x V else true
  | NIf bs els => gob V bs && go V els
  | NWhile _ b => go V b
  | NFor x _ b => go (x :: V) b
  | _ => true
  end.

Fixpoint scoped_b (aug : bool) (V : list ident) (l : list cnode) : bool :=
  match l with [] => true | x :: r => scoped_n aug V x && scoped_b aug (decl_of x ++ V) r end.

Fixpoint scoped_bs (aug : bool) (V : list ident) (l : list (Z * list cnode)) : bool :=
  match l with [] => true | (_, b) :: r => scoped_b aug V b && scoped_bs aug V r end.

(* names declared at the top level of a block *)
Definition topdecls (l : list cnode) : list ident := flat_map decl_of l.

Definition gnames (gl : list gdecl) : list ident := map g_name gl.

(* the whole sketch: globals are visible in setup() and in loop(); locals of setup() are not
   visible in loop() *)
Definition scoped_prog (aug : bool) (c : cprog) : bool :=
  scoped_b aug (gnames (c_globals c)) (c_setup c) && scoped_b aug (gnames (c_globals c)) (c_loop c).

(* ---- witnesses of the two listed findings, as source programs of the model ---- *)
Definition mk_ann (id : Z) (t : ty) (c : bool) (fv : list ident) : ann :=
  {| a_id := id; a_ty := t; a_const := c; a_fv := fv |}.

(* a = 1 ; a, b = 2, 3 ; while True: b = b + 1 *)
Definition tuple_witness : pprog :=
  {| p_pre := [PAssign [97] (mk_ann 0 TyInt true []);
               PTuple [[97]; [98]] [mk_ann 1 TyInt true []; mk_ann 2 TyInt true []]];
     p_main := Some [PAssign [98] (mk_ann 3 TyInt false [[98]])] |}.

(* for i in range(3): sleep(1) ; i += 1 *)
Definition forvar_witness : pprog :=
  {| p_pre := [PFor [105] (mk_ann 0 TyInt true []) [PSleep (mk_ann 1 TyInt true [])];
               PAug [105] 0 (mk_ann 2 TyInt true []) TyInt];
     p_main := Some [PSleep (mk_ann 3 TyInt true [])] |}.

(* x = 1 ; if c: y = x ; else: y = 2 ; for i in range(n): z = y ; w, x = z, y ; while True: y = y + 1; if c: q = 1 ; q = 2 *)
Definition scope_demo : pprog :=
  {| p_pre := [PAssign [120] (mk_ann 0 TyInt true []);
               PIf (mk_ann 1 TyBool false [[120]])
                   [PAssign [121] (mk_ann 2 TyInt false [[120]])] []
                   [PAssign [121] (mk_ann 3 TyInt true [])];
               PFor [105] (mk_ann 4 TyInt false [[120]])
                    [PAssign [122] (mk_ann 5 TyInt false [[121]])]];
     p_main := Some [PAssign [121] (mk_ann 6 TyInt false [[121]]);
                     PIf (mk_ann 7 TyBool false [[121]]) [PAssign [113] (mk_ann 8 TyInt true [])] [] [];
                     PAssign [113] (mk_ann 9 TyInt true []);
                     PTuple [[119]; [113]] [mk_ann 10 TyInt false [[121]]; mk_ann 11 TyInt false [[113]]]] |}.
