(* From the skeleton of a whole script (what parse() hands over: column-0 statements and chains,
   the main loop, function definitions - Lex.sitem) to the sections of the sketch emit() writes:
   one section per `def` (in script order), then setup() with the IR of every column-0 statement
   in order, then loop() with the IR of the main-loop bodies.  Each column-0 construct is parsed by
   its own call of _parse_simple_lines and the node lists are concatenated (setup_body.extend /
   loop_body.extend in parse()).  The statement layer enters as in Lang/EmitBlocks.v (tr, cx, fv,
   fn, ex); [fh] gives the C++ header line of a function from its def header.
   SPEC [script_cs]: what Python's block tree prescribes for the compound statements of the sketch.
   No proofs in this file. *)
From Coq Require Import ZArith List Bool.
From RV Require Import Base.Wire Base.Text Lang.Lex Lang.EmitBlocks.
Import ListNotations.
Open Scope Z_scope.

Section Script.
  Variable tr : text -> list (list text).
  Variables cx fv fn ex : text -> text.
  Variable fh : text -> text.               (* def header -> C++ function header (the text before ` {`) *)
  Variables hs hl : text.                   (* `void setup()`, `void loop()` *)
  Variables phs phl : list text.            (* placeholder comment lines of an empty setup() / loop() *)

  Definition setup_ir (its : list sitem) : list ir :=
    flat_map (fun i => match i with SSetup ns => to_ir tr cx fv fn ex ns | _ => [] end) its.
  Definition loop_ir (its : list sitem) : list ir :=
    flat_map (fun i => match i with SLoop ns => to_ir tr cx fv fn ex ns | _ => [] end) its.
  Definition def_sections (its : list sitem) : list (text * list text * list ir) :=
    flat_map (fun i => match i with SDef h ns => [(fh h, @nil text, to_ir tr cx fv fn ex ns)] | _ => [] end) its.
  Definition script_sections (its : list sitem) : list (text * list text * list ir) :=
    def_sections its ++ [(hs, phs, setup_ir its); (hl, phl, loop_ir its)].

  Definition setup_cs (its : list sitem) : list ctree :=
    flat_map (fun i => match i with SSetup ns => py_cs tr cx fv fn ex ns | _ => [] end) its.
  Definition loop_cs (its : list sitem) : list ctree :=
    flat_map (fun i => match i with SLoop ns => py_cs tr cx fv fn ex ns | _ => [] end) its.
  Definition def_cs (its : list sitem) : list ctree :=
    flat_map (fun i => match i with SDef h ns => [CBlock (fh h) (py_cs tr cx fv fn ex ns)] | _ => [] end) its.
  Definition script_cs (its : list sitem) : list ctree :=
    def_cs its ++ [CBlock hs (setup_cs its); CBlock hl (loop_cs its)].

  (* guard: Python's grammar for elif / else / except at every level and closed pieces of C++ for
     the simple statements (EmitBlocks.chain_ok), well-formed section headers and placeholders *)
  Definition item_ok (i : sitem) : bool :=
    match i with
    | SSetup ns | SLoop ns => chain_ok tr PvNone ns
    | SDef h ns => hdr_ok (fh h) && chain_ok tr PvNone ns
    end.
  Definition script_ok (its : list sitem) : bool :=
    hdr_ok hs && hdr_ok hl && ph_ok phs && ph_ok phl && forallb item_ok its.
End Script.
