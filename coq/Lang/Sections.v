(* C06 - the stitching order of the emitted sketch (end of emit(), transpile/emitter.py).

   The emitter builds the translation unit by concatenating, in this fixed order,

     HEADER (#include <Arduino.h>), the library includes (Servo.h, LiquidCrystal.h,
     Wire.h + LiquidCrystal_I2C.h), the helper snippets (LCD helper, list helper, len
     helper), the globals (user globals first, then device state in declaration order,
     then the LCD animation states found in setup/loop), the PROTOTYPES (one forward
     declaration per emitted user function variant, in definition order, then one per
     ultrasonic measurement helper, sorted by sensor name - added by the fix "forward-declare
     functions"), the user function definitions (in definition order), the ultrasonic
     measurement helpers (sorted by sensor name), void setup(), void loop().

   Abstractly every top-level item DEFINES some identifiers (the names it declares at
   file scope) and USES some (the file-scope names its text mentions); C++ requires every
   use to be preceded by a declaration (a function may mention itself).  A prototype declares
   the name of its function; besides that it mentions only parameter / return types (int,
   float, bool, String, __redu_list<T>), which come from Arduino.h and the list helper snippet
   - both earlier by the section order - and are not tracked as uses of the prototype.

   [stitch_noproto] / [guard_noproto] are the order and the guard BEFORE the repair, kept as the
   contrast that shows what the prototypes are for.  No proofs here. *)
From Coq Require Import ZArith List Bool.
From RV Require Import Base.Wire.
Import ListNotations.
Open Scope Z_scope.

Definition ident := Z.

Inductive skind : Type :=
| KInclude | KHelper | KGlobal | KFunction | KUltra | KSetup | KLoop | KProto.

(* position of a section kind in the emitted text; the prototypes sit between the globals
   and the functions *)
Definition rank (k : skind) : Z :=
  match k with
  | KInclude => 0 | KHelper => 1 | KGlobal => 2 | KProto => 3 | KFunction => 4
  | KUltra => 5 | KSetup => 6 | KLoop => 7
  end.

Definition body : Type := (list ident * list ident)%type.      (* (defines, uses) *)
Definition item : Type := (skind * body)%type.

Definition ikind (i : item) : skind := fst i.
Definition idefs (i : item) : list ident := fst (snd i).
Definition iuses (i : item) : list ident := snd (snd i).

Record sketch : Type := {
  sk_includes  : list body;     (* Arduino.h first *)
  sk_helpers   : list body;
  sk_globals   : list body;
  sk_functions : list body;     (* user functions, definition order *)
  sk_ultras    : list body;     (* __redu_ultrasonic_measure_<name> helpers *)
  sk_setup     : body;
  sk_loop      : body
}.

Definition tag (k : skind) (b : body) : item := (k, b).

(* one forward declaration per function definition / ultrasonic helper *)
Definition proto_of (b : body) : item := (KProto, (fst b, [])).
Definition protos (sk : sketch) : list item := map proto_of (sk_functions sk ++ sk_ultras sk).

(* the emitter's order *)
Definition stitch (sk : sketch) : list item :=
  map (tag KInclude) (sk_includes sk) ++
  map (tag KHelper) (sk_helpers sk) ++
  map (tag KGlobal) (sk_globals sk) ++
  protos sk ++
  map (tag KFunction) (sk_functions sk) ++
  map (tag KUltra) (sk_ultras sk) ++
  [tag KSetup (sk_setup sk); tag KLoop (sk_loop sk)].

(* the order before the repair: no prototypes *)
Definition stitch_noproto (sk : sketch) : list item :=
  map (tag KInclude) (sk_includes sk) ++
  map (tag KHelper) (sk_helpers sk) ++
  map (tag KGlobal) (sk_globals sk) ++
  map (tag KFunction) (sk_functions sk) ++
  map (tag KUltra) (sk_ultras sk) ++
  [tag KSetup (sk_setup sk); tag KLoop (sk_loop sk)].

Fixpoint memz (a : Z) (l : list Z) : bool :=
  match l with [] => false | b :: r => (a =? b) || memz a r end.

Definition defs_of (l : list body) : list ident := flat_map fst l.

(* every use is preceded by its definition (or is a self-reference) *)
Fixpoint wf_from (seen : list ident) (l : list item) : bool :=
  match l with
  | [] => true
  | it :: r =>
      forallb (fun u => memz u (idefs it ++ seen)) (iuses it) &&
      wf_from (idefs it ++ seen) r
  end.

Definition wf_order (l : list item) : bool := wf_from [] l.

(* the uses that violate it, with the 0-based position of the offending item *)
Fixpoint undeclared_from (pos : Z) (seen : list ident) (l : list item) : list (Z * ident) :=
  match l with
  | [] => []
  | it :: r =>
      map (fun u => (pos, u)) (filter (fun u => negb (memz u (idefs it ++ seen))) (iuses it)) ++
      undeclared_from (pos + 1) (idefs it ++ seen) r
  end.

Definition undeclared (l : list item) : list (Z * ident) := undeclared_from 0 [] l.

(* Prop reading of wf_order *)
Definition declared_before (l : list item) : Prop :=
  forall pre it post, l = pre ++ it :: post ->
  forall u, In u (iuses it) ->
    In u (idefs it) \/ exists j, In j pre /\ In u (idefs j).

(* ---- the guard of the partial theorem: what each section may mention ---- *)
Definition section_ok (avail : list ident) (k : skind) (l : list body) : bool :=
  wf_from avail (map (tag k) l).

Definition body_ok (avail : list ident) (b : body) : bool :=
  forallb (fun u => memz u (fst b ++ avail)) (snd b).

(* with the prototypes a function (and an ultrasonic helper) may mention ANY user function and
   ANY ultrasonic helper, wherever it is defined; everything else as before: includes, helper
   snippets and globals only what precedes them, setup / loop everything at file scope *)
Definition guard (sk : sketch) : bool :=
  let inc := defs_of (sk_includes sk) in
  let hlp := defs_of (sk_helpers sk) in
  let glb := defs_of (sk_globals sk) in
  let fns := defs_of (sk_functions sk) in
  let ult := defs_of (sk_ultras sk) in
  section_ok [] KInclude (sk_includes sk) &&
  section_ok inc KHelper (sk_helpers sk) &&
  section_ok (hlp ++ inc) KGlobal (sk_globals sk) &&
  forallb (body_ok (ult ++ fns ++ glb ++ hlp ++ inc)) (sk_functions sk) &&
  forallb (body_ok (ult ++ fns ++ glb ++ hlp ++ inc)) (sk_ultras sk) &&
  body_ok (ult ++ fns ++ glb ++ hlp ++ inc) (sk_setup sk) &&
  body_ok (fst (sk_setup sk) ++ ult ++ fns ++ glb ++ hlp ++ inc) (sk_loop sk).

(* the guard the order without prototypes needed: functions only includes, helper snippets,
   globals, themselves and EARLIER functions - no ultrasonic helper, no later function *)
Definition guard_noproto (sk : sketch) : bool :=
  let inc := defs_of (sk_includes sk) in
  let hlp := defs_of (sk_helpers sk) in
  let glb := defs_of (sk_globals sk) in
  let fns := defs_of (sk_functions sk) in
  let ult := defs_of (sk_ultras sk) in
  section_ok [] KInclude (sk_includes sk) &&
  section_ok inc KHelper (sk_helpers sk) &&
  section_ok (hlp ++ inc) KGlobal (sk_globals sk) &&
  section_ok (glb ++ hlp ++ inc) KFunction (sk_functions sk) &&
  section_ok (glb ++ hlp ++ inc) KUltra (sk_ultras sk) &&
  body_ok (ult ++ fns ++ glb ++ hlp ++ inc) (sk_setup sk) &&
  body_ok (fst (sk_setup sk) ++ ult ++ fns ++ glb ++ hlp ++ inc) (sk_loop sk).

(* ---- the shapes of the two repaired findings: a user function that calls
        <sensor>.measure_distance() ---- *)
Definition ultra_in_function (core fn helper : ident) : sketch :=
  {| sk_includes := [([core], [])];
     sk_helpers := [];
     sk_globals := [];
     sk_functions := [([fn], [helper])];
     sk_ultras := [([helper], [core])];
     sk_setup := ([], [core]);
     sk_loop := ([], [fn]) |}.

(* a user function calling one that is defined later in the script *)
Definition forward_call (core f g : ident) : sketch :=
  {| sk_includes := [([core], [])];
     sk_helpers := [];
     sk_globals := [];
     sk_functions := [([f], [g]); ([g], [])];
     sk_ultras := [];
     sk_setup := ([], []);
     sk_loop := ([], [f]) |}.
