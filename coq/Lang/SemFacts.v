(* The facts about the opaque expression semantics ([sem], [augsem]) that the statement-layer
   simulation (C01_stmt_preserve_partial) relies on.  They are the interface to the
   expression layer (unit C01_expr / C02): each clause is a statement about expressions only. *)
From Coq Require Import ZArith QArith List Bool.
From RV Require Import Base.Wire Base.Text Lang.StmtAst Lang.StmtSem Lang.StmtGuard.
Import ListNotations.
Open Scope Z_scope.

(* every augmented assignment of a statement: (operator, right-hand side, label after) *)
Fixpoint augs_of (p : pstmt) : list (Z * ann * ty) :=
  let fix go (l : list pstmt) : list (Z * ann * ty) :=
    match l with [] => [] | x :: r => augs_of x ++ go r end in
  let fix gob (l : list (ann * list pstmt)) : list (Z * ann * ty) :=
    match l with [] => [] | (_, b) :: r => go b ++ gob r end in
  match p with
  | PAug _ op e t => [(op, e, t)]
  | PIf _ b el e => go b ++ gob el ++ go e
  | PWhile _ b => go b
  | PFor _ _ b => go b
  | _ => []
  end.
Definition prog_augs (p : pprog) : list (Z * ann * ty) :=
  flat_map augs_of (p_pre p) ++ match p_main p with Some b => flat_map augs_of b | None => [] end.

Record sem_facts (sem : Z -> list (option val) -> option val) (augsem : Z -> val -> val -> option val)
                 (p : pprog) : Prop := {
  (* typed: the label _infer_expr_type gives an expression is the type of its value (C02 for
     expressions).  Needed because the C variable has the declared type of the FIRST label:
     storing a value of another type converts it ([conv]), Python stores it unchanged. *)
  sf_typed : forall a, In a (prog_anns p) -> forall args v,
      Forall (fun o => o <> None) args ->
      sem (a_id a) args = Some v -> has_ty (a_ty a) v = true;
  (* aug typed: the label inferred for (x op e) is the type of its value, for operands of the
     labelled types.  Needed for the same reason for `x op= e`. *)
  sf_aug : forall op e t, In (op, e, t) (prog_augs p) -> forall u v w,
      has_ty t u = true -> has_ty (a_ty e) v = true ->
      augsem op u v = Some w -> has_ty t w = true
}.
(* Nothing is assumed about loop counts beyond [as_count], nothing about strictness of [sem]
   (the guard already makes every free variable bound on both sides), nothing about constants
   (that a constant global initialiser is defined follows from the Python run). *)
