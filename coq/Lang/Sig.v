(* Python signatures as data (the generated table coq/Gen/Signatures.v is written in
   these types).  Model file: definitions only. *)
From Coq Require Import ZArith List Bool.
From RV Require Import Base.Wire Base.Text.
Import ListNotations.
Open Scope Z_scope.

(* kind of a parameter; positional-only, *args and **kwargs make the translator abort *)
Inductive pkind := PK (* positional-or-keyword *) | KO (* keyword-only *).

(* a default value as far as binding is concerned: None, a number (exact, as a
   normalised fraction n/d, so 544.0 and 544 coincide), a string, a bool *)
Inductive dval :=
| DNone
| DNum (n d : Z)
| DStr (t : text)
| DBool (b : bool).

Record param := mkp { p_name : text; p_kind : pkind; p_default : option dval (* None = required *) }.
Definition signature := list param.

Definition dval_eqb (a b : dval) : bool :=
  match a, b with
  | DNone, DNone => true
  | DNum n d, DNum n' d' => (n =? n') && (d =? d')
  | DStr t, DStr t' => text_eqb t t'
  | DBool x, DBool y => Bool.eqb x y
  | _, _ => false
  end.
