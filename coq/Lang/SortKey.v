(* C10 - sorted(<set>, key=k): the canonical order of a sorted() site that takes a KEY.  Model only: no proofs here.

   CPython's sorted() is stable: elements whose keys compare equal keep the order in which the iterable produced them - for a
   set, the iteration order of the set, i.e. the oracle [sigma] of Lang/Order.v.  [keyed_sorted_site] is that: a stable insertion
   sort by key of the set as iterated.  The code as it is has NO such site (every sorted() over a set is key-less: obligation
   C10_sorted_sites_keyless on the regenerated inventory); [sorted_site] of Lang/Order.v is the instance key = the name itself.

   Three keys a maintainer might plausibly reach for, none injective on identifiers:
     [natkey]   natural number order, tuple(int(c) if c.isdigit() else c for c in re.split(r"(\d+)", name)) - ASCII digits;
                key1 / key01 / key001 tie;
     [lowerkey] name.lower() (ASCII) - key1 / Key1 / KEY1 tie;
     [lenkey]   len(name). *)
From Coq Require Import ZArith List Bool String.
From RV Require Import Base.Wire Base.Text Lang.Order.
Import ListNotations.
Open Scope Z_scope.

Section Keyed.
  Variable K : Type.
  Variable kle : K -> K -> bool.            (* key(a) <= key(b) *)
  Variable key : ident -> K.

  (* x goes in front of the first element whose key is not smaller: among equal keys the one inserted LAST comes first *)
  Fixpoint kinsert (x : ident) (l : list ident) : list ident :=
    match l with
    | [] => [x]
    | y :: r => if kle (key x) (key y) then x :: l else y :: kinsert x r
    end.

  (* fold from the right: of two elements with equal keys the one that came first in [l] is inserted last, hence stays first *)
  Fixpoint ksort (l : list ident) : list ident :=
    match l with [] => [] | x :: r => kinsert x (ksort r) end.

  (* sorted(<set>, key=key) under the iteration oracle sigma *)
  Definition keyed_sorted_site (sigma : list ident -> list ident) (names : list ident) : list ident :=
    ksort (sigma names).

  (* two names the key cannot tell apart *)
  Definition key_tie (x y : ident) : bool := kle (key x) (key y) && kle (key y) (key x).

  (* the key separates the names of [l] *)
  Definition key_injective_on (l : list ident) : Prop :=
    forall x y, In x l -> In y l -> key_tie x y = true -> x = y.
End Keyed.

(* ---------------------------------------------------------------- natural number order *)
Inductive chunk := CT (t : text) | CN (n : Z).

Definition is_digit (c : Z) : bool := (48 <=? c) && (c <=? 57).

(* re.split(r"(\d+)", name): text, number, text, ..., text  (always starts and ends with a text chunk, possibly empty);
   [cur] is the current text chunk, reversed *)
Fixpoint nk_text (s : text) (cur : text) : list chunk :=
  match s with
  | [] => [CT (rev cur)]
  | c :: r => if is_digit c then CT (rev cur) :: nk_num r (c - 48) else nk_text r (c :: cur)
  end
with nk_num (s : text) (n : Z) : list chunk :=
  match s with
  | [] => [CN n; CT []]
  | c :: r => if is_digit c then nk_num r (10 * n + (c - 48)) else CN n :: nk_text r [c]
  end.

Definition natkey (name : ident) : list chunk := nk_text name [].

Definition chunk_eqb (a b : chunk) : bool :=
  match a, b with
  | CT x, CT y => text_eqb x y
  | CN x, CN y => x =? y
  | _, _ => false
  end.

(* positions of two natural keys hold chunks of the same kind (even: text, odd: number); a mixed comparison - TypeError in
   Python - cannot arise and is given an arbitrary value *)
Definition chunk_leb (a b : chunk) : bool :=
  match a, b with
  | CT x, CT y => text_leb x y
  | CN x, CN y => x <=? y
  | _, _ => true
  end.

(* tuple comparison: the first position that differs decides, a proper prefix is smaller *)
Fixpoint chunks_leb (a b : list chunk) : bool :=
  match a, b with
  | [], _ => true
  | _ :: _, [] => false
  | x :: a', y :: b' => if chunk_eqb x y then chunks_leb a' b' else chunk_leb x y
  end.

(* ---------------------------------------------------------------- case folding, length *)
Definition lower_cp (c : Z) : Z := if (65 <=? c) && (c <=? 90) then c + 32 else c.
Definition lowerkey (name : ident) : text := map lower_cp name.
Definition lenkey (name : ident) : Z := Z.of_nat (List.length name).

(* the key-less site is the instance "key = the name, compared by code points" *)
Definition idkey (name : ident) : text := name.

(* the names of the witnesses *)
Definition n_key1 : ident := txt "key1"%string.
Definition n_key01 : ident := txt "key01"%string.
Definition n_key2 : ident := txt "key2"%string.
Definition n_key10 : ident := txt "key10"%string.
Definition n_Key1 : ident := txt "Key1"%string.
