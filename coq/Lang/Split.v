(* C05 - the setup()/loop() split of parse() (parser.py 4179-4388), as a model.

   Source programs are lists of top-level [item]s over abstract statements:
   an observable marker (optionally touching a device), a device declaration,
   an integer assignment / print (variable lifetime), an LCD animation start,
   [break], and the nested block shapes that matter for the [break] guard
   and for declaration promotion ([if x: ... else: ...] and [try: ... except: ...] keep
   loop_depth and parse every branch in its own child ctx, [for _ in range(k):] and
   [while x:] increment it).

   [split]     = where parse() puts each top-level statement (setup_body / loop_body); parse() raises
                 ValueError for any top-level statement after the column-0 [while True:] block
                 ([main_last], part of [Emit.transl_ok]), so for an accepted program the main loop is
                 the last item and [split] never sees anything behind it
   [inject]    = ButtonPoll / LCDTick nodes prepended to loop_body (polls, then ticks,
                 each in Python [sorted] order of the names)
   [classify]  = which assigned names become C globals / locals of loop(): every name is a sketch
                 global, also one first assigned inside [while True:] (it keeps its value between passes)
   [ir_items]  = the node lists of the IR (what the correspondence compares with the
                 real Program dataclasses)
   No proofs in this file. *)
From Coq Require Import ZArith List Bool.
Import ListNotations.
Open Scope Z_scope.

(* ------------------------------------------------------------------ names *)
Definition name := list Z.          (* a Python identifier = its code points *)

Fixpoint name_eqb (a b : name) : bool :=
  match a, b with
  | [], [] => true
  | x :: a', y :: b' => (x =? y) && name_eqb a' b'
  | _, _ => false
  end.

(* Python's str <= : lexicographic on code points, a proper prefix is smaller *)
Fixpoint name_leb (a b : name) : bool :=
  match a, b with
  | [], _ => true
  | _ :: _, [] => false
  | x :: a', y :: b' => if x <? y then true else if y <? x then false else name_leb a' b'
  end.

Definition mem_name (x : name) (l : list name) : bool := existsb (name_eqb x) l.

Fixpoint dedup (l : list name) : list name :=
  match l with
  | [] => []
  | x :: r => if mem_name x r then dedup r else x :: dedup r
  end.

Fixpoint insert_name (x : name) (l : list name) : list name :=
  match l with
  | [] => [x]
  | y :: r => if name_leb x y then x :: l else y :: insert_name x r
  end.

Definition sort_names (l : list name) : list name := fold_right insert_name [] l.

(* sorted(set(l)) *)
Definition sorted_set (l : list name) : list name := sort_names (dedup l).

(* names of [l] not in [declared], first occurrence only, in order *)
Fixpoint fresh (declared : list name) (l : list name) : list name :=
  match l with
  | [] => []
  | x :: r => if mem_name x declared then fresh declared r else x :: fresh (x :: declared) r
  end.

(* ------------------------------------------------------------------ syntax *)
Inductive kind := KLed | KRGB | KServo | KMotor | KButton | KPot | KUltra | KBuzzer | KLcd | KSerial.

Definition kind_eqb (a b : kind) : bool :=
  match a, b with
  | KLed, KLed | KRGB, KRGB | KServo, KServo | KMotor, KMotor | KButton, KButton
  | KPot, KPot | KUltra, KUltra | KBuzzer, KBuzzer | KLcd, KLcd | KSerial, KSerial => true
  | _, _ => false
  end.

(* pins: Led [p]; RGBLed [r;g;b]; Servo [p]; DCMotor [in1;in2;en]; Button [p];
   Potentiometer [p]; Ultrasonic [trig;echo]; Buzzer [p]; LCD [] or [backlight];
   SerialMonitor [].  d_handler: the on_click function of a Button. *)
Record decl := mkDecl { d_kind : kind; d_name : name; d_pins : list Z; d_handler : option name }.

Inductive rhs := RConst (z : Z) | RAdd (x : name) (z : Z).     (* literal | x + literal *)

Inductive stmt :=
| SMark (id : Z) (dev : option name)     (* observable statement number [id]; touches [dev] first *)
| SDecl (d : decl)                       (* name = Kind(pins...) *)
| SSet (x : name) (e : rhs)              (* x = e *)
| SShow (dev : name) (x : name)          (* mon.write(x) *)
| SAnim (lcd : name)                     (* lcd.animate(...) *)
| SBreak
| SIf (x : name) (body els : list stmt)  (* if x: body [else: els]   (same loop depth, depth+1; one child ctx per branch) *)
| SFor (cnt : nat) (body : list stmt)    (* for _ in range(cnt):   (loop depth+1) *)
| SWhile (x : name) (body : list stmt)   (* while x:   (loop depth+1; not the column-0 [while True:]) *)
| STry (body handler : list stmt).       (* try: body / except: handler   (same loop depth, depth+1; one child ctx each) *)

Inductive item :=
| IStmt (s : stmt)                       (* any top-level statement that is not a column-0 [while True:] *)
| IMainLoop (body : list stmt)           (* column-0 [while True:] *)
| IFunc (f : name) (body : list stmt).   (* def f(): ...   (button handlers; body = markers) *)

(* ------------------------------------------------------------------ collectors (all depths, textual order) *)
Fixpoint decls_stmt (s : stmt) : list decl :=
  match s with
  | SDecl d => [d]
  | SIf _ b e => flat_map decls_stmt b ++ flat_map decls_stmt e
  | SFor _ b => flat_map decls_stmt b
  | SWhile _ b => flat_map decls_stmt b
  | STry b h => flat_map decls_stmt b ++ flat_map decls_stmt h
  | _ => []
  end.

Fixpoint anims_stmt (s : stmt) : list name :=
  match s with
  | SAnim l => [l]
  | SIf _ b e => flat_map anims_stmt b ++ flat_map anims_stmt e
  | SFor _ b => flat_map anims_stmt b
  | SWhile _ b => flat_map anims_stmt b
  | STry b h => flat_map anims_stmt b ++ flat_map anims_stmt h
  | _ => []
  end.

Fixpoint assigned_stmt (s : stmt) : list name :=
  match s with
  | SSet x _ => [x]
  | SIf _ b e => flat_map assigned_stmt b ++ flat_map assigned_stmt e
  | SFor _ b => flat_map assigned_stmt b
  | SWhile _ b => flat_map assigned_stmt b
  | STry b h => flat_map assigned_stmt b ++ flat_map assigned_stmt h
  | _ => []
  end.

Definition top_decl (s : stmt) : list decl := match s with SDecl d => [d] | _ => [] end.

Definition item_stmts (it : item) : list stmt :=
  match it with IStmt s => [s] | IMainLoop b => b | IFunc _ b => b end.

Definition all_stmts (its : list item) : list stmt := flat_map item_stmts its.

(* ------------------------------------------------------------------ the split *)
Fixpoint split (its : list item) : list stmt * list stmt :=
  match its with
  | [] => ([], [])
  | IStmt s :: r => let (a, b) := split r in (s :: a, b)
  | IMainLoop body :: r => let (a, b) := split r in (a, body ++ b)
  | IFunc _ _ :: r => split r
  end.

Fixpoint funcs (its : list item) : list (name * list stmt) :=
  match its with
  | [] => []
  | IFunc f b :: r => (f, b) :: funcs r
  | _ :: r => funcs r
  end.

Definition is_button (d : decl) : bool := kind_eqb (d_kind d) KButton.

(* button_poll_names / lcd_tick_names: shared sets, filled wherever the statement occurs *)
Definition poll_names (its : list item) : list name :=
  sorted_set (map d_name (filter is_button (flat_map decls_stmt (all_stmts its)))).

Definition tick_names (its : list item) : list name :=
  sorted_set (flat_map anims_stmt (all_stmts its)).

Inductive lstmt := LPoll (b : name) | LTick (l : name) | LUser (s : stmt).

(* parse(): loop_body = lcd_ticks + loop_body; then loop_body = button_polls + loop_body *)
Definition inject (polls ticks : list name) (loop : list lstmt) : list lstmt :=
  map LPoll polls ++ map LTick ticks ++ loop.

Definition loop_list (its : list item) : list lstmt :=
  inject (poll_names its) (tick_names its) (map LUser (snd (split its))).

(* ------------------------------------------------------------------ variables: global or local of loop() *)
(* one ctx for the whole file: var_declared grows in textual order, main-loop bodies included.
   _handle_assignment_ast / _make_promotion_decls: a name first assigned at setup depth 0 OR at the body level of the
   main loop (directly, or hoisted to that level out of a nested block) goes to ctx["globals"]; nothing is a local of
   loop() any more (second component: always []) *)
Fixpoint classify (declared : list name) (its : list item) : list name * list name :=
  match its with
  | [] => ([], [])
  | IStmt s :: r =>
      let nn := fresh declared (assigned_stmt s) in
      let (g, l) := classify (declared ++ nn) r in (nn ++ g, l)
  | IMainLoop b :: r =>
      let nn := fresh declared (flat_map assigned_stmt b) in
      let (g, l) := classify (declared ++ nn) r in (nn ++ g, l)
  | IFunc _ _ :: r => classify declared r
  end.

Definition globals_of (its : list item) : list name := fst (classify [] its).
Definition locals_of (its : list item) : list name := snd (classify [] its).

(* the same split, each statement annotated with var_declared at the moment it is parsed *)
Fixpoint split_d (declared : list name) (its : list item)
  : list (list name * stmt) * list (list name * stmt) :=
  match its with
  | [] => ([], [])
  | IStmt s :: r =>
      let (a, b) := split_d (declared ++ assigned_stmt s) r in ((declared, s) :: a, b)
  | IMainLoop body :: r =>
      let (a, b) := split_d (declared ++ flat_map assigned_stmt body) r in
      (a, (fix ann (d : list name) (l : list stmt) : list (list name * stmt) :=
             match l with
             | [] => []
             | s :: l' => (d, s) :: ann (d ++ assigned_stmt s) l'
             end) declared body ++ b)
  | IFunc _ _ :: r => split_d declared r
  end.

(* ------------------------------------------------------------------ the IR node lists *)
Inductive irn :=
| NMark (id : Z) | NDecl (nm : name) | NVarDecl (x : name) | NVarAssign (x : name)
| NShow (x : name) | NAnim (l : name) | NBreak
| NIf (x : name) (b e : list irn) | NFor (cnt : nat) (b : list irn)
| NWhile (x : name) (b : list irn) | NTry (b h : list irn)
| NPoll (b : name) | NTick (l : name).

(* declarations promoted out of a block ([_make_promotion_decls]): globals at setup depth 0 and at the body level of
   the main loop (no node); anywhere deeper a [VarDecl(hoisted=True)] node that the enclosing block's own rewrite
   ([_rewrite_nodes] / the if-handler's [_rewrite]) DROPS when it hoists the name one level further out - so no node
   is left at any depth *)
Definition prom (top in_setup : bool) (nn : list name) : list irn := [].

Fixpoint ir_stmt (top in_setup : bool) (declared : list name) (s : stmt) : list irn :=
  let blk := fix go (d : list name) (l : list stmt) : list irn :=
               match l with
               | [] => []
               | s1 :: r => ir_stmt false in_setup d s1 ++ go (d ++ assigned_stmt s1) r
               end in
  match s with
  | SMark id _ => [NMark id]
  | SDecl d => [NDecl (d_name d)]
  | SSet x e =>
      if mem_name x declared then [NVarAssign x]
      else if top && in_setup then match e with RConst _ => [] | RAdd _ _ => [NVarAssign x] end
      else [NVarAssign x]      (* main-loop body level: global with the default initialiser + the assignment in place;
                                  deeper: the [VarDecl] the enclosing block rewrites to an assignment *)
  | SShow _ x => [NShow x]
  | SAnim l => [NAnim l]
  | SBreak => [NBreak]
  | SIf x body els =>                    (* every branch is parsed from the ctx of the [if] line *)
      prom top in_setup (fresh declared (assigned_stmt s)) ++ [NIf x (blk declared body) (blk declared els)]
  | SFor cnt body =>
      prom top in_setup (fresh declared (assigned_stmt s)) ++ [NFor cnt (blk declared body)]
  | SWhile x body =>
      prom top in_setup (fresh declared (assigned_stmt s)) ++ [NWhile x (blk declared body)]
  | STry body h =>                       (* the try body and the handler each from the ctx of the [try] line *)
      prom top in_setup (fresh declared (assigned_stmt s)) ++ [NTry (blk declared body) (blk declared h)]
  end.

Fixpoint ir_list (top in_setup : bool) (declared : list name) (l : list stmt) : list irn :=
  match l with
  | [] => []
  | s :: r => ir_stmt top in_setup declared s ++ ir_list top in_setup (declared ++ assigned_stmt s) r
  end.

Fixpoint ir_items (declared : list name) (its : list item) : list irn * list irn :=
  match its with
  | [] => ([], [])
  | IStmt s :: r =>
      let (a, b) := ir_items (declared ++ assigned_stmt s) r in
      (ir_stmt true true declared s ++ a, b)
  | IMainLoop body :: r =>
      let (a, b) := ir_items (declared ++ flat_map assigned_stmt body) r in
      (a, ir_list true false declared body ++ b)
  | IFunc _ _ :: r => ir_items declared r
  end.

Definition ir_setup (its : list item) : list irn := fst (ir_items [] its).
Definition ir_loop (its : list item) : list irn :=
  map NPoll (poll_names its) ++ map NTick (tick_names its) ++ snd (ir_items [] its).

(* observable statement numbers of a statement / of IR nodes, all depths, textual order *)
Fixpoint marks_stmt (s : stmt) : list Z :=
  match s with
  | SMark id _ => [id]
  | SIf _ b e => flat_map marks_stmt b ++ flat_map marks_stmt e
  | SFor _ b => flat_map marks_stmt b
  | SWhile _ b => flat_map marks_stmt b
  | STry b h => flat_map marks_stmt b ++ flat_map marks_stmt h
  | _ => []
  end.

Fixpoint marks_irn (n : irn) : list Z :=
  match n with
  | NMark id => [id]
  | NIf _ b e => flat_map marks_irn b ++ flat_map marks_irn e
  | NFor _ b => flat_map marks_irn b
  | NWhile _ b => flat_map marks_irn b
  | NTry b h => flat_map marks_irn b ++ flat_map marks_irn h
  | _ => []
  end.

(* the names an IR node list declares as C locals ([VarDecl] nodes), all depths, textual order *)
Fixpoint vardecls_irn (n : irn) : list name :=
  match n with
  | NVarDecl x => [x]
  | NIf _ b e => flat_map vardecls_irn b ++ flat_map vardecls_irn e
  | NFor _ b => flat_map vardecls_irn b
  | NWhile _ b => flat_map vardecls_irn b
  | NTry b h => flat_map vardecls_irn b ++ flat_map vardecls_irn h
  | _ => []
  end.
