(* Statement layer of the transpiler model (C01/C02/C05).

   Python statements carry ANNOTATED expressions: the expression itself is opaque (its
   translation is the business of Lang/ToC.v, unit C01_expr); the statement algorithm only
   looks at  - the type label _infer_expr_type gives it,
             - whether it is a name-free constant (_eval_const succeeds and _expr_has_name is false),
             - its free variables.
   The IR ([cnode]) is the parser's node list (VarDecl / VarAssign / IfStatement / ...), which the
   emitter prints one-to-one (emitter.py _emit_block), with expressions referred to by id. *)
From Coq Require Import ZArith QArith List Bool.
From RV Require Import Base.Wire Base.Text.
Import ListNotations.
Open Scope Z_scope.

Definition ident := text.

Inductive ty := TyInt | TyFloat | TyBool | TyString.

Definition ty_eqb (a b : ty) : bool :=
  match a, b with
  | TyInt, TyInt | TyFloat, TyFloat | TyBool, TyBool | TyString, TyString => true
  | _, _ => false end.

Record ann := { a_id : Z; a_ty : ty; a_const : bool; a_fv : list ident }.

(* "is_const and not expr_uses_names" in _handle_assignment_ast *)
Definition closed_const (a : ann) : bool :=
  a_const a && match a_fv a with [] => true | _ => false end.

Inductive pstmt : Type :=
| PAssign (x : ident) (e : ann)
| PAug (x : ident) (op : Z) (e : ann) (t_after : ty)
| PTuple (xs : list ident) (es : list ann)
| PIf (c : ann) (body : list pstmt) (elifs : list (ann * list pstmt)) (els : list pstmt)
| PWhile (c : ann) (body : list pstmt)
| PFor (x : ident) (cnt : ann) (body : list pstmt)
| PBreak
| PContinue
| PWrite (e : ann)
| PSleep (e : ann)
| PExprS (e : ann).

Record pprog := { p_pre : list pstmt; p_main : option (list pstmt) }.

(* ---- IR ---- *)
Inductive cexpr :=
| XE (id : Z)                        (* the C translation of source expression [id] *)
| XDefault (t : ty)                  (* _default_value_for_type *)
| XTmp (k : Z)                       (* __tmp_assign_k *)
| XAug (x : ident) (op : Z) (id : Z) (* (x op <expr>) *).

Inductive cnode : Type :=
| NDecl (x : ident) (t : ty) (init : cexpr) (glob : bool)
| NDeclTmp (k : Z) (t : ty) (init : cexpr)
| NAssign (x : ident) (e : cexpr)
| NIf (branches : list (Z * list cnode)) (els : list cnode)
| NWhile (c : Z) (body : list cnode)
| NFor (x : ident) (cnt : Z) (body : list cnode)
| NBreak
| NContinue                          (* `continue;` *)
| NReturn                            (* `return;` (ReturnStmt(expr=None): `continue` at the level of the main loop) *)
| NWrite (id : Z)
| NSleep (id : Z)
| NExprS (id : Z).

Record gdecl := { g_name : ident; g_ty : ty; g_init : cexpr }.
Record cprog := { c_globals : list gdecl; c_setup : list cnode; c_loop : list cnode }.
